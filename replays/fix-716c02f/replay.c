/*
 * Replay for 716c02f: coap_send_internal() leaks the response PDU on the two
 * early "return COAP_DROPPED_RESPONSE" exits of the 5.08 proxy-loop check.
 *
 * Build (from /tmp/rp/716c02f, library built in _build as libcoap-3.a):
 *   cc -g -O1 -I_build -Iinclude -I_build/include OUT/replay.c _build/libcoap-3.a \
 *      -lgnutls -lpthread \
 *      -Wl,--wrap=malloc -Wl,--wrap=calloc -Wl,--wrap=realloc -Wl,--wrap=free \
 *      -o OUT/replay
 * Run:
 *   OUT/replay nospace   # 5.08 payload fills the PDU up to max_size  (1st return)
 *   OUT/replay realloc   # realloc() of the PDU buffer for the NUL fails (2nd return)
 *   OUT/replay           # both, one after the other
 *   valgrind --leak-check=full --error-exitcode=9 OUT/replay nospace   (optional)
 * (OUT/replay.sh does build + run of both versions.)
 *
 * Exit status: 0 = no allocation outstanding after coap_free_context()/coap_cleanup();
 *              1 = leak detected (block(s) still allocated by libcoap);
 *              2 = harness problem (scenario not reached).
 *
 * Only the public API is used.  A real UDP server (endpoint on 127.0.0.1) with one
 * resource whose GET handler answers 5.08 (Hop Limit Reached) with a diagnostic
 * payload, and a real client session sending a NON GET to it over loopback.
 *  - nospace: the handler makes the diagnostic payload as big as coap_add_data()
 *    allows, so that used_size == max_size on entry to coap_send_internal().
 *  - realloc: the handler adds a short payload (coap_add_data() sizes the buffer
 *    exactly) and the next realloc() - the one made by coap_pdu_resize(used_size+1)
 *    inside the loop check - is made to fail.
 * Leak detector: wrapped malloc/calloc/realloc/free from libcoap-3.a + this file,
 * with a pointer table, so every block that is still live at the end is listed.
 */
#include <coap3/coap.h>
#include <stdio.h>
#include <stdlib.h>
#include <string.h>
#include <arpa/inet.h>

/* ---------------- allocation tracking / fault injection ---------------- */
void *__real_malloc(size_t);
void *__real_calloc(size_t, size_t);
void *__real_realloc(void *, size_t);
void __real_free(void *);

#define NTRACK 65536
static struct {
  void *p;
  size_t sz;
} live[NTRACK];
static int tracking = 0;
static int fail_next_realloc = 0;
static int realloc_failed = 0;

static void
track_add(void *p, size_t sz) {
  if (!tracking || !p)
    return;
  for (int i = 0; i < NTRACK; i++)
    if (!live[i].p) {
      live[i].p = p;
      live[i].sz = sz;
      return;
    }
  fprintf(stderr, "track table full\n");
  exit(2);
}

static void
track_del(void *p) {
  if (!p)
    return;
  for (int i = 0; i < NTRACK; i++)
    if (live[i].p == p) {
      live[i].p = NULL;
      return;
    }
}

void *
__wrap_malloc(size_t n) {
  void *p = __real_malloc(n);
  track_add(p, n);
  return p;
}

void *
__wrap_calloc(size_t a, size_t b) {
  void *p = __real_calloc(a, b);
  track_add(p, a * b);
  return p;
}

void *
__wrap_realloc(void *o, size_t n) {
  void *p;
  if (fail_next_realloc) {
    fail_next_realloc = 0;
    realloc_failed++;
    return NULL;               /* old block stays valid, as realloc() specifies */
  }
  p = __real_realloc(o, n);
  if (p) {
    track_del(o);
    track_add(p, n);
  }
  return p;
}

void
__wrap_free(void *p) {
  track_del(p);
  __real_free(p);
}

static int
report_live(const char *tag) {
  int n = 0;
  for (int i = 0; i < NTRACK; i++)
    if (live[i].p) {
      n++;
      fprintf(stderr, "  [%s] LEAKED block %p size %zu\n", tag, live[i].p, live[i].sz);
      live[i].p = NULL; /* forget it, so valgrind/LSan see it as definitely lost too */
    }
  return n;
}

/* ------------------------------ scenario ------------------------------- */
static int mode_realloc;
static int handler_calls;
static size_t payload_len;

static void
hnd_get(coap_resource_t *r, coap_session_t *session, const coap_pdu_t *req,
        const coap_string_t *query, coap_pdu_t *resp) {
  static uint8_t buf[70000];
  (void)r;
  (void)req;
  (void)query;

  handler_calls++;
  memset(buf, 'x', sizeof(buf));
  coap_pdu_set_code(resp, COAP_RESPONSE_CODE_HOP_LIMIT_REACHED); /* 5.08 */
  if (mode_realloc) {
    /* short diagnostic payload; buffer is (re)sized exactly by coap_add_data() */
    payload_len = 300;
    if (!coap_add_data(resp, payload_len, buf)) {
      fprintf(stderr, "handler: coap_add_data failed\n");
      exit(2);
    }
    fail_next_realloc = 1;  /* next realloc: coap_pdu_resize(pdu, used_size + 1) */
  } else {
    /* biggest diagnostic payload the library accepts for this session */
    size_t n = coap_session_max_pdu_size(session);
    while (n > 0 && !coap_add_data(resp, n, buf))
      n--;
    payload_len = n;
    if (n == 0) {
      fprintf(stderr, "handler: could not add any data\n");
      exit(2);
    }
  }
}

static int
run(const char *tag, int use_realloc_fault) {
  coap_context_t *sctx, *cctx;
  coap_address_t addr;
  coap_endpoint_t *ep;
  coap_resource_t *res;
  coap_session_t *cs;
  coap_pdu_t *pdu;
  int port = 0, leaked;

  mode_realloc = use_realloc_fault;
  handler_calls = 0;
  realloc_failed = 0;
  memset(live, 0, sizeof(live));
  tracking = 1;

  coap_startup();
  coap_set_log_level(COAP_LOG_ERR); /* hide the expected coap_add_data warnings */

  sctx = coap_new_context(NULL);
  cctx = coap_new_context(NULL);
  if (!sctx || !cctx)
    exit(2);

  ep = NULL;
  for (port = 45683; port < 45783 && !ep; port++) {
    coap_address_init(&addr);
    addr.addr.sin.sin_family = AF_INET;
    addr.addr.sin.sin_addr.s_addr = htonl(INADDR_LOOPBACK);
    addr.addr.sin.sin_port = htons(port);
    addr.size = sizeof(struct sockaddr_in);
    ep = coap_new_endpoint(sctx, &addr, COAP_PROTO_UDP);
  }
  if (!ep) {
    fprintf(stderr, "cannot bind endpoint\n");
    exit(2);
  }
  res = coap_resource_init(coap_make_str_const("loop"), 0);
  coap_register_request_handler(res, COAP_REQUEST_GET, hnd_get);
  coap_add_resource(sctx, res);

  cs = coap_new_client_session(cctx, NULL, &addr, COAP_PROTO_UDP);
  if (!cs)
    exit(2);
  pdu = coap_new_pdu(COAP_MESSAGE_NON, COAP_REQUEST_CODE_GET, cs);
  coap_add_token(pdu, 2, (const uint8_t *)"ab");
  coap_add_option(pdu, COAP_OPTION_URI_PATH, 4, (const uint8_t *)"loop");
  if (coap_send(cs, pdu) == COAP_INVALID_MID)
    exit(2);

  for (int i = 0; i < 50 && handler_calls == 0; i++) {
    coap_io_process(sctx, 20);
    coap_io_process(cctx, 20);
  }
  coap_io_process(sctx, 20);
  coap_io_process(cctx, 20);

  coap_session_release(cs);
  coap_free_context(cctx);
  coap_free_context(sctx);
  coap_cleanup();
  tracking = 0;

  fprintf(stderr, "[%s] handler calls=%d payload=%zu realloc faults injected=%d\n",
          tag, handler_calls, payload_len, realloc_failed);
  if (handler_calls != 1 || (use_realloc_fault && realloc_failed != 1)) {
    fprintf(stderr, "[%s] scenario not reached\n", tag);
    exit(2);
  }
  leaked = report_live(tag);
  fprintf(stderr, "[%s] %s (%d block(s) outstanding after coap_free_context)\n",
          tag, leaked ? "LEAK" : "clean", leaked);
  return leaked;
}

int
main(int argc, char **argv) {
  int bad = 0;
  if (argc < 2 || !strcmp(argv[1], "nospace"))
    bad += run("nospace", 0);
  if (argc < 2 || !strcmp(argv[1], "realloc"))
    bad += run("realloc", 1);
  return bad ? 1 : 0;
}
