#!/bin/sh
# Builds libcoap at the parent of 716c02f and at 716c02f and runs the replay on both.
# Usage: sh OUT/replay.sh        (from anywhere; leaves the worktree at 716c02f^)
set -u
cd /tmp/rp/716c02f || exit 2
build_and_run() {
  git checkout -q --detach "$1" || exit 2
  cmake -G Ninja -S . -B _build -DENABLE_DOCS=OFF -DENABLE_TESTS=OFF -DENABLE_EXAMPLES=OFF \
        -DCMAKE_BUILD_TYPE=RelWithDebInfo >/dev/null 2>&1
  cmake --build _build --target coap-3 >/dev/null || exit 2
  cc -g -O1 -I_build -Iinclude -I_build/include OUT/replay.c _build/libcoap-3.a \
     -lgnutls -lpthread \
     -Wl,--wrap=malloc -Wl,--wrap=calloc -Wl,--wrap=realloc -Wl,--wrap=free \
     -o OUT/replay || exit 2
  echo "=== $1: plain run"
  OUT/replay; echo "exit status: $?"
  echo "=== $1: valgrind"
  valgrind -q --leak-check=full --error-exitcode=9 OUT/replay >OUT/vg.log 2>&1
  echo "valgrind exit status: $?"; grep -E "definitely lost|coap_|ERROR" OUT/vg.log | head -20
}
build_and_run 716c02f
build_and_run '716c02f^'
