#include "coap3/coap_libcoap_build.h"
#include <stdio.h>
#include <string.h>
int main(void){
  coap_startup(); coap_set_log_level(COAP_LOG_EMERG);
  coap_context_t *ctx=coap_new_context(NULL);
  coap_persist_startup(ctx,"/tmp/exp/replay/pd/dyn",NULL,NULL,0);
  coap_session_t s; memset(&s,0,sizeof s); s.context=ctx; s.proto=COAP_PROTO_UDP;
  const char *names[]={"alpha","bravo","charlie"};
  for(int i=0;i<3;i++){
    coap_str_const_t n={strlen(names[i]),(const uint8_t*)names[i]}; uint8_t pk[]={0x40,0x03,0,1};
    coap_bin_const_t p={sizeof pk,pk};
    int r=ctx->dyn_resource_added(&s,&n,&p,NULL); printf("added %s -> %d\n",names[i],r);
  }
  FILE *f=fopen("/tmp/exp/replay/pd/dyn","r"); char buf[4096]; size_t n=fread(buf,1,sizeof buf,f); fclose(f);
  for(int i=0;i<3;i++){ int found=0; for(size_t k=0;k+strlen(names[i])<=n;k++) if(!memcmp(buf+k,names[i],strlen(names[i]))) found=1; printf("file contains %s: %d\n",names[i],found);} 
  coap_free_context(ctx); return 0; }
