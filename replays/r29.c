/* r29: stack buffer overflow in coap_ws_close() driven by the peer.
 *
 * coap_ws_read() sets ws->all_hdr_in = 1 and ws->data_size = <declared frame size> BEFORE it compares the size with the space the
 * caller provided.  For an oversize frame it calls coap_ws_close(), whose drain loop re-enters coap_ws_read() with a 100-byte stack
 * buffer: with all_hdr_in already set that call goes straight to
 *     l_read(session, &data[ws->data_ofs], ws->data_size - ws->data_ofs)
 * i.e. it reads up to the DECLARED frame size into the 100-byte buffer.  The same happens without any oversize frame when a close
 * is started while a frame of more than 100 bytes is partly received.
 *
 * A WebSocket client needs: the upgrade request, then one frame header declaring 5000 bytes followed by the 5000 bytes.
 *
 * build (ASan library: cmake -S /repo -B <asan build> -DCMAKE_C_COMPILER=clang -DCMAKE_C_FLAGS="-fsanitize=address -g" -DENABLE_DOCS=OFF; cmake --build <asan build> --target coap-3):
 *   clang -fsanitize=address -g -I<asan build> -I<asan build>/include -I/repo/include replays/r29.c <asan build>/libcoap-3.a -lgnutls -lpthread -o /tmp/r29asan ; /tmp/r29asan
 * unrepaired tree: AddressSanitizer: stack-buffer-overflow WRITE in coap_ws_close's frame (through coap_ws_read -> socket read)
 * repaired tree:   "OK: oversize frame refused, session closed, no overflow", exit 0 */
#include <coap3/coap.h>
#include <arpa/inet.h>
#include <netinet/in.h>
#include <sys/socket.h>
#include <unistd.h>
#include <stdio.h>
#include <string.h>
#include <stdlib.h>

static int events_ws_size = 0, events_closed = 0;
static int ev(coap_session_t *s, coap_event_t e) {
  (void)s;
  if (e == COAP_EVENT_WS_PACKET_SIZE) events_ws_size++;
  if (e == COAP_EVENT_WS_CLOSED || e == COAP_EVENT_TCP_CLOSED) events_closed++;
  return 0;
}

int main(void) {
  coap_context_t *ctx;
  coap_address_t addr;
  int port = 45683, fd, i;
  struct sockaddr_in sa;
  static unsigned char frame[8 + 5000];
  char buf[2048];
  const char *req = "GET /.well-known/coap HTTP/1.1\r\nHost: localhost\r\nUpgrade: websocket\r\nConnection: Upgrade\r\n"
                    "Sec-WebSocket-Key: dGhlIHNhbXBsZSBub25jZQ==\r\nSec-WebSocket-Protocol: coap\r\nSec-WebSocket-Version: 13\r\n\r\n";

  coap_startup();
  if (!coap_ws_is_supported()) { printf("no WebSocket support in this build\n"); return 2; }
  coap_set_log_level(COAP_LOG_WARN);
  ctx = coap_new_context(NULL);
  coap_register_event_handler(ctx, ev);
  coap_address_init(&addr);
  addr.addr.sin.sin_family = AF_INET;
  addr.addr.sin.sin_addr.s_addr = htonl(INADDR_LOOPBACK);
  addr.addr.sin.sin_port = htons(port);
  if (!coap_new_endpoint(ctx, &addr, COAP_PROTO_WS)) { printf("cannot create WS endpoint\n"); return 2; }

  fd = socket(AF_INET, SOCK_STREAM, 0);
  memset(&sa, 0, sizeof(sa));
  sa.sin_family = AF_INET; sa.sin_addr.s_addr = htonl(INADDR_LOOPBACK); sa.sin_port = htons(port);
  if (connect(fd, (struct sockaddr *)&sa, sizeof(sa)) < 0) { perror("connect"); return 2; }
  if (write(fd, req, strlen(req)) < 0) return 2;
  for (i = 0; i < 10; i++) coap_io_process(ctx, 50);
  i = (int)recv(fd, buf, sizeof(buf) - 1, MSG_DONTWAIT);
  if (i <= 0 || !strstr((buf[i] = 0, buf), "101")) { printf("no 101 Switching Protocols (%d)\n", i); return 2; }

  /* one masked binary frame, 16-bit length form, declaring 5000 bytes, body included in the same write */
  frame[0] = 0x82; frame[1] = 0x80 | 126; frame[2] = 5000 >> 8; frame[3] = 5000 & 0xff;
  frame[4] = 1; frame[5] = 2; frame[6] = 3; frame[7] = 4;
  memset(frame + 8, 0x41, 5000);
  if (write(fd, frame, sizeof(frame)) < 0) return 2;
  for (i = 0; i < 20; i++) coap_io_process(ctx, 50);

  close(fd);
  coap_free_context(ctx);
  coap_cleanup();
  printf("OK: oversize frame refused (WS_PACKET_SIZE events: %d), session closed, no overflow\n", events_ws_size);
  return events_ws_size >= 1 ? 0 : 1;
}
