/* replays/r41.c - R-TIMER-REC (the successor inherits the delta) (C06): the send queue keeps RELATIVE times (node->t is the distance to the
 * node in front).  coap_remove_from_queue() adds the removed node's t to its successor; coap_cancel_session_messages(),
 * coap_cancel_all_messages() and coap_delete_node_lkd() unlink without doing so: every node behind the removed one fires early by that
 * amount.  Two client sessions to silent peers; A's Confirmable is queued first, B's right behind it; A is disconnected; B's first
 * retransmission must still come T_B (2..3 s) after B's first transmission.
 *   build: cc -O1 -g -I/repo/_build/include -I/repo/include r41.c /repo/_build/libcoap-3.a -lgnutls -lpthread -o r41 && ./r41
 *   before the fix: "B retransmitted after NNN ms" with NNN far below 2000, exit 1;  with the fix: 2000..3000 ms, exit 0
 */
#include <coap3/coap.h>
#include <stdio.h>
#include <string.h>
#include <sys/socket.h>
#include <arpa/inet.h>
#include <unistd.h>
#include <time.h>
#include <fcntl.h>
static long now_ms(void) { struct timespec ts; clock_gettime(CLOCK_MONOTONIC, &ts); return ts.tv_sec * 1000L + ts.tv_nsec / 1000000L; }
static int silent_peer(coap_address_t *dst) {
  int fd = socket(AF_INET, SOCK_DGRAM, 0);
  struct sockaddr_in a; memset(&a, 0, sizeof a); a.sin_family = AF_INET; a.sin_addr.s_addr = htonl(0x7f000001);
  bind(fd, (struct sockaddr *)&a, sizeof a);
  socklen_t l = sizeof a; getsockname(fd, (struct sockaddr *)&a, &l);
  fcntl(fd, F_SETFL, O_NONBLOCK);
  coap_address_init(dst); dst->size = sizeof a; dst->addr.sin = a;
  return fd;
}
static coap_mid_t send_con(coap_session_t *s, uint8_t tok) {
  coap_pdu_t *p = coap_new_pdu(COAP_MESSAGE_CON, COAP_REQUEST_CODE_GET, s);
  coap_add_token(p, 1, &tok);
  coap_add_option(p, COAP_OPTION_URI_PATH, 1, (const uint8_t *)"x");
  return coap_send(s, p);
}
int main(void) {
  coap_startup();
  coap_set_log_level(COAP_LOG_EMERG);
  coap_context_t *ctx = coap_new_context(NULL);
  coap_address_t da, db;
  int fa = silent_peer(&da), fb = silent_peer(&db);
  coap_session_t *A = coap_new_client_session(ctx, NULL, &da, COAP_PROTO_UDP);
  coap_session_t *B = coap_new_client_session(ctx, NULL, &db, COAP_PROTO_UDP);
  /* make sure A's deadline is the earlier one: shortest ACK timeout for A, longest for B */
  coap_session_set_ack_random_factor(A, (coap_fixed_point_t){1, 0});
  coap_session_set_ack_random_factor(B, (coap_fixed_point_t){1, 0});
  coap_session_set_ack_timeout(A, (coap_fixed_point_t){2, 0});
  coap_session_set_ack_timeout(B, (coap_fixed_point_t){2, 500});
  send_con(A, 0xa1);
  send_con(B, 0xb1);
  coap_io_process(ctx, 20);
  long t_first = -1, t_retx = -1; int seen = 0; char buf[64];
  long t0 = now_ms();
  coap_session_disconnected(A, COAP_NACK_NOT_DELIVERABLE);     /* A's node (head of the queue) is cancelled */
  while (now_ms() - t0 < 4000 && t_retx < 0) {
    coap_io_process(ctx, 20);
    while (recv(fb, buf, sizeof buf, 0) > 0) {
      seen++;
      if (seen == 1) t_first = now_ms();
      else if (seen == 2) t_retx = now_ms();
    }
  }
  (void)fa;
  if (t_first < 0 || t_retx < 0) { printf("B: first=%ld retx=%ld (not seen)\n", t_first, t_retx); return 2; }
  long d = t_retx - t0;
  printf("B retransmitted %ld ms after A was cancelled (B's time-out is 2500 ms, B was sent ~20 ms before)\n", d);
  int bad = d < 2000;
  coap_session_release(A); coap_session_release(B);
  coap_free_context(ctx); coap_cleanup();
  return bad;
}
