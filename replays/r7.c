#include <coap3/coap.h>
#include <stdio.h>
int main(void){ coap_startup(); coap_set_log_level(COAP_LOG_EMERG);
  uint8_t msg[]={0x40,0x01,0x12,0x34,0xE0,0xFE,0xF2};   /* one option, number 65535, empty */
  coap_pdu_t *p=coap_pdu_init(0,0,0,100); int r=coap_pdu_parse(COAP_PROTO_UDP,msg,sizeof msg,p);
  printf("parse of option number 65535 -> %d (well-formed, must be 1)\n",r);
  coap_pdu_t *q=coap_pdu_init(COAP_MESSAGE_CON,1,1,100); size_t n=coap_add_option(q,65535,0,NULL); printf("API add of option 65535 -> %zu\n",n);
  return 0; }
