/*
 * C02: coap_pdu_parse_header() reads the RFC 8974 extended token length bytes pdu->token[0] (TKL nibble 13) / token[0..1] (nibble 14)
 * before it has compared anything with the number of bytes that were received.  A datagram that consists of the 4 byte header alone,
 * with TKL nibble 13 or 14, has no byte behind the header: coap_handle_dgram() allocates the PDU for exactly msg_len - 4 = 0 bytes, so
 * token[0] is the first byte behind the heap block.  (The value read is then rejected -- but it has been read.)
 *
 * build (ASan library, see replays/r12.c): clang -fsanitize=address -g -Wno-deprecated-declarations -I<asan build>/include -I/repo/include replays/r27.c <asan build>/libcoap-3.a -lgnutls -lpthread -o /tmp/r27asan ; /tmp/r27asan
 *   before the fix: AddressSanitizer: heap-buffer-overflow READ of size 1 in coap_pdu_parse_header <- coap_pdu_parse
 *   after the fix : "rejected", exit 0   (without ASan the program prints "rejected" on both trees: the over-read is silent)
 */
#include <coap3/coap.h>

#include <stdio.h>
#include <stdlib.h>
#include <string.h>

int
main(void) {
  int k, bad = 0;

  coap_startup();
  coap_set_log_level(COAP_LOG_EMERG);
  for (k = 13; k <= 14; k++) {
    uint8_t *msg = malloc(4);
    coap_pdu_t *pdu;
    int ok;

    msg[0] = (uint8_t)(0x40 | k);     /* ver 1, CON, TKL nibble 13 / 14 */
    msg[1] = 0x01;
    msg[2] = 0x12;
    msg[3] = 0x34;                    /* ... and nothing behind the header */
    pdu = coap_pdu_init(0, 0, 0, 0);  /* what coap_handle_dgram() does for a 4 byte datagram */
    ok = coap_pdu_parse(COAP_PROTO_UDP, msg, 4, pdu);
    printf("TKL nibble %d, 4 byte datagram: %s\n", k, ok ? "ACCEPTED" : "rejected");
    bad |= ok;
    coap_delete_pdu(pdu);
    free(msg);
  }
  coap_cleanup();
  return bad;
}
