/*
 * C08/C18: coap_send_internal() transmits an unreliable Confirmable through coap_send_pdu(), which counts it (con_active++), and
 * only then allocates the retransmission node.  When that allocation fails the function returns COAP_INVALID_MID and deletes the
 * PDU, but the message stays counted: nothing is queued that an ACK / RST / give-up could retire, so with NSTART 1 every later
 * Confirmable on the session is held in the delay queue for ever.
 * build: cc -g -I/repo/_build -I/repo/include -I/repo/_build/include replays/r15.c /repo/_build/libcoap-3.a -Wl,--wrap=malloc -lgnutls -lpthread -o /tmp/r15
 * run:   /tmp/r15        (sweeps which allocation inside coap_send() fails; exit 1 = a failed send left con_active raised)
 */
#include <stddef.h>
extern void *__real_malloc(size_t n);
static int armed, countdown;
void *__wrap_malloc(size_t n);
#include "coap3/coap_libcoap_build.h"
/* coap_libcoap_build.h marks the public COAP_API entry points deprecated (for
 * use inside the library); this is an application, so that is just noise. */
#pragma GCC diagnostic ignored "-Wdeprecated-declarations"
#include <stdio.h>
#include <string.h>
#include <unistd.h>
#include <fcntl.h>
#include <arpa/inet.h>
#include <sys/socket.h>

static int peer_fd;
static struct sockaddr_in client_addr;
static socklen_t client_len;

/* drain everything the peer socket has received; record CON mids seen */
static int con_mids[16];
static int n_con;
static int last_non_mid = -1;

static void
peer_drain(void) {
  uint8_t buf[256];
  for (;;) {
    struct sockaddr_in from;
    socklen_t fl = sizeof(from);
    ssize_t n = recvfrom(peer_fd, buf, sizeof(buf), MSG_DONTWAIT,
                         (struct sockaddr *)&from, &fl);
    if (n < 4)
      break;
    client_addr = from;
    client_len = fl;
    int type = (buf[0] >> 4) & 3;
    int mid = (buf[2] << 8) | buf[3];
    printf("  peer <- %s mid=0x%04x code=%d\n",
           type == 0 ? "CON" : type == 1 ? "NON" : type == 2 ? "ACK" : "RST",
           mid, buf[1]);
    if (type == 0) {
      int i, known = 0;
      for (i = 0; i < n_con; i++)
        if (con_mids[i] == mid)
          known = 1;
      if (!known && n_con < 16)
        con_mids[n_con++] = mid;
    } else if (type == 1) {
      last_non_mid = mid;
    }
  }
}

static coap_mid_t
send_get(coap_session_t *s, coap_pdu_type_t type, const char *path, uint8_t tok) {
  coap_pdu_t *p = coap_new_pdu(type, COAP_REQUEST_CODE_GET, s);
  if (!p)
    return COAP_INVALID_MID;
  coap_add_token(p, 1, &tok);
  coap_add_option(p, COAP_OPTION_URI_PATH, strlen(path), (const uint8_t *)path);
  return coap_send(s, p);
}

/* s == NULL: count every node (nodes on session->delayqueue carry no session) */
static int
count_queue(coap_queue_t *q, coap_session_t *s, int con_only) {
  int n = 0;
  for (; q; q = q->next)
    if ((!s || q->session == s) &&
        (!con_only || q->pdu->type == COAP_MESSAGE_CON))
      n++;
  return n;
}

void *__wrap_malloc(size_t n) {
  if (armed && --countdown == 0) { armed = 0; return NULL; }
  return __real_malloc(n);
}

int
main(void) {
  struct sockaddr_in pa;
  socklen_t pl = sizeof(pa);
  int k, rc = 0;

  setvbuf(stdout, NULL, _IONBF, 0);
  peer_fd = socket(AF_INET, SOCK_DGRAM, 0);
  memset(&pa, 0, sizeof(pa));
  pa.sin_family = AF_INET;
  pa.sin_addr.s_addr = htonl(INADDR_LOOPBACK);
  if (bind(peer_fd, (struct sockaddr *)&pa, sizeof(pa)) < 0 || getsockname(peer_fd, (struct sockaddr *)&pa, &pl) < 0)
    return 2;
  coap_startup();
  coap_set_log_level(COAP_LOG_EMERG);
  for (k = 1; k <= 8; k++) {
    coap_address_t dst;
    coap_context_t *ctx = coap_new_context(NULL);
    coap_session_t *s;
    coap_mid_t m1, m2;

    coap_address_init(&dst);
    dst.size = sizeof(struct sockaddr_in);
    memcpy(&dst.addr.sin, &pa, sizeof(pa));
    s = coap_new_client_session(ctx, NULL, &dst, COAP_PROTO_UDP);
    coap_pdu_t *p = coap_new_pdu(COAP_MESSAGE_CON, COAP_REQUEST_CODE_GET, s);
    coap_add_option(p, COAP_OPTION_URI_PATH, 3, (const uint8_t *)"one");
    countdown = k; armed = 1;
    m1 = coap_send(s, p);
    armed = 0;
    printf("k=%d: coap_send -> %s, con_active=%u, sendqueue=%d\n", k, m1 == COAP_INVALID_MID ? "INVALID_MID" : "mid",
           s->con_active, count_queue(ctx->sendqueue, s, 1));
    if (m1 == COAP_INVALID_MID && s->con_active != 0) {
      m2 = send_get(s, COAP_MESSAGE_CON, "two", 3);
      coap_io_process(ctx, 50);
      n_con = 0;
      usleep(20000);
      peer_drain();
      printf("   DEFECT: the send failed but the message is still counted; next CON (mid %04x): delayqueue=%d, seen by peer=%d\n",
             m2, count_queue(s->delayqueue, NULL, 0), n_con);
      rc = 1;
    }
    coap_session_release(s);
    coap_free_context(ctx);
  }
  coap_cleanup();
  close(peer_fd);
  printf(rc ? "FAIL\n" : "OK: no failed send left con_active raised\n");
  return rc;
}
