/*
 * Replay for fdbfc3e: oscore_cbor_strip_value() writes through an unchecked
 * coap_malloc_type() result.
 *
 * NOTE: oscore_cbor_strip_value() has NO caller anywhere in the library (or in
 * examples/tests) at this commit; it is an exported-but-unused internal helper
 * declared in include/oscore/oscore_cbor.h.  So there is no public API / network
 * route; the replay calls the internal entry point directly with a perfectly
 * valid CBOR item and valid arguments, and injects one failing malloc().
 *
 * Build + run (from /tmp/rp/fdbfc3e, library built as described in the task):
 *   cmake -G Ninja -S . -B _build -DENABLE_DOCS=OFF -DENABLE_TESTS=OFF \
 *         -DENABLE_EXAMPLES=OFF -DCMAKE_BUILD_TYPE=RelWithDebInfo >/dev/null
 *   cmake --build _build --target coap-3
 *   cc -g -I_build -Iinclude -I_build/include OUT/replay.c _build/libcoap-3.a \
 *      -Wl,--wrap=malloc -lgnutls -lpthread -o OUT/replay
 *   ./OUT/replay ; echo "exit=$?"
 *
 * Parent (fdbfc3e^): second call SIGSEGVs writing to NULL -> handler prints
 *                    "FAIL: SIGSEGV ..." and exit status 1.
 * fdbfc3e:           second call returns with result==NULL, len==0 -> "OK", exit 0.
 */
#include "coap3/coap_libcoap_build.h"
#include "oscore/oscore_cbor.h"

#include <signal.h>
#include <stdio.h>
#include <string.h>
#include <unistd.h>

static int fail_next_malloc = 0;
static int failed_mallocs = 0;

void *__real_malloc(size_t n);
void *
__wrap_malloc(size_t n) {
  if (fail_next_malloc) {
    fail_next_malloc = 0;
    failed_mallocs++;
    return NULL;
  }
  return __real_malloc(n);
}

static void
on_segv(int sig) {
  static const char msg[] =
      "FAIL: SIGSEGV inside oscore_cbor_strip_value() after malloc() returned NULL\n";
  (void)sig;
  (void)!write(2, msg, sizeof(msg) - 1);
  _exit(1);
}

int
main(void) {
  /* CBOR byte string, 4 bytes: 0x44 01 02 03 04 */
  static const uint8_t item[] = { 0x44, 0x01, 0x02, 0x03, 0x04 };
  const uint8_t *p;
  size_t left;
  uint8_t *res;
  size_t len;

  coap_startup();
  signal(SIGSEGV, on_segv);

  /* 1. sanity: normal operation */
  p = item;
  left = sizeof(item);
  res = NULL;
  len = 0;
  oscore_cbor_strip_value(&p, &left, &res, &len);
  if (!res || len != sizeof(item) || memcmp(res, item, len) != 0 || left != 0) {
    fprintf(stderr, "unexpected: normal call did not copy the element\n");
    return 2;
  }
  coap_free_type(COAP_STRING, res);
  printf("normal call ok: len=%zu\n", len);
  fflush(stdout);

  /* 2. same call, but the single allocation inside fails */
  p = item;
  left = sizeof(item);
  res = (uint8_t *)1;
  len = 99;
  fail_next_malloc = 1;
  oscore_cbor_strip_value(&p, &left, &res, &len);
  fail_next_malloc = 0;
  if (failed_mallocs != 1) {
    fprintf(stderr, "unexpected: fault was not injected (%d)\n", failed_mallocs);
    return 2;
  }
  if (res != NULL || len != 0) {
    fprintf(stderr, "FAIL: res=%p len=%zu after failed allocation\n", (void *)res, len);
    return 1;
  }
  printf("OK: allocation failure handled, result=NULL len=0\n");
  coap_cleanup();
  return 0;
}
