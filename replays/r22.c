/*
 * C01 / C04: RFC 8974 allows tokens of up to 65804 bytes (13 + 256 + 65535).  include/coap3/coap_pdu.h chooses COAP_TOKEN_EXT_MAX with
 *     #if (UINT_MAX > 65804UL)  ->  65804UL   #else  ->  4096
 * but <limits.h> is only included further down in that header (where af624d5 put it for the sibling test of COAP_MAX_OPT), so UINT_MAX is
 * still undefined at this line, the preprocessor evaluates it as 0 and every build gets 4096: coap_add_token() / coap_update_token()
 * refuse the tokens of 4097..65804 bytes, and coap_context_set_max_token_size() asserts on them.
 *
 * build: cc -Wno-deprecated-declarations -I/repo/_build/include -I/repo/include replays/r22.c /repo/_build/libcoap-3.a -lgnutls -lpthread -o /tmp/r22 ; /tmp/r22
 *   before the fix: "FAIL: COAP_TOKEN_EXT_MAX is 4096 ... coap_add_token(5000) refused"; after: 65804, both tokens accepted and read back, "OK"
 */
#include <coap3/coap.h>

#include <stdio.h>
#include <stdlib.h>
#include <string.h>

static int
try_len(size_t len) {
  coap_pdu_t *pdu = coap_pdu_init(COAP_MESSAGE_CON, COAP_REQUEST_CODE_GET, 0x1234, len + 64);
  uint8_t *tok = malloc(len);
  coap_bin_const_t got;
  int ok;

  memset(tok, 0x5a, len);
  tok[0] = 1;
  tok[len - 1] = 2;
  ok = pdu && coap_add_token(pdu, len, tok);
  if (ok) {
    got = coap_pdu_get_token(pdu);
    ok = got.length == len && memcmp(got.s, tok, len) == 0;
  }
  coap_delete_pdu(pdu);
  free(tok);
  return ok;
}

int
main(void) {
  int a, b;

  coap_startup();
  coap_set_log_level(COAP_LOG_EMERG);
  a = try_len(5000);
  b = try_len(65804);
  coap_cleanup();
  printf("COAP_TOKEN_EXT_MAX = %lu, token of 5000 bytes %s, token of 65804 bytes %s\n", (unsigned long)COAP_TOKEN_EXT_MAX,
         a ? "accepted" : "refused", b ? "accepted" : "refused");
  if ((unsigned long)COAP_TOKEN_EXT_MAX != 65804UL || !a || !b) {
    printf("FAIL: COAP_TOKEN_EXT_MAX is %lu, not 65804\n", (unsigned long)COAP_TOKEN_EXT_MAX);
    return 1;
  }
  printf("OK\n");
  return 0;
}
