/* replays/r37.c - R-NULL-BELIEF (installed call-out) (C17 / C18): coap_persist_startup() installs coap_op_resource_deleted() as the
 * context's resource_deleted call-out when EITHER the dynamic-resource file OR the observe-counter file is configured, but the call-out
 * dereferences BOTH context->obs_cnt_save_file and context->dyn_resource_save_file unconditionally.  With only one of the two files
 * configured (a documented use: "NULL if not required") deleting any resource crashes.
 *   build: cc -O1 -g -I/repo/_build/include -I/repo/include r37.c /repo/_build/libcoap-3.a -lgnutls -lpthread -o r37 && ./r37 cnt ; ./r37 dyn
 *   before the fix: SIGSEGV (exit 139) for both;  with the fix: "deleted ok", exit 0
 */
#include <coap3/coap.h>
#include <stdio.h>
#include <string.h>
int main(int argc, char **argv) {
  int only_cnt = argc < 2 || !strcmp(argv[1], "cnt");
  coap_startup();
  coap_set_log_level(COAP_LOG_EMERG);
  coap_context_t *ctx = coap_new_context(NULL);
  if (!coap_persist_startup(ctx, only_cnt ? NULL : "/tmp/r37/dyn.save", NULL, only_cnt ? "/tmp/r37/cnt.save" : NULL, 0)) { printf("persist not available\n"); return 2; }
  coap_resource_t *r = coap_resource_init(coap_make_str_const("sensor"), 0);
  coap_add_resource(ctx, r);
  coap_delete_resource(ctx, r);
  printf("deleted ok\n");
  coap_free_context(ctx);
  coap_cleanup();
  return 0;
}
