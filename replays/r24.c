/*
 * C16 / C02: coap_get_query() measures "one '&' between any two Uri-Query options" but, when it fills the string, writes the separator
 * only `if (s != query->s)`, i.e. when the output cursor has already moved.  After an EMPTY first Uri-Query option it has not: the options
 * ["", "a"] are measured as 2 bytes ("&a") and filled as "a" -- query->length is 2, the second byte is uninitialised heap memory, the
 * first separator is missing, and the request handler is handed that string.  (coap_get_uri_path() counts segments and is right.)
 *
 * build: cc -Wno-deprecated-declarations -I/repo/_build/include -I/repo/include replays/r24.c /repo/_build/libcoap-3.a -lgnutls -lpthread -o /tmp/r24 ; /tmp/r24
 *   before the fix: "FAIL: got 61 00 (length 2), expected 26 61" (the second byte is whatever the heap held; valgrind: use of uninitialised value); after: "OK"
 */
#include <coap3/coap.h>

#include <stdio.h>
#include <stdlib.h>
#include <string.h>

int
main(void) {
  coap_pdu_t *pdu;
  coap_string_t *q;
  void *poison[64];
  int i, ok;

  coap_startup();
  /* make freshly allocated small blocks come back filled with 0xa5 */
  for (i = 0; i < 64; i++) {
    poison[i] = malloc(24);
    memset(poison[i], 0xa5, 24);
  }
  for (i = 0; i < 64; i++)
    free(poison[i]);
  pdu = coap_pdu_init(COAP_MESSAGE_CON, COAP_REQUEST_CODE_GET, 1, 100);
  coap_add_option(pdu, COAP_OPTION_URI_QUERY, 0, (const uint8_t *)"");
  coap_add_option(pdu, COAP_OPTION_URI_QUERY, 1, (const uint8_t *)"a");
  q = coap_get_query(pdu);
  ok = q && q->length == 2 && q->s[0] == '&' && q->s[1] == 'a';
  if (!ok) {
    printf("FAIL: got");
    for (i = 0; q && i < (int)q->length; i++)
      printf(" %02x", q->s[i]);
    printf(" (length %zu), expected 26 61\n", q ? q->length : 0);
  } else {
    printf("OK\n");
  }
  coap_delete_string(q);
  coap_delete_pdu(pdu);
  coap_cleanup();
  return ok ? 0 : 1;
}
