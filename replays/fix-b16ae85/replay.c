/*
 * Replay for commit b16ae85:
 *   "coap_send_q_blocks() dereferenced the result of coap_pdu_duplicate_lkd()
 *    without a NULL test"
 *
 * Scenario (public API only + one injected allocation failure):
 *   - child process : ordinary libcoap server (UDP 127.0.0.1:PORT) with
 *                     Q-Block (RFC 9177) enabled and a PUT resource.
 *   - parent process: ordinary libcoap client with COAP_BLOCK_TRY_Q_BLOCK.
 *                     It sends a NON PUT carrying a 4 KiB body with
 *                     coap_add_data_large_request() + coap_send().
 *                     libcoap probes the server, learns it speaks Q-Block and
 *                     sends the body with coap_send_q_blocks().
 *   - fault         : malloc is wrapped (-Wl,--wrap=malloc).  The first
 *                     malloc() issued from coap_pdu_duplicate_lkd() while
 *                     coap_send_q_blocks() is on the call stack returns NULL
 *                     (exactly one failed allocation, i.e. transient ENOMEM).
 *                     The call stack is identified with backtrace()+dladdr(),
 *                     nothing in the library is modified.
 *
 * Expected:
 *   parent of b16ae85 : SIGSEGV inside coap_send_q_blocks()
 *                       (block_pdu->type with block_pdu == NULL)  -> exit != 0
 *   b16ae85           : coap_send() succeeds, the remaining blocks go out on
 *                       the next Q-Block timer tick, server answers 2.04
 *                       -> prints "OK", exit 0
 *
 * Build library (both versions the same way; Q-Block is on by default in CMake, given explicitly):
 *   cd /tmp/rp/b16ae85
 *   cmake -G Ninja -S . -B _build -DENABLE_DOCS=OFF -DENABLE_TESTS=OFF \
 *         -DENABLE_EXAMPLES=OFF -DENABLE_Q_BLOCK=ON \
 *         -DCMAKE_BUILD_TYPE=RelWithDebInfo >/dev/null
 *   cmake --build _build --target coap-3
 * Build + run replay:
 *   cc -g -O0 -I_build -Iinclude -I_build/include OUT/replay.c \
 *      _build/libcoap-3.a -lgnutls -lpthread -ldl -rdynamic \
 *      -Wl,--wrap=malloc -o OUT/replay
 *   OUT/replay ; echo "exit=$?"
 * (or simply: sh OUT/replay.sh   which does both versions)
 */
#define _GNU_SOURCE
#include <coap3/coap.h>

#include <dlfcn.h>
#include <execinfo.h>
#include <signal.h>
#include <stdio.h>
#include <stdlib.h>
#include <string.h>
#include <sys/types.h>
#include <sys/wait.h>
#include <unistd.h>

#define PORT 45683
#define BODY_LEN 4096

/* ------------------------------------------------------------------ */
/* allocation fault injection                                          */
/* ------------------------------------------------------------------ */
void *__real_malloc(size_t n);

static volatile int armed;          /* set by the client just before coap_send() */
static volatile int in_wrap;        /* recursion guard */
static volatile int injected;       /* number of failures injected */

static int
stack_matches(void) {
  void *frames[32];
  int n = backtrace(frames, 32);
  int i, dup = 0, qb = 0;

  for (i = 0; i < n; i++) {
    Dl_info info;

    if (dladdr(frames[i], &info) && info.dli_sname) {
      if (strcmp(info.dli_sname, "coap_pdu_duplicate_lkd") == 0)
        dup = 1;
      else if (strcmp(info.dli_sname, "coap_send_q_blocks") == 0)
        qb = 1;
    }
  }
  return dup && qb;
}

void *
__wrap_malloc(size_t n) {
  if (armed && !in_wrap && !injected) {
    int hit;

    in_wrap = 1;
    hit = stack_matches();
    in_wrap = 0;
    if (hit) {
      injected++;
      fprintf(stderr, "[inject] malloc(%zu) called from coap_send_q_blocks() -> "
              "coap_pdu_duplicate_lkd() returns NULL\n", n);
      return NULL;
    }
  }
  return __real_malloc(n);
}

/* ------------------------------------------------------------------ */
/* server (child process)                                              */
/* ------------------------------------------------------------------ */
static void
hnd_put(coap_resource_t *resource, coap_session_t *session,
        const coap_pdu_t *request, const coap_string_t *query,
        coap_pdu_t *response) {
  size_t len = 0, off = 0, total = 0;
  const uint8_t *data = NULL;

  (void)resource;
  (void)session;
  (void)query;
  coap_get_data_large(request, &len, &data, &off, &total);
  fprintf(stderr, "[server] PUT body received: len=%zu total=%zu\n", len, total);
  coap_pdu_set_code(response, COAP_RESPONSE_CODE_CHANGED);
}

static int
run_server(int ready_fd) {
  coap_context_t *ctx;
  coap_address_t addr;
  coap_resource_t *r;

  coap_startup();
  ctx = coap_new_context(NULL);
  if (!ctx)
    return 2;
  coap_context_set_block_mode(ctx, COAP_BLOCK_USE_LIBCOAP | COAP_BLOCK_SINGLE_BODY |
                              COAP_BLOCK_TRY_Q_BLOCK);
  coap_address_init(&addr);
  addr.addr.sin.sin_family = AF_INET;
  addr.addr.sin.sin_port = htons(PORT);
  addr.addr.sin.sin_addr.s_addr = htonl(INADDR_LOOPBACK);
  addr.size = sizeof(struct sockaddr_in);
  if (!coap_new_endpoint(ctx, &addr, COAP_PROTO_UDP)) {
    fprintf(stderr, "[server] cannot bind\n");
    return 2;
  }
  /* long name so that .well-known/core is > 16 bytes (Q-Block probe) */
  r = coap_resource_init(coap_make_str_const("large-body-upload-resource"), 0);
  coap_register_request_handler(r, COAP_REQUEST_PUT, hnd_put);
  coap_add_resource(ctx, r);
  if (write(ready_fd, "r", 1) != 1)
    return 2;
  for (;;)
    coap_io_process(ctx, 500);
  return 0;
}

/* ------------------------------------------------------------------ */
/* client (parent process)                                             */
/* ------------------------------------------------------------------ */
static int got_response;
static coap_pdu_code_t resp_code;

static coap_response_t
hnd_response(coap_session_t *session, const coap_pdu_t *sent,
             const coap_pdu_t *received, const coap_mid_t mid) {
  (void)session;
  (void)sent;
  (void)mid;
  resp_code = coap_pdu_get_code(received);
  got_response = 1;
  return COAP_RESPONSE_OK;
}

static pid_t server_pid;

static void
kill_server(void) {
  if (server_pid > 0) {
    kill(server_pid, SIGKILL);
    waitpid(server_pid, NULL, 0);
  }
}

static void
on_segv(int sig) {
  static const char msg[] =
      "[client] SIGSEGV (NULL block_pdu dereferenced in coap_send_q_blocks) - DEFECT REPRODUCED\n";
  (void)sig;
  if (write(2, msg, sizeof(msg) - 1) < 0) {}
  if (server_pid > 0)
    kill(server_pid, SIGKILL);
  _exit(139);
}

int
main(void) {
  int pfd[2];
  char c;
  coap_context_t *ctx;
  coap_session_t *session;
  coap_address_t dst;
  coap_pdu_t *pdu;
  coap_mid_t mid;
  uint8_t token[8];
  size_t tlen;
  static uint8_t body[BODY_LEN];
  void *warm[4];
  int i;

  /* make backtrace() do its one-time lazy initialisation now */
  backtrace(warm, 4);

  if (pipe(pfd) < 0)
    return 2;
  server_pid = fork();
  if (server_pid < 0)
    return 2;
  if (server_pid == 0) {
    close(pfd[0]);
    _exit(run_server(pfd[1]));
  }
  close(pfd[1]);
  atexit(kill_server);
  if (read(pfd[0], &c, 1) != 1) {
    fprintf(stderr, "server did not start\n");
    return 2;
  }
  signal(SIGSEGV, on_segv);

  coap_startup();
  if (getenv("REPLAY_DEBUG"))
    coap_set_log_level(COAP_LOG_DEBUG);
  ctx = coap_new_context(NULL);
  if (!ctx)
    return 2;
  coap_context_set_block_mode(ctx, COAP_BLOCK_USE_LIBCOAP | COAP_BLOCK_SINGLE_BODY |
                              COAP_BLOCK_TRY_Q_BLOCK);
  coap_register_response_handler(ctx, hnd_response);

  coap_address_init(&dst);
  dst.addr.sin.sin_family = AF_INET;
  dst.addr.sin.sin_port = htons(PORT);
  dst.addr.sin.sin_addr.s_addr = htonl(INADDR_LOOPBACK);
  dst.size = sizeof(struct sockaddr_in);
  session = coap_new_client_session(ctx, NULL, &dst, COAP_PROTO_UDP);
  if (!session)
    return 2;

  for (i = 0; i < BODY_LEN; i++)
    body[i] = (uint8_t)('a' + i % 26);

  pdu = coap_new_pdu(COAP_MESSAGE_NON, COAP_REQUEST_CODE_PUT, session);
  if (!pdu)
    return 2;
  coap_session_new_token(session, &tlen, token);
  coap_add_token(pdu, tlen, token);
  coap_add_option(pdu, COAP_OPTION_URI_PATH, 26,
                  (const uint8_t *)"large-body-upload-resource");
  if (!coap_add_data_large_request(session, pdu, BODY_LEN, body, NULL, NULL)) {
    fprintf(stderr, "coap_add_data_large_request failed\n");
    return 2;
  }

  armed = 1;                       /* one transient malloc failure from here */
  mid = coap_send(session, pdu);   /* parent commit: SIGSEGV in here */
  armed = 0;
  fprintf(stderr, "[client] coap_send() returned mid=%d, failures injected=%d\n",
          mid, injected);
  if (!injected) {
    fprintf(stderr, "[client] fault was never injected - scenario did not reach "
            "coap_send_q_blocks()\n");
    return 3;
  }

  /* let the Q-Block timers push the remaining blocks and collect the answer */
  for (i = 0; i < 100 && !got_response; i++)
    coap_io_process(ctx, 200);

  if (!got_response) {
    fprintf(stderr, "[client] no response within 20s\n");
    return 4;
  }
  fprintf(stderr, "[client] response %d.%02d\n", resp_code >> 5, resp_code & 0x1f);
  coap_session_release(session);
  coap_free_context(ctx);
  coap_cleanup();
  if (resp_code != COAP_RESPONSE_CODE_CHANGED)
    return 5;
  printf("OK\n");
  return 0;
}
