#!/bin/sh
# Builds libcoap (Q-Block enabled) at b16ae85^ and at b16ae85, runs OUT/replay.c
# against each, then leaves the worktree at the parent commit.
# Expected: parent -> exit 139 (SIGSEGV in coap_send_q_blocks), fix -> "OK", exit 0.
W=/tmp/rp/b16ae85
cd "$W" || exit 2
cmake -G Ninja -S . -B _build -DENABLE_DOCS=OFF -DENABLE_TESTS=OFF -DENABLE_EXAMPLES=OFF \
      -DENABLE_Q_BLOCK=ON -DCMAKE_BUILD_TYPE=RelWithDebInfo >/dev/null || exit 2
for rev in 'b16ae85^' b16ae85; do
  git checkout -q --detach "$rev" || exit 2
  cmake --build _build --target coap-3 >/dev/null || exit 2
  cc -g -O0 -I_build -Iinclude -I_build/include OUT/replay.c _build/libcoap-3.a \
     -lgnutls -lpthread -ldl -rdynamic -Wl,--wrap=malloc -o OUT/replay || exit 2
  echo "=== $rev ==="
  timeout 60 OUT/replay
  echo "exit=$?"
done
git checkout -q --detach 'b16ae85^'
cmake --build _build --target coap-3 >/dev/null
