/*
 * replay.c - OSCORE: a received Confirmable whose (outer) message id equals the
 *            message id of our own outstanding Confirmable takes that Confirmable
 *            out of context->sendqueue (coap_dispatch(), OSCORE branch, before
 *            coap_oscore_decrypt_pdu()) and deletes it at cleanup: without
 *            lowering session->con_active.  With NSTART = 1 (default) every
 *            later Confirmable on the session is parked in session->delayqueue
 *            and never transmitted.
 *
 * Build (library, offline):
 *   cd /tmp/rp/c08kf && cmake -G Ninja -S . -B _build -DENABLE_DOCS=OFF -DENABLE_TESTS=OFF \
 *       -DENABLE_EXAMPLES=OFF -DCMAKE_BUILD_TYPE=RelWithDebInfo >/dev/null && \
 *       cmake --build _build --target coap-3
 * Build (replay):
 *   cd /tmp/rp/c08kf && cc -g -O0 -Wall -Wno-deprecated-declarations -I_build -Iinclude \
 *       -I_build/include -o OUT/replay OUT/replay.c _build/libcoap-3.a -lgnutls -lpthread
 * Run (each mode is one complete, independent history):
 *   OUT/replay                  scenario REQ : the colliding Confirmable is a *request* from B;
 *                               B sets the MID itself with coap_pdu_set_mid()
 *   OUT/replay mitm             scenario REQ, but B uses its natural MID and the relay (which has
 *                               no keys) rewrites the 2 outer MID bytes (not protected by OSCORE)
 *   OUT/replay control          scenario REQ, same history, but no MID collision
 *   OUT/replay sepresp          scenario RESP: A is used as a plain client only; the colliding
 *                               Confirmable is B's *separate CON response* (libcoap sends every
 *                               OSCORE 2.xx response to a CON request as empty ACK + CON), its
 *                               outer MID is rewritten by the relay to collide
 *   OUT/replay sepresp control  scenario RESP, same history, but no MID collision
 *   (append -v for libcoap debug/OSCORE logging; append obs=N to watch N seconds instead of 12
 *    after the last request, e.g. obs=100 > MAX_TRANSMIT_WAIT of 93 s)
 * Exit status: 1 = defect observed, 0 = not observed, 2 = the replay failed to set itself up.
 *
 * Topology (one process, one thread, real UDP sockets on 127.0.0.1):
 *
 *   libcoap context A  <--UDP-->  relay (RA | RB)  <--UDP-->  libcoap context B
 *   - A: OSCORE *client* session to the relay (coap_new_client_session_oscore()); it also
 *        serves resource /a (only used in scenario REQ).
 *   - B: OSCORE *server* endpoint (coap_context_oscore_server()), serves /b; in scenario REQ it
 *        also sends requests for /a back to A over its server-side session (same 5-tuple).
 *   - relay: forwards datagrams unchanged and logs them; it can lose A->B datagrams, hold back
 *        a B->A datagram for a moment, and (mitm / sepresp) rewrite the 2 MID bytes.
 *   Both contexts use the library defaults (NSTART 1, OSCORE conf defaults incl. rfc8613_b_1_2)
 *   plus COAP_BLOCK_USE_LIBCOAP (as coap-client / coap-server do; libcoap needs it to answer the
 *   Appendix B.1.2 Echo challenge by itself).
 *
 * The internal header is used to OBSERVE state only (con_active, sendqueue, delayqueue).
 * The library source is not modified.
 */
#include "coap3/coap_libcoap_build.h"

#include <stdio.h>
#include <stdlib.h>
#include <string.h>
#include <unistd.h>
#include <errno.h>
#include <fcntl.h>
#include <pthread.h>
#include <time.h>
#include <sys/socket.h>
#include <netinet/in.h>
#include <arpa/inet.h>

/* ------------------------------------------------------------------ relay */
static int ra_fd = -1, rb_fd = -1;          /* A facing / B facing */
static struct sockaddr_in a_addr;           /* learnt from first datagram from A */
static int a_addr_known;
static struct sockaddr_in b_addr;           /* B's endpoint */
static int drop_a2b;                        /* lose everything A -> B */
static unsigned a2b_seen, a2b_con_seen, b2a_seen;
static uint16_t last_a2b_con_mid;
/* MID rewriting (needs no keys: the outer MID is not covered by OSCORE) */
static int mitm_armed;                      /* rewrite MID of next B->A CON */
static uint16_t mitm_new_mid, mitm_old_mid;
static int mitm_back;                       /* restore the MID in A's ACK */
/* holding back one B->A CON datagram (models a late datagram) */
static int hold_b2a_con;
static uint8_t held[2048];
static ssize_t held_len;

static const char *tname[] = { "CON", "NON", "ACK", "RST" };

#define DG_TYPE(b) (((b)[0] >> 4) & 3)
#define DG_MID(b)  ((uint16_t)((b)[2] << 8 | (b)[3]))

static int
udp_bound(struct sockaddr_in *out) {
  int fd = socket(AF_INET, SOCK_DGRAM, 0);
  struct sockaddr_in sa;
  socklen_t sl = sizeof(sa);

  memset(&sa, 0, sizeof(sa));
  sa.sin_family = AF_INET;
  sa.sin_addr.s_addr = htonl(INADDR_LOOPBACK);
  sa.sin_port = 0;
  if (fd < 0 || bind(fd, (struct sockaddr *)&sa, sizeof(sa)) < 0) {
    perror("socket/bind");
    exit(2);
  }
  getsockname(fd, (struct sockaddr *)&sa, &sl);
  fcntl(fd, F_SETFL, fcntl(fd, F_GETFL, 0) | O_NONBLOCK);
  *out = sa;
  return fd;
}

static void
show_dgram(const char *dir, const uint8_t *b, ssize_t n, const char *what) {
  if (n < 4) {
    printf("    [relay] %s short datagram (%zd bytes) %s\n", dir, n, what);
    return;
  }
  printf("    [relay] %s %s code=%u.%02u mid=0x%04x len=%zd %s\n", dir,
         tname[DG_TYPE(b)], b[1] >> 5, b[1] & 0x1f, DG_MID(b), n, what);
}

static void
b2a_deliver(uint8_t *buf, ssize_t n) {
  if (mitm_armed && n >= 4 && DG_TYPE(buf) == COAP_MESSAGE_CON) {
    mitm_old_mid = DG_MID(buf);
    buf[2] = mitm_new_mid >> 8;
    buf[3] = mitm_new_mid & 0xff;
    mitm_armed = 0;
    mitm_back = 1;
    printf("    [relay] rewriting outer MID 0x%04x -> 0x%04x (2 header bytes, no keys needed)\n",
           mitm_old_mid, mitm_new_mid);
  }
  show_dgram("B->A", buf, n, "forwarded");
  sendto(ra_fd, buf, n, 0, (struct sockaddr *)&a_addr, sizeof(a_addr));
}

static void
relay_release_held(void) {
  if (held_len > 0) {
    printf("    [relay] releasing the held B->A datagram\n");
    hold_b2a_con = 0;
    b2a_deliver(held, held_len);
    held_len = 0;
  }
}

static void
relay_pump(void) {
  uint8_t buf[2048];
  ssize_t n;
  struct sockaddr_in from;
  socklen_t fl;

  for (;;) {
    fl = sizeof(from);
    n = recvfrom(ra_fd, buf, sizeof(buf), 0, (struct sockaddr *)&from, &fl);
    if (n < 0)
      break;
    a_addr = from;
    a_addr_known = 1;
    a2b_seen++;
    if (n >= 4 && DG_TYPE(buf) == COAP_MESSAGE_CON) {
      a2b_con_seen++;
      last_a2b_con_mid = DG_MID(buf);
    }
    if (drop_a2b) {
      show_dgram("A->B", buf, n, "LOST on the path");
      continue;
    }
    if (mitm_back && n >= 4 && DG_TYPE(buf) == COAP_MESSAGE_ACK && DG_MID(buf) == mitm_new_mid) {
      buf[2] = mitm_old_mid >> 8;
      buf[3] = mitm_old_mid & 0xff;
      mitm_back = 0;
      show_dgram("A->B", buf, n, "forwarded (relay restored the MID)");
    } else {
      show_dgram("A->B", buf, n, "forwarded");
    }
    sendto(rb_fd, buf, n, 0, (struct sockaddr *)&b_addr, sizeof(b_addr));
  }
  for (;;) {
    fl = sizeof(from);
    n = recvfrom(rb_fd, buf, sizeof(buf), 0, (struct sockaddr *)&from, &fl);
    if (n < 0)
      break;
    b2a_seen++;
    if (!a_addr_known) {
      show_dgram("B->A", buf, n, "dropped (A unknown)");
      continue;
    }
    if (hold_b2a_con && n >= 4 && DG_TYPE(buf) == COAP_MESSAGE_CON) {
      if (held_len == 0) {
        memcpy(held, buf, n);
        held_len = n;
        show_dgram("B->A", buf, n, "HELD BACK (late datagram)");
      } else {
        show_dgram("B->A", buf, n, "dropped (retransmission while holding)");
      }
      continue;
    }
    b2a_deliver(buf, n);
  }
}

/* ------------------------------------------------------------- endpoints */
static coap_context_t *ctx_a, *ctx_b;
static coap_session_t *sess_a;      /* A's client session */
static coap_session_t *sess_b;      /* B's server-side session for A (referenced) */

static unsigned a_resp_cnt, a_nack_cnt, a_req_served;
static unsigned b_resp_cnt, b_nack_cnt, b_req_served;
static coap_pdu_code_t a_last_code, b_last_code;

static void
show_tok(const char *who, const coap_pdu_t *rcvd, coap_mid_t mid) {
  coap_bin_const_t t = coap_pdu_get_token(rcvd);
  coap_pdu_code_t c = coap_pdu_get_code(rcvd);

  printf("    [%s app] response %u.%02u token=%02x (mid 0x%04x)\n", who, c >> 5, c & 0x1f,
         t.length ? t.s[0] : 0, (unsigned)mid & 0xffff);
}

static coap_response_t
a_resp(coap_session_t *s, const coap_pdu_t *sent, const coap_pdu_t *rcvd, const coap_mid_t mid) {
  (void)s;
  (void)sent;
  a_resp_cnt++;
  a_last_code = coap_pdu_get_code(rcvd);
  show_tok("A", rcvd, mid);
  return COAP_RESPONSE_OK;
}
static void
a_nack(coap_session_t *s, const coap_pdu_t *sent, const coap_nack_reason_t r, const coap_mid_t mid) {
  (void)s;
  (void)sent;
  a_nack_cnt++;
  printf("    [A app] NACK reason %d (mid 0x%04x)\n", (int)r, (unsigned)mid & 0xffff);
}
static coap_response_t
b_resp(coap_session_t *s, const coap_pdu_t *sent, const coap_pdu_t *rcvd, const coap_mid_t mid) {
  (void)s;
  (void)sent;
  b_resp_cnt++;
  b_last_code = coap_pdu_get_code(rcvd);
  show_tok("B", rcvd, mid);
  return COAP_RESPONSE_OK;
}
static void
b_nack(coap_session_t *s, const coap_pdu_t *sent, const coap_nack_reason_t r, const coap_mid_t mid) {
  (void)s;
  (void)sent;
  b_nack_cnt++;
  printf("    [B app] NACK reason %d (mid 0x%04x)\n", (int)r, (unsigned)mid & 0xffff);
}

static void
hnd_a(coap_resource_t *r, coap_session_t *s, const coap_pdu_t *req, const coap_string_t *q,
      coap_pdu_t *resp) {
  (void)r;
  (void)s;
  (void)q;
  a_req_served++;
  printf("    [A app] serving GET /a (request mid 0x%04x)\n", (unsigned)coap_pdu_get_mid(req));
  coap_pdu_set_code(resp, COAP_RESPONSE_CODE_CONTENT);
  coap_add_data(resp, 6, (const uint8_t *)"from-A");
}
static void
hnd_b(coap_resource_t *r, coap_session_t *s, const coap_pdu_t *req, const coap_string_t *q,
      coap_pdu_t *resp) {
  (void)r;
  (void)q;
  b_req_served++;
  if (!sess_b)
    sess_b = coap_session_reference(s);
  printf("    [B app] serving GET /b (request mid 0x%04x)\n", (unsigned)coap_pdu_get_mid(req));
  coap_pdu_set_code(resp, COAP_RESPONSE_CODE_CONTENT);
  coap_add_data(resp, 6, (const uint8_t *)"from-B");
}

static coap_oscore_conf_t *
mk_conf(const char *sender, const char *recipient) {
  char txt[512];
  coap_str_const_t mem;

  /* Everything else is the library default (AES-CCM-16-64-128, replay window 32,
   * rfc8613_b_1_2 = true i.e. Echo challenge on first use of a recipient context). */
  snprintf(txt, sizeof(txt),
           "master_secret,hex,\"0102030405060708090a0b0c0d0e0f10\"\n"
           "master_salt,hex,\"9e7ca92223786340\"\n"
           "sender_id,ascii,\"%s\"\n"
           "recipient_id,ascii,\"%s\"\n", sender, recipient);
  mem.s = (const uint8_t *)txt;
  mem.length = strlen(txt);
  return coap_new_oscore_conf(mem, NULL, NULL, 0);
}

static void
pump(unsigned ms, int run_b) {
  unsigned i;

  for (i = 0; i < ms / 10 + 1; i++) {
    coap_io_process(ctx_a, 5);
    relay_pump();
    if (run_b) {
      coap_io_process(ctx_b, 5);
      relay_pump();
    } else {
      usleep(5000);
    }
  }
}

/* pump until *cnt reaches want or timeout */
static int
pump_until(unsigned *cnt, unsigned want, unsigned max_ms) {
  unsigned t;

  for (t = 0; t < max_ms && *cnt < want; t += 10)
    pump(10, 1);
  return *cnt >= want;
}

static coap_mid_t
send_get(coap_session_t *s, const char *path, uint8_t tok, int force_mid, coap_mid_t mid_forced) {
  coap_pdu_t *pdu = coap_new_pdu(COAP_MESSAGE_CON, COAP_REQUEST_CODE_GET, s);

  if (!pdu)
    return COAP_INVALID_MID;
  coap_add_token(pdu, 1, &tok);
  coap_add_option(pdu, COAP_OPTION_URI_PATH, strlen(path), (const uint8_t *)path);
  if (force_mid)
    coap_pdu_set_mid(pdu, mid_forced);
  return coap_send(s, pdu);
}

/*
 * coap_send() on A may block for up to 5 s inside the library (coap_client_delay_first():
 * an OSCORE client whose recipient context is still in "initial_state" - it has never
 * received a *request* - waits for the response to its previous request before it lets
 * the next one out).  While the main thread sits in there, keep the relay and B alive
 * from a helper thread so that the wire timeline stays honest.  ctx_a is only touched by
 * the main thread, ctx_b / relay only by the helper while it runs.
 */
static volatile int bg_run;
static void *
bg_thread(void *arg) {
  (void)arg;
  while (bg_run) {
    relay_pump();
    coap_io_process(ctx_b, 5);
    relay_pump();
  }
  return NULL;
}
static coap_mid_t
a_send_get_bg(const char *path, uint8_t tok) {
  pthread_t th;
  struct timespec t0, t1;
  coap_mid_t mid;

  clock_gettime(CLOCK_MONOTONIC, &t0);
  bg_run = 1;
  pthread_create(&th, NULL, bg_thread, NULL);
  mid = send_get(sess_a, path, tok, 0, 0);
  bg_run = 0;
  pthread_join(th, NULL);
  clock_gettime(CLOCK_MONOTONIC, &t1);
  printf("        (A's coap_send() returned after %ld ms)\n",
         (long)((t1.tv_sec - t0.tv_sec) * 1000 + (t1.tv_nsec - t0.tv_nsec) / 1000000));
  return mid;
}

/* ----------------------------------------------------- state observation */
static unsigned
sendq_len_for(coap_context_t *c, coap_session_t *s, char *ids, size_t idl) {
  coap_queue_t *q;
  unsigned n = 0;
  size_t o = 0;

  ids[0] = 0;
  for (q = c->sendqueue; q; q = q->next) {
    if (q->session == s) {
      n++;
      o += snprintf(ids + o, o < idl ? idl - o : 0, " 0x%04x", (unsigned)q->id & 0xffff);
    }
  }
  return n;
}
static unsigned
delayq_len(coap_session_t *s, char *ids, size_t idl) {
  coap_queue_t *q;
  unsigned n = 0;
  size_t o = 0;

  ids[0] = 0;
  for (q = s->delayqueue; q; q = q->next) {
    n++;
    o += snprintf(ids + o, o < idl ? idl - o : 0, " 0x%04x(%s)", (unsigned)q->id & 0xffff,
                  tname[q->pdu->type & 3]);
  }
  return n;
}
static void
show_a(const char *when, unsigned *con_active, unsigned *sq, unsigned *dq) {
  char i1[128], i2[128];

  *sq = sendq_len_for(ctx_a, sess_a, i1, sizeof(i1));
  *dq = delayq_len(sess_a, i2, sizeof(i2));
  *con_active = sess_a->con_active;
  printf("  STATE A %-32s con_active=%u  sendqueue(A's session)=%u [%s ]  delayqueue=%u [%s ]\n",
         when, *con_active, *sq, i1, *dq, i2);
}

/* final verdict, common to both scenarios */
static int
verdict(unsigned con_before, unsigned resp_before, coap_mid_t lost_mid, coap_mid_t last_mid) {
  unsigned ca, sq, dq;
  int defect;

  show_a("end of observation:", &ca, &sq, &dq);
  printf("  WIRE    CON datagrams A->B since the last request was submitted: %u\n",
         a2b_con_seen - con_before);
  printf("  APP A   responses since the last request was submitted: %u ; NACK callbacks ever: %u\n",
         a_resp_cnt - resp_before, a_nack_cnt);
  defect = (ca >= 1 && sq == 0 && dq >= 1 && a2b_con_seen == con_before);
  if (defect) {
    printf("RESULT: DEFECT OBSERVED - con_active=%u although A's sendqueue holds nothing for the "
           "session; the last request (mid 0x%04x) sits in delayqueue and never reached the wire; "
           "the outstanding request (mid 0x%04x) vanished without retransmission and without "
           "NACK.\n", ca, (unsigned)last_mid & 0xffff, (unsigned)lost_mid & 0xffff);
  } else {
    printf("RESULT: defect not observed (con_active=%u sendqueue=%u delayqueue=%u, "
           "CONs on the wire=%u, responses=%u)\n",
           ca, sq, dq, a2b_con_seen - con_before, a_resp_cnt - resp_before);
  }
  return defect;
}

/* ===== scenario REQ: colliding Confirmable is a request from B ========== */
static int
scenario_req(int control, int mitm, unsigned observe_ms) {
  coap_mid_t mid1, mid2, midb;
  unsigned ca, sq, dq, con_before, resp_before;

  printf("step 2: B sends CON GET /a to A on the same 5-tuple (warm-up: A's Echo challenge of B, "
         "completes normally)\n");
  send_get(sess_b, "a", 0xb0, 0, 0);
  if (!pump_until(&b_resp_cnt, 1, 5000) || b_last_code != COAP_RESPONSE_CODE_CONTENT) {
    fprintf(stderr, "setup: B's warm-up request did not complete\n");
    return 2;
  }
  pump(100, 1);
  show_a("after warm-up (idle):", &ca, &sq, &dq);
  if (ca != 0 || sq != 0 || dq != 0) {
    fprintf(stderr, "setup: A not idle\n");
    return 2;
  }

  printf("step 3: A sends CON GET /b (request #1); this datagram is lost on the path\n");
  drop_a2b = 1;
  mid1 = send_get(sess_a, "b", 0xa1, 0, 0);
  pump(50, 0);
  drop_a2b = 0;  /* the path is fine again from here on */
  printf("        request #1 has mid 0x%04x\n", (unsigned)mid1 & 0xffff);
  show_a("request #1 in flight:", &ca, &sq, &dq);
  if (mid1 == COAP_INVALID_MID || ca != 1 || sq != 1) {
    fprintf(stderr, "setup: request #1 not in flight as expected\n");
    return 2;
  }

  if (control) {
    printf("step 4: B sends CON GET /a with its own, different MID (control)\n");
    midb = send_get(sess_b, "a", 0xb1, 0, 0);
  } else if (mitm) {
    printf("step 4: B sends CON GET /a with its own MID; the relay rewrites the outer MID "
           "to 0x%04x\n", (unsigned)mid1 & 0xffff);
    mitm_new_mid = (uint16_t)mid1;
    mitm_armed = 1;
    midb = send_get(sess_b, "a", 0xb1, 0, 0);
  } else {
    printf("step 4: B sends CON GET /a whose MID happens to be 0x%04x as well\n",
           (unsigned)mid1 & 0xffff);
    midb = send_get(sess_b, "a", 0xb1, 1, mid1);
  }
  printf("        B's request left B with mid 0x%04x\n", (unsigned)midb & 0xffff);
  pump_until(&a_req_served, 2, 2000);
  pump(300, 1);
  if (a_req_served != 2) {
    fprintf(stderr, "setup: A did not serve B's request (a_req_served=%u)\n", a_req_served);
    return 2;
  }
  show_a("after serving B's CON request:", &ca, &sq, &dq);
  printf("        B has %sreceived the response to this request so far\n",
         b_resp_cnt >= 2 ? "" : "NOT ");

  printf("step 5: A sends CON GET /b (request #2); the path is healthy; observing %u ms\n",
         observe_ms);
  con_before = a2b_con_seen;
  resp_before = a_resp_cnt;
  mid2 = send_get(sess_a, "b", 0xa2, 0, 0);
  printf("        request #2 has mid 0x%04x\n", (unsigned)mid2 & 0xffff);
  pump(observe_ms, 1);
  printf("        B has %sreceived the response to its step-4 request\n",
         b_resp_cnt >= 2 ? "" : "NOT ");
  return verdict(con_before, resp_before, mid1, mid2);
}

/* ===== scenario RESP: colliding Confirmable is B's separate CON response = */
static int
scenario_resp(int control, unsigned observe_ms) {
  coap_mid_t mid1, mid2, mid3;
  unsigned ca, sq, dq, con_before, resp_before, r0;

  show_a("after request #0 (idle):", &ca, &sq, &dq);

  printf("step 2: A sends CON GET /b (request #1, token a1). B answers empty ACK + separate CON "
         "2.05; the CON response is late (held in the relay)\n");
  hold_b2a_con = 1;
  r0 = a_resp_cnt;
  mid1 = a_send_get_bg("b", 0xa1);
  {
    unsigned t;
    for (t = 0; t < 2000 && held_len == 0; t += 10)
      pump(10, 1);
  }
  pump(50, 1);
  printf("        request #1 has mid 0x%04x\n", (unsigned)mid1 & 0xffff);
  show_a("request #1 ACKed, response late:", &ca, &sq, &dq);
  if (held_len == 0 || ca != 0 || sq != 0 || a_resp_cnt != r0) {
    fprintf(stderr, "setup: expected empty ACK received and CON response held\n");
    return 2;
  }

  printf("step 3: A sends CON GET /b (request #2, token a2) - allowed, nothing is in flight; "
         "this datagram is lost on the path\n"
         "        (the library first makes the application wait up to 5 s for the missing "
         "response to #1)\n");
  drop_a2b = 1;
  mid2 = a_send_get_bg("b", 0xa2);
  pump(50, 0);
  drop_a2b = 0;
  printf("        request #2 has mid 0x%04x\n", (unsigned)mid2 & 0xffff);
  show_a("request #2 in flight:", &ca, &sq, &dq);
  if (mid2 == COAP_INVALID_MID || ca != 1 || sq != 1) {
    fprintf(stderr, "setup: request #2 not in flight as expected\n");
    return 2;
  }

  if (control) {
    printf("step 4: the late CON response to request #1 arrives, MID untouched (control)\n");
  } else {
    printf("step 4: the late CON response to request #1 arrives; its outer MID equals 0x%04x "
           "(rewritten by the relay)\n", (unsigned)mid2 & 0xffff);
    mitm_new_mid = (uint16_t)mid2;
    mitm_armed = 1;
  }
  relay_release_held();
  pump_until(&a_resp_cnt, r0 + 1, 2000);
  pump(200, 1);
  if (a_resp_cnt != r0 + 1) {
    fprintf(stderr, "setup: A's application did not get the response to request #1\n");
    return 2;
  }
  show_a("after the late CON response:", &ca, &sq, &dq);

  printf("step 5: A sends CON GET /b (request #3, token a3); the path is healthy; "
         "observing %u ms\n", observe_ms);
  con_before = a2b_con_seen;
  resp_before = a_resp_cnt;
  mid3 = a_send_get_bg("b", 0xa3);
  printf("        request #3 has mid 0x%04x\n", (unsigned)mid3 & 0xffff);
  pump(observe_ms, 1);
  return verdict(con_before, resp_before, mid2, mid3);
}

int
main(int argc, char **argv) {
  struct sockaddr_in ra_sa, rb_sa;
  coap_address_t addr;
  coap_resource_t *res;
  int control = 0, mitm = 0, sepresp = 0, verbose = 0, i, rc;
  unsigned observe_ms = 12000;

  for (i = 1; i < argc; i++) {
    if (!strcmp(argv[i], "control"))
      control = 1;
    else if (!strcmp(argv[i], "mitm"))
      mitm = 1;
    else if (!strcmp(argv[i], "sepresp"))
      sepresp = 1;
    else if (!strcmp(argv[i], "-v"))
      verbose = 1;
    else if (!strncmp(argv[i], "obs=", 4))
      observe_ms = 1000u * (unsigned)atoi(argv[i] + 4);
  }
  setvbuf(stdout, NULL, _IOLBF, 0);
  coap_startup();
  coap_set_log_level(verbose ? COAP_LOG_OSCORE : COAP_LOG_WARN);

  ra_fd = udp_bound(&ra_sa);
  rb_fd = udp_bound(&rb_sa);

  /* ---- B: OSCORE server with /b */
  ctx_b = coap_new_context(NULL);
  coap_context_set_block_mode(ctx_b, COAP_BLOCK_USE_LIBCOAP);
  {
    /* pick a free port for B's endpoint */
    struct sockaddr_in tmp;
    int fd = udp_bound(&tmp);
    close(fd);
    b_addr = tmp;
  }
  coap_address_init(&addr);
  addr.size = sizeof(struct sockaddr_in);
  memcpy(&addr.addr.sin, &b_addr, sizeof(b_addr));
  if (!coap_new_endpoint(ctx_b, &addr, COAP_PROTO_UDP)) {
    fprintf(stderr, "B endpoint failed\n");
    return 2;
  }
  if (!coap_context_oscore_server(ctx_b, mk_conf("server", "client"))) {
    fprintf(stderr, "B oscore failed\n");
    return 2;
  }
  res = coap_resource_init(coap_make_str_const("b"), 0);
  coap_register_request_handler(res, COAP_REQUEST_GET, hnd_b);
  coap_add_resource(ctx_b, res);
  coap_register_response_handler(ctx_b, b_resp);
  coap_register_nack_handler(ctx_b, b_nack);

  /* ---- A: OSCORE client of B (via relay), also serves /a */
  ctx_a = coap_new_context(NULL);
  coap_context_set_block_mode(ctx_a, COAP_BLOCK_USE_LIBCOAP);
  res = coap_resource_init(coap_make_str_const("a"), 0);
  coap_register_request_handler(res, COAP_REQUEST_GET, hnd_a);
  coap_add_resource(ctx_a, res);
  coap_register_response_handler(ctx_a, a_resp);
  coap_register_nack_handler(ctx_a, a_nack);
  coap_address_init(&addr);
  addr.size = sizeof(struct sockaddr_in);
  memcpy(&addr.addr.sin, &ra_sa, sizeof(ra_sa));
  sess_a = coap_new_client_session_oscore(ctx_a, NULL, &addr, COAP_PROTO_UDP,
                                          mk_conf("client", "server"));
  if (!sess_a) {
    fprintf(stderr, "A session failed\n");
    return 2;
  }
  printf("mode: scenario %s%s%s   NSTART(A's session) = %u (library default)\n",
         sepresp ? "RESP (colliding CON is B's separate response)" :
         "REQ (colliding CON is a request from B)",
         control ? ", CONTROL (no MID collision)" : "",
         (mitm && !sepresp) ? ", relay rewrites the MID" : "",
         (unsigned)COAP_NSTART(sess_a));

  printf("step 1: A sends CON GET /b (request #0); normal OSCORE exchange incl. B's Echo "
         "challenge (Appendix B.1.2)\n");
  send_get(sess_a, "b", 0xa0, 0, 0);
  if (!pump_until(&a_resp_cnt, 1, 5000) || a_last_code != COAP_RESPONSE_CODE_CONTENT || !sess_b) {
    fprintf(stderr, "setup: request #0 did not complete\n");
    return 2;
  }
  pump(100, 1);

  if (sepresp)
    rc = scenario_resp(control, observe_ms);
  else
    rc = scenario_req(control, mitm, observe_ms);

  printf("teardown (freeing the contexts; anything still queued is NACKed now):\n");
  coap_session_release(sess_b);
  coap_session_release(sess_a);
  coap_free_context(ctx_a);
  coap_free_context(ctx_b);
  coap_cleanup();
  return rc;
}
