/*
 * C12 ("nothing was freed twice"): oscore_add_recipient() takes over the recipient id it is given when it succeeds.  When it fails it
 * leaves the id to the caller on three of its four failure paths (id too long, allocation failure, key derivation failure) but deletes
 * it on the fourth (the id is already present).  Its callers treat failure uniformly: oscore_derive_ctx() leaves everything it took from
 * the configuration to the configuration, and coap_oscore_init() then frees the configuration -- including the id that
 * oscore_add_recipient() already deleted.  A configuration with the same recipient_id twice is enough:
 *
 * build: cc -Wno-deprecated-declarations -I/repo/_build -I/repo/include -I/repo/_build/include replays/r19.c /repo/_build/libcoap-3.a -lgnutls -lpthread -o /tmp/r19 ; /tmp/r19
 *   before the fix: glibc aborts the child ("free(): double free detected in tcache 2"), "FAIL: child died with signal 6"
 *                   (ASan: attempting double-free, freed in oscore_add_recipient, again in coap_delete_oscore_conf <- coap_oscore_init)
 *   after the fix : the configuration is refused cleanly, "OK"
 */
#include "coap3/coap_libcoap_build.h"

#include <stdio.h>
#include <string.h>
#include <sys/wait.h>
#include <unistd.h>

static const char server_conf[] =
    "master_secret,hex,\"0102030405060708090a0b0c0d0e0f10\"\n"
    "master_salt,hex,\"9e7ca92223786340\"\n"
    "sender_id,ascii,\"server\"\n"
    "recipient_id,ascii,\"client\"\n"
    "recipient_id,ascii,\"client\"\n"
    "replay_window,integer,30\n"
    "aead_alg,integer,10\n"
    "hkdf_alg,integer,-10\n";

int
main(void) {
  pid_t pid = fork();
  int st;

  if (pid == 0) {
    coap_context_t *ctx;
    coap_oscore_conf_t *conf;
    coap_str_const_t conf_mem = { sizeof(server_conf) - 1, (const uint8_t *)server_conf };
    int ok;

    coap_startup();
    coap_set_log_level(COAP_LOG_EMERG);
    ctx = coap_new_context(NULL);
    conf = coap_new_oscore_conf(conf_mem, NULL, NULL, 0);
    ok = conf && coap_context_oscore_server(ctx, conf);
    coap_free_context(ctx);
    coap_cleanup();
    _exit(ok ? 10 : 11);
  }
  waitpid(pid, &st, 0);
  if (WIFSIGNALED(st)) {
    printf("FAIL: child died with signal %d\n", WTERMSIG(st));
    return 1;
  }
  printf("configuration with a duplicated recipient_id %s\nOK\n", WEXITSTATUS(st) == 10 ? "accepted" : "refused cleanly");
  return 0;
}
