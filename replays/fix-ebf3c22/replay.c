/*
 * Replay for ebf3c22: oscore_cs_params()/oscore_cs_key_params() memcpy() into
 * an unchecked coap_malloc_type() result.
 *
 * NOTE: neither function has a caller inside libcoap at this commit (they are
 * left-over group-OSCORE helpers, declared in the internal header
 * include/oscore/oscore.h and exported from libcoap-3.a).  There is therefore
 * no public-API / network route; the replay calls the internal entry points
 * directly with perfectly valid arguments and injects one failing malloc().
 *
 * Build + run (from /tmp/rp/ebf3c22, library already built in _build):
 *   cc -g -I_build -Iinclude -I_build/include OUT/replay.c _build/libcoap-3.a \
 *      -lgnutls -lpthread -Wl,--wrap=malloc -o OUT/replay && OUT/replay; echo "exit=$?"
 *   OUT/replay key; echo "exit=$?"     (exercise only oscore_cs_key_params, since on the
 *                                       parent the first function already crashes)
 *   valgrind -q OUT/replay             (optional: shows the faulting frame memcpy <- oscore_cs_params)
 *
 * Parent (ebf3c22^): "SIGSEGV ... (NULL deref in library)" , exit status 1.
 * Fixed  (ebf3c22) : both functions return NULL, exit status 0.
 */
#include "coap3/coap_libcoap_build.h"
#include <signal.h>
#include <stdio.h>
#include <string.h>
#include <unistd.h>

static volatile int fail_next = 0;
static volatile const char *stage = "init";

void *__real_malloc(size_t n);
void *
__wrap_malloc(size_t n) {
  if (fail_next) {
    fail_next = 0;
    return NULL;
  }
  return __real_malloc(n);
}

static void
on_segv(int sig) {
  char msg[160];
  int n = snprintf(msg, sizeof(msg),
                   "FAIL: SIGSEGV inside %s after malloc() returned NULL (NULL deref in library)\n",
                   (const char *)stage);
  (void)sig;
  if (write(2, msg, (size_t)n) < 0) {}
  _exit(1);
}

int
main(int argc, char **argv) {
  int only_key = argc > 1 && strcmp(argv[1], "key") == 0;
  size_t len = 0;
  uint8_t *r;
  /* [[1],[1,-8]] and [6,1] */
  static const uint8_t exp1[] = { 0x82, 0x81, 0x01, 0x82, 0x01, 0x27 };
  static const uint8_t exp2[] = { 0x82, 0x01, 0x06 };

  signal(SIGSEGV, on_segv);
  coap_startup();

  /* Sanity: normal operation works and yields the documented CBOR. */
  r = oscore_cs_params(COSE_ALGORITHM_EDDSA, COSE_KTY_OKP, &len);
  if (!r || len != sizeof(exp1) || memcmp(r, exp1, len)) {
    fprintf(stderr, "unexpected: sanity oscore_cs_params len=%zu\n", len);
    return 2;
  }
  coap_free_type(COAP_STRING, r);
  r = oscore_cs_key_params(COSE_CURVE_ED25519, COSE_KTY_OKP, &len);
  if (!r || len != sizeof(exp2) || memcmp(r, exp2, len)) {
    fprintf(stderr, "unexpected: sanity oscore_cs_key_params len=%zu\n", len);
    return 2;
  }
  coap_free_type(COAP_STRING, r);

  /* Fault: the one allocation each function makes fails. */
  if (!only_key) {
    stage = "oscore_cs_params()";
    fail_next = 1;
    r = oscore_cs_params(COSE_ALGORITHM_EDDSA, COSE_KTY_OKP, &len);
    if (fail_next) {
      fprintf(stderr, "unexpected: malloc not reached\n");
      return 2;
    }
    if (r) {
      fprintf(stderr, "FAIL: oscore_cs_params returned non-NULL on OOM\n");
      return 1;
    }
    printf("ok: oscore_cs_params returned NULL on allocation failure\n");
  }

  stage = "oscore_cs_key_params()";
  fail_next = 1;
  r = oscore_cs_key_params(COSE_CURVE_ED25519, COSE_KTY_OKP, &len);
  if (fail_next) {
    fprintf(stderr, "unexpected: malloc not reached\n");
    return 2;
  }
  if (r) {
    fprintf(stderr, "FAIL: oscore_cs_key_params returned non-NULL on OOM\n");
    return 1;
  }
  printf("ok: oscore_cs_key_params returned NULL on allocation failure\n");

  coap_cleanup();
  return 0;
}
