/*
 * Replay for commit 5a52676:
 *   coap_handle_request_send_block() leaks the duplicated PDU of an
 *   intermediate Q-Block2 response on its error exit.
 *
 * Scenario (only public API on the server side, only bytes on a UDP socket
 * on the peer side):
 *   - A libcoap server is created with
 *       coap_context_set_block_mode(ctx, COAP_BLOCK_USE_LIBCOAP|COAP_BLOCK_TRY_Q_BLOCK)
 *     and a resource /big whose GET handler answers with
 *     coap_add_data_large_response() (100 byte body).
 *   - The peer sends  NON GET /big  Q-Block2(num=0,M=1,szx=0)   -> the server
 *     creates the lg_xmit (7 blocks of 16 bytes) and sends the blocks.
 *   - The peer then sends ROUNDS times
 *         NON GET /big  Q-Block2(num=20,M=0,szx=0) Q-Block2(num=21,M=0,szx=0)
 *     i.e. it asks (RFC 9177 allows several Q-Block2 options in one request)
 *     for two blocks that lie beyond the end of the body.
 *     For the first (= intermediate, i + 1 < request_cnt) block libcoap
 *     duplicates lg_xmit->pdu into out_pdu, then coap_add_block_b_data()
 *     fails (len <= start) and the code jumps to internal_issue.  The server
 *     answers 5.00, and at the parent commit out_pdu is never released.
 *
 * Detection: malloc/calloc/realloc/free of the static library are wrapped
 * with -Wl,--wrap and the number of live allocations after
 * coap_free_context()+coap_cleanup() is checked (also visible with valgrind).
 *
 * Build + run (from /tmp/rp/5a52676, library built as described in the task):
 *   cc -g -O1 -I_build -Iinclude -I_build/include OUT/replay.c \
 *      -Wl,--wrap=malloc,--wrap=calloc,--wrap=realloc,--wrap=free \
 *      _build/libcoap-3.a -lgnutls -lpthread -o OUT/replay
 *   OUT/replay ; echo "exit=$?"
 *   valgrind -q --leak-check=full --error-exitcode=9 OUT/replay
 *
 * Expected:
 *   parent (5a52676^): "LEAK: 100 live allocation(s)..." exit 1;
 *                      valgrind: "... bytes in 50 blocks are definitely lost"
 *                      from coap_pdu_init <- coap_pdu_duplicate_lkd <-
 *                      coap_handle_request_send_block, exit 9
 *   fixed  (5a52676) : "OK: no live allocations", exit 0; valgrind clean.
 */
#include <coap3/coap.h>

#include <arpa/inet.h>
#include <netinet/in.h>
#include <stdio.h>
#include <stdlib.h>
#include <string.h>
#include <sys/socket.h>
#include <unistd.h>
#include <fcntl.h>

#define ROUNDS 50
#define PORT   45683

/* ---- allocation accounting for everything inside libcoap-3.a ---- */
void *__real_malloc(size_t);
void *__real_calloc(size_t, size_t);
void *__real_realloc(void *, size_t);
void __real_free(void *);

static long live;
static int counting;

void *
__wrap_malloc(size_t n) {
  void *p = __real_malloc(n);
  if (p && counting)
    live++;
  return p;
}
void *
__wrap_calloc(size_t a, size_t b) {
  void *p = __real_calloc(a, b);
  if (p && counting)
    live++;
  return p;
}
void *
__wrap_realloc(void *o, size_t n) {
  void *p = __real_realloc(o, n);
  if (counting) {
    if (!o && p)
      live++;
    else if (o && n == 0)
      live--;
  }
  return p;
}
void
__wrap_free(void *p) {
  if (p && counting)
    live--;
  __real_free(p);
}

/* ---- server side: plain public API ---- */
static uint8_t body[100];
static int handler_calls;

static void
hnd_get(coap_resource_t *resource, coap_session_t *session,
        const coap_pdu_t *request, const coap_string_t *query,
        coap_pdu_t *response) {
  handler_calls++;
  coap_pdu_set_code(response, COAP_RESPONSE_CODE_CONTENT);
  coap_add_data_large_response(resource, session, request, response, query,
                               COAP_MEDIATYPE_TEXT_PLAIN, -1, 0,
                               sizeof(body), body, NULL, NULL);
}

/* ---- peer side: raw UDP ---- */
static int
drain(int fd, int *n500) {
  uint8_t buf[2048];
  ssize_t n;
  int cnt = 0;

  while ((n = recv(fd, buf, sizeof(buf), MSG_DONTWAIT)) > 0) {
    cnt++;
    if (n >= 4 && buf[1] == 0xA0) /* 5.00 */
      (*n500)++;
  }
  return cnt;
}

int
main(void) {
  coap_context_t *ctx;
  coap_address_t addr;
  coap_resource_t *r;
  struct sockaddr_in sa;
  int fd, i, n500 = 0, nrx = 0;
  uint16_t mid = 0x1000;

  memset(body, 'x', sizeof(body));

  counting = 1;
  coap_startup();
  coap_set_log_level(COAP_LOG_WARN);

  ctx = coap_new_context(NULL);
  if (!ctx)
    return 2;
  coap_context_set_block_mode(ctx, COAP_BLOCK_USE_LIBCOAP | COAP_BLOCK_TRY_Q_BLOCK);

  coap_address_init(&addr);
  addr.addr.sin.sin_family = AF_INET;
  addr.addr.sin.sin_addr.s_addr = htonl(INADDR_LOOPBACK);
  addr.addr.sin.sin_port = htons(PORT);
  addr.size = sizeof(struct sockaddr_in);
  if (!coap_new_endpoint(ctx, &addr, COAP_PROTO_UDP)) {
    fprintf(stderr, "cannot create endpoint\n");
    return 2;
  }
  r = coap_resource_init(coap_make_str_const("big"), 0);
  coap_register_request_handler(r, COAP_REQUEST_GET, hnd_get);
  coap_add_resource(ctx, r);

  fd = socket(AF_INET, SOCK_DGRAM, 0);
  memset(&sa, 0, sizeof(sa));
  sa.sin_family = AF_INET;
  sa.sin_addr.s_addr = htonl(INADDR_LOOPBACK);
  sa.sin_port = htons(PORT);
  if (connect(fd, (struct sockaddr *)&sa, sizeof(sa)) < 0)
    return 2;

  /* 1. NON GET /big Q-Block2(0, M=1, szx=0): creates the lg_xmit */
  {
    uint8_t req[] = { 0x52, 0x01, 0, 0, 0xAA, 0xBB,
                      0xB3, 'b', 'i', 'g',
                      0xD1, 0x07, 0x08
                    };
    req[2] = mid >> 8;
    req[3] = mid & 0xff;
    mid++;
    send(fd, req, sizeof(req), 0);
    for (i = 0; i < 5; i++)
      coap_io_process(ctx, 20);
    nrx += drain(fd, &n500);
  }
  printf("after first request: handler_calls=%d, datagrams received=%d\n",
         handler_calls, nrx);

  /* 2. NON GET /big Q-Block2(20,M=0,szx=0) Q-Block2(21,M=0,szx=0) */
  for (i = 0; i < ROUNDS; i++) {
    uint8_t req[] = { 0x52, 0x01, 0, 0, 0xAA, 0xBB,
                      0xB3, 'b', 'i', 'g',
                      0xD2, 0x07, 0x01, 0x40,
                      0x02, 0x01, 0x50
                    };
    req[2] = mid >> 8;
    req[3] = mid & 0xff;
    mid++;
    send(fd, req, sizeof(req), 0);
    coap_io_process(ctx, 20);
    coap_io_process(ctx, 20);
    nrx += drain(fd, &n500);
  }
  printf("after %d out-of-range Q-Block2 requests: handler_calls=%d, "
         "5.00 responses=%d\n", ROUNDS, handler_calls, n500);

  close(fd);
  coap_free_context(ctx);
  coap_cleanup();
  counting = 0;

  if (n500 == 0) {
    printf("INCONCLUSIVE: error exit of coap_handle_request_send_block() not reached\n");
    return 3;
  }
  if (live != 0) {
    printf("LEAK: %ld live allocation(s) from libcoap after coap_free_context()+coap_cleanup()\n",
           live);
    return 1;
  }
  printf("OK: no live allocations\n");
  return 0;
}
