/* replays/r31.c - R-CODEC-TAB (11) (C03): the decoder's per-option length table against the RFC tables.
 *   (a) Uri-Query of length 0 (RFC 7252 Table 4: 0-255)  - well-formed, the unrepaired decoder REJECTED it (`len < 1`)
 *   (b) Echo of length 0      (RFC 9175 Table 1: 1-40)   - outside the limits, the unrepaired decoder ACCEPTED it
 *   (c) Q-Block2 of length 4  (RFC 9177 Table 1: 0-3)    - outside the limits, the unrepaired decoder ACCEPTED it (no row at all)
 *       same for Q-Block1
 *   build: cc -O1 -g -I/repo/_build/include -I/repo/include r31.c /repo/_build/libcoap-3.a -lgnutls -lpthread -o r31 && ./r31
 *   exit 0 = all four verdicts as the RFC tables say; otherwise the wrong ones are printed.
 */
#include <coap3/coap.h>
#include <stdio.h>
static int parse(const uint8_t *b, size_t n) {
  coap_pdu_t *p = coap_pdu_init(0, 0, 0, 64);
  int r = coap_pdu_parse(COAP_PROTO_UDP, b, n, p);
  coap_delete_pdu(p);
  return r;
}
int main(void) {
  coap_startup();
  coap_set_log_level(COAP_LOG_EMERG);
  /* CON GET mid 0x1234, no token */
  const uint8_t uri_query0[] = {0x40, 0x01, 0x12, 0x34, 0xD0, 0x02};             /* option 15, length 0 */
  const uint8_t echo0[]      = {0x40, 0x01, 0x12, 0x34, 0xD0, 0xEF};             /* option 252, length 0 */
  const uint8_t qblock2_4[]  = {0x40, 0x01, 0x12, 0x34, 0xD4, 0x12, 0, 0, 0, 6}; /* option 31, length 4 */
  const uint8_t qblock1_4[]  = {0x40, 0x02, 0x12, 0x34, 0xD4, 0x06, 0, 0, 0, 6}; /* option 19, length 4 */
  int bad = 0;
  if (!parse(uri_query0, sizeof uri_query0)) { printf("WRONG: empty Uri-Query rejected (RFC 7252: 0-255)\n"); bad++; }
  if (parse(echo0, sizeof echo0))            { printf("WRONG: empty Echo accepted (RFC 9175: 1-40)\n"); bad++; }
  if (parse(qblock2_4, sizeof qblock2_4))    { printf("WRONG: 4 byte Q-Block2 accepted (RFC 9177: 0-3)\n"); bad++; }
  if (parse(qblock1_4, sizeof qblock1_4))    { printf("WRONG: 4 byte Q-Block1 accepted (RFC 9177: 0-3)\n"); bad++; }
  printf("%d wrong verdict(s)\n", bad);
  coap_cleanup();
  return bad ? 1 : 0;
}
