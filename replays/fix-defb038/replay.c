/*
 * Replay for commit defb038: oscore_hkdf_expand() writes through two unchecked
 * coap_malloc_type() results.
 *
 * Route (public API only):
 *   coap_new_oscore_conf("master_secret,... sender_id,... recipient_id,...")
 *   coap_context_oscore_server(ctx, conf)
 *     -> coap_oscore_init -> oscore_derive_ctx -> oscore_build_key
 *     -> oscore_hkdf -> oscore_hkdf_expand
 * Fault: malloc() is wrapped (-Wl,--wrap=malloc).  While coap_context_oscore_server()
 * runs, the N-th malloc() whose caller is oscore_hkdf_expand() (identified with
 * backtrace()+dladdr(), i.e. exactly the two work buffers aggregate_buffer /
 * out_buffer of each key derivation) returns NULL.  Each N is tried in its own
 * forked child; a child killed by a signal == library crashed.
 *
 * Build + run (from /tmp/rp/defb038, after building _build/libcoap-3.a):
 *   cc -g -O0 -rdynamic -I_build -Iinclude -I_build/include OUT/replay.c \
 *      _build/libcoap-3.a -Wl,--wrap=malloc -lgnutls -lpthread -ldl -o OUT/replay
 *   ./OUT/replay ; echo "exit=$?"
 *   (optional: ./OUT/replay N  runs only injection #N in-process, e.g. under
 *    gdb or valgrind, to see the faulting frame)
 * Parent (defb038^): children die with SIGSEGV, exit status 1.
 * Fixed  (defb038) : every child sees coap_context_oscore_server() return 0
 *                    cleanly, exit status 0.
 */
#define _GNU_SOURCE
#include <coap3/coap.h>
#include <dlfcn.h>
#include <execinfo.h>
#include <signal.h>
#include <stdio.h>
#include <stdlib.h>
#include <string.h>
#include <sys/wait.h>
#include <unistd.h>

void *__real_malloc(size_t);

static volatile int armed;      /* only count/fail while the API call runs */
static volatile int in_wrap;    /* recursion guard */
static int hkdf_allocs;         /* mallocs issued by oscore_hkdf_expand so far */
static int fail_nth;            /* which one of them to fail (0 = none) */
static int failed_done;

/* not static: dladdr() must be able to name it (-rdynamic) */
int from_hkdf_expand(void);
int
from_hkdf_expand(void) {
  void *bt[6];
  int n = backtrace(bt, 6), i;

  /* Skip the harness frames and coap_malloc_type() (which tail-calls malloc in
   * optimised builds, so it may or may not show up); the first remaining frame
   * is the library function that asked for the memory. */
  for (i = 0; i < n; i++) {
    Dl_info di;
    if (!dladdr(bt[i], &di) || !di.dli_sname)
      continue;
    if (strcmp(di.dli_sname, "from_hkdf_expand") == 0 ||
        strcmp(di.dli_sname, "__wrap_malloc") == 0 ||
        strcmp(di.dli_sname, "coap_malloc_type") == 0)
      continue;
    return strcmp(di.dli_sname, "oscore_hkdf_expand") == 0;
  }
  return 0;
}

void *
__wrap_malloc(size_t size) {
  if (armed && !in_wrap) {
    int hit;
    in_wrap = 1;
    hit = from_hkdf_expand();
    in_wrap = 0;
    if (hit) {
      hkdf_allocs++;
      if (hkdf_allocs == fail_nth) {
        failed_done = 1;
        return NULL;
      }
    }
  }
  return __real_malloc(size);
}

static const char conf_txt[] =
    "master_secret,hex,\"0102030405060708090a0b0c0d0e0f10\"\n"
    "master_salt,hex,\"9e7ca92223786340\"\n"
    "sender_id,ascii,\"server\"\n"
    "recipient_id,ascii,\"client\"\n"
    "replay_window,integer,32\n"
    "aead_alg,integer,10\n"
    "hkdf_alg,integer,-10\n";

/* returns: 0 = call failed cleanly, 1 = call succeeded; *count = hkdf mallocs */
static int
one_run(int nth, int *count) {
  coap_context_t *ctx;
  coap_oscore_conf_t *conf;
  coap_str_const_t cs = { sizeof(conf_txt) - 1, (const uint8_t *)conf_txt };
  int ret;

  coap_startup();
  coap_set_log_level(COAP_LOG_ERR);
  ctx = coap_new_context(NULL);
  if (!ctx) {
    fprintf(stderr, "harness: no context\n");
    _exit(99);
  }
  conf = coap_new_oscore_conf(cs, NULL, NULL, 0);
  if (!conf) {
    fprintf(stderr, "harness: conf parse failed\n");
    _exit(99);
  }
  fail_nth = nth;
  hkdf_allocs = 0;
  armed = 1;
  ret = coap_context_oscore_server(ctx, conf); /* consumes conf */
  armed = 0;
  *count = hkdf_allocs;
  coap_free_context(ctx);
  coap_cleanup();
  return ret;
}

int
main(int argc, char **argv) {
  void *warm[2];
  int total = 0, nth, bad = 0;
  int pfd[2];

  backtrace(warm, 2); /* let libgcc do its one-time allocations un-armed */

  if (argc > 1) {
    /* "./replay N": single injection in-process, no fork (for gdb/valgrind) */
    int cnt, r = one_run(atoi(argv[1]), &cnt);
    printf("coap_context_oscore_server() returned %d (injected=%d)\n", r, failed_done);
    return 0;
  }

  /* dry run: how many mallocs does oscore_hkdf_expand issue for this setup */
  if (pipe(pfd))
    return 98;
  if (fork() == 0) {
    int cnt, r = one_run(0, &cnt);
    if (write(pfd[1], &cnt, sizeof(cnt)) != sizeof(cnt))
      _exit(98);
    _exit(r == 1 ? 0 : 97);
  } else {
    int st;
    wait(&st);
    if (!WIFEXITED(st) || WEXITSTATUS(st) != 0 ||
        read(pfd[0], &total, sizeof(total)) != sizeof(total)) {
      fprintf(stderr, "harness: dry run failed (status 0x%x)\n", st);
      return 98;
    }
  }
  printf("dry run: coap_context_oscore_server() OK, oscore_hkdf_expand() issued %d malloc()s\n",
         total);
  if (total < 2) {
    fprintf(stderr, "harness: could not attribute mallocs to oscore_hkdf_expand\n");
    return 98;
  }

  for (nth = 1; nth <= total; nth++) {
    pid_t pid;
    int st;

    fflush(stdout);
    pid = fork();
    if (pid == 0) {
      int cnt, r = one_run(nth, &cnt);
      if (!failed_done)
        _exit(96);
      _exit(r == 0 ? 0 : 1); /* expected: clean failure */
    }
    waitpid(pid, &st, 0);
    if (WIFSIGNALED(st)) {
      printf("fail hkdf_expand malloc #%d (%s): CRASH, child killed by signal %d (%s)\n",
             nth, (nth & 1) ? "aggregate_buffer" : "out_buffer",
             WTERMSIG(st), strsignal(WTERMSIG(st)));
      bad++;
    } else if (WEXITSTATUS(st) == 0) {
      printf("fail hkdf_expand malloc #%d (%s): coap_context_oscore_server() returned 0 cleanly\n",
             nth, (nth & 1) ? "aggregate_buffer" : "out_buffer");
    } else {
      printf("fail hkdf_expand malloc #%d: unexpected child exit %d\n", nth,
             WEXITSTATUS(st));
      bad++;
    }
  }
  printf("%s: %d of %d injected failures misbehaved\n", bad ? "DEFECT" : "OK", bad, total);
  return bad ? 1 : 0;
}
