#include <coap3/coap.h>
#include <stdio.h>
#include <string.h>
#include <pthread.h>
#include <unistd.h>
#include <signal.h>
#include <arpa/inet.h>
static int evh(coap_session_t *s, coap_event_t e){(void)s;(void)e;return 0;}
static volatile int done=0;
static void *other(void *p){ coap_context_t *c=p; coap_context_set_block_mode(c, COAP_BLOCK_USE_LIBCOAP); done=1; return NULL; }
static void onalarm(int s){ (void)s; printf("  -> TIMEOUT: blocked forever\n"); fflush(stdout); _exit(0);} 
int main(int argc,char**argv){
  coap_startup(); coap_set_log_level(COAP_LOG_EMERG);
  printf("threadsafe supported=%d\n", coap_threadsafe_is_supported());
  if(argc>1 && argv[1][0]=='a'){
    coap_context_t *c=coap_new_context(NULL); coap_register_event_handler(c,evh);
    coap_handle_event(c, COAP_EVENT_SESSION_CONNECTED, NULL);   /* public API, returns */
    printf("a: event delivered, main thread back in application code; second thread calls the API...\n"); fflush(stdout);
    signal(SIGALRM,onalarm); alarm(3);
    pthread_t t; pthread_create(&t,NULL,other,c); pthread_join(t,NULL);
    printf("  -> second thread completed (done=%d)\n",done);
  } else {
    /* b: failing coap_new_context keeps the lock */
    coap_address_t a; coap_address_init(&a); a.addr.sin.sin_family=AF_INET; a.addr.sin.sin_addr.s_addr=htonl(0xC0000201); a.addr.sin.sin_port=htons(45684); a.size=sizeof(struct sockaddr_in);
    coap_context_t *c1=coap_new_context(&a);           /* binds UDP 45684 */
    coap_context_t *c2=coap_new_context(&a);           /* same port: endpoint creation fails */
    printf("b: first=%p second=%p; calling the API again from the same thread...\n",(void*)c1,(void*)c2); fflush(stdout);
    signal(SIGALRM,onalarm); alarm(3);
    coap_context_t *c3=coap_new_context(NULL);
    printf("  -> returned %p\n",(void*)c3);
  }
  return 0; }
