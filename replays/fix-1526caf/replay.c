/*
 * Replay for commit 1526caf: coap_uri_into_optlist() / coap_path_into_optlist() /
 * coap_query_into_optlist() dereference the NULL returned by a failed
 * coap_new_optlist() (inside coap_replace_percents() / coap_replace_upper_lower())
 * before coap_insert_optlist() can reject it.
 *
 * Only public API is used (coap3/coap.h).  The fault injected is a single failing
 * malloc() (via -Wl,--wrap=malloc), exactly the malloc issued by coap_new_optlist().
 * Each scenario runs in a forked child so every call site is exercised even though
 * the earlier ones crash.
 *
 * Build + run (from /tmp/rp/1526caf, library already built into _build/):
 *   cc -g -O0 -I_build -Iinclude -I_build/include OUT/replay.c _build/libcoap-3.a \
 *      -Wl,--wrap=malloc -lgnutls -lpthread -o OUT/replay && OUT/replay ; echo "exit=$?"
 *
 * Parent (1526caf^): every scenario's child dies with SIGSEGV -> exit status 1.
 * Fixed  (1526caf) : every scenario returns 0 (failure reported) cleanly -> exit 0.
 */
#include <coap3/coap.h>

#include <arpa/inet.h>
#include <stdio.h>
#include <stdlib.h>
#include <string.h>
#include <sys/wait.h>
#include <unistd.h>

/* ---- malloc fault injection ------------------------------------------- */
void *__real_malloc(size_t size);
static int fail_countdown = 0;   /* 0: disarmed, N: fail the Nth malloc from now */
static int failures_injected = 0;

void *
__wrap_malloc(size_t size) {
  if (fail_countdown > 0 && --fail_countdown == 0) {
    failures_injected++;
    return NULL;
  }
  return __real_malloc(size);
}

/* ---- scenarios --------------------------------------------------------- */
/* Each returns 0 when the library behaved correctly (reported failure). */

static int
count_chain(coap_optlist_t *c) {
  int n = 0;
  /* coap_optlist_t is opaque-ish, but coap_add_optlist_pdu is the public
   * consumer; just count by adding to a pdu is overkill - use a pdu. */
  coap_pdu_t *pdu = coap_pdu_init(COAP_MESSAGE_CON, COAP_REQUEST_CODE_GET, 1, 256);
  coap_opt_iterator_t oi;
  if (!pdu)
    return -1;
  if (!coap_add_optlist_pdu(pdu, &c)) {
    coap_delete_pdu(pdu);
    return -1;
  }
  coap_option_iterator_init(pdu, &oi, COAP_OPT_ALL);
  while (coap_option_next(&oi))
    n++;
  coap_delete_pdu(pdu);
  return n;
}

/* 1: coap_path_into_optlist(), last-segment call site, 1st malloc fails */
static int
sc_path_last(void) {
  coap_optlist_t *chain = NULL;
  const char *path = "sensors";
  int rc;

  fail_countdown = 1;
  rc = coap_path_into_optlist((const uint8_t *)path, strlen(path),
                              COAP_OPTION_URI_PATH, &chain);
  fail_countdown = 0;
  printf("  rc=%d injected=%d chain=%p\n", rc, failures_injected, (void *)chain);
  coap_delete_optlist(chain);
  return (rc == 0 && failures_injected == 1 && chain == NULL) ? 0 : 1;
}

/* 2: coap_path_into_optlist(), in-loop call site, 2nd malloc fails */
static int
sc_path_mid(void) {
  coap_optlist_t *chain = NULL;
  const char *path = "a/b/c";
  int rc, n;

  fail_countdown = 2;
  rc = coap_path_into_optlist((const uint8_t *)path, strlen(path),
                              COAP_OPTION_URI_PATH, &chain);
  fail_countdown = 0;
  n = count_chain(chain);
  printf("  rc=%d injected=%d options_in_chain=%d\n", rc, failures_injected, n);
  coap_delete_optlist(chain);
  return (rc == 0 && failures_injected == 1 && n == 1) ? 0 : 1;
}

/* 3: coap_query_into_optlist(), last-element call site */
static int
sc_query_last(void) {
  coap_optlist_t *chain = NULL;
  const char *q = "a=1";
  int rc;

  fail_countdown = 1;
  rc = coap_query_into_optlist((const uint8_t *)q, strlen(q),
                               COAP_OPTION_URI_QUERY, &chain);
  fail_countdown = 0;
  printf("  rc=%d injected=%d chain=%p\n", rc, failures_injected, (void *)chain);
  coap_delete_optlist(chain);
  return (rc == 0 && failures_injected == 1 && chain == NULL) ? 0 : 1;
}

/* 4: coap_query_into_optlist(), in-loop call site ('&' separated) */
static int
sc_query_mid(void) {
  coap_optlist_t *chain = NULL;
  const char *q = "a=1&b=2&c=3";
  int rc, n;

  fail_countdown = 2;
  rc = coap_query_into_optlist((const uint8_t *)q, strlen(q),
                               COAP_OPTION_URI_QUERY, &chain);
  fail_countdown = 0;
  n = count_chain(chain);
  printf("  rc=%d injected=%d options_in_chain=%d\n", rc, failures_injected, n);
  coap_delete_optlist(chain);
  return (rc == 0 && failures_injected == 1 && n == 1) ? 0 : 1;
}

/* 5: coap_uri_into_optlist(), Uri-Host call site (host name != dst address) */
static int
sc_uri_host(void) {
  coap_optlist_t *chain = NULL;
  const char *s = "coap://Example.COM/x";
  coap_uri_t uri;
  coap_address_t dst;
  int rc;

  if (coap_split_uri((const uint8_t *)s, strlen(s), &uri) < 0) {
    printf("  coap_split_uri failed (harness problem)\n");
    return 2;
  }
  coap_address_init(&dst);
  dst.addr.sin.sin_family = AF_INET;
  dst.addr.sin.sin_port = htons(5683);
  inet_pton(AF_INET, "192.0.2.1", &dst.addr.sin.sin_addr);
  dst.size = sizeof(struct sockaddr_in);

  fail_countdown = 1;
  rc = coap_uri_into_optlist(&uri, &dst, &chain, 1);
  fail_countdown = 0;
  printf("  rc=%d injected=%d chain=%p\n", rc, failures_injected, (void *)chain);
  coap_delete_optlist(chain);
  return (rc == 0 && failures_injected == 1 && chain == NULL) ? 0 : 1;
}

/* 6: the normal client idiom: coap_uri_into_optlist() with only a path
 * (reaches coap_path_into_optlist() through the public wrapper) */
static int
sc_uri_path(void) {
  coap_optlist_t *chain = NULL;
  const char *s = "coap://192.0.2.1/time";
  coap_uri_t uri;
  int rc;

  if (coap_split_uri((const uint8_t *)s, strlen(s), &uri) < 0) {
    printf("  coap_split_uri failed (harness problem)\n");
    return 2;
  }
  fail_countdown = 1;
  rc = coap_uri_into_optlist(&uri, NULL, &chain, 0);
  fail_countdown = 0;
  printf("  rc=%d injected=%d chain=%p\n", rc, failures_injected, (void *)chain);
  coap_delete_optlist(chain);
  return (rc == 0 && failures_injected == 1 && chain == NULL) ? 0 : 1;
}

static const struct {
  const char *name;
  int (*fn)(void);
} scenarios[] = {
  { "coap_path_into_optlist  last segment,  malloc #1 fails", sc_path_last },
  { "coap_path_into_optlist  middle segment, malloc #2 fails", sc_path_mid },
  { "coap_query_into_optlist last element,  malloc #1 fails", sc_query_last },
  { "coap_query_into_optlist middle element, malloc #2 fails", sc_query_mid },
  { "coap_uri_into_optlist   Uri-Host,      malloc #1 fails", sc_uri_host },
  { "coap_uri_into_optlist   path only,     malloc #1 fails", sc_uri_path },
};

int
main(void) {
  size_t i;
  int bad = 0;

  setvbuf(stdout, NULL, _IONBF, 0);
  coap_startup();
  coap_set_log_level(COAP_LOG_WARN);

  for (i = 0; i < sizeof(scenarios)/sizeof(scenarios[0]); i++) {
    pid_t pid;
    int st = 0;

    printf("[%zu] %s\n", i + 1, scenarios[i].name);
    pid = fork();
    if (pid < 0) {
      perror("fork");
      return 3;
    }
    if (pid == 0) {
      _exit(scenarios[i].fn());
    }
    waitpid(pid, &st, 0);
    if (WIFSIGNALED(st)) {
      printf("  => CRASH: child killed by signal %d (%s)\n", WTERMSIG(st),
             strsignal(WTERMSIG(st)));
      bad++;
    } else if (WEXITSTATUS(st) != 0) {
      printf("  => WRONG RESULT (child exit %d)\n", WEXITSTATUS(st));
      bad++;
    } else {
      printf("  => ok: allocation failure reported by return value 0\n");
    }
  }
  coap_cleanup();
  printf("%d of %zu scenarios misbehaved\n", bad,
         sizeof(scenarios)/sizeof(scenarios[0]));
  return bad ? 1 : 0;
}
