/*
 * Replay for ffb5712: OSCORE Appendix B.2 kid context is CBOR-unwrapped with
 * the size its CBOR header declares, never compared with the bytes present.
 *
 * A libcoap UDP server with an OSCORE security context that has
 * "rfc8613_b_2,bool,true" (public API: coap_new_oscore_conf() +
 * coap_context_oscore_server()) receives ONE unauthenticated datagram from a
 * peer.  Its OSCORE option carries a 3 byte kid context 59 ff ff, i.e. the
 * CBOR header "byte string, 65535 bytes follow" with nothing following (or,
 * with argument "big", 5a 10 00 00 00 = 256 MiB).  Server step 2 of B.2
 * (coap_oscore_decrypt_pdu() -> oscore_duplicate_ctx() -> coap_new_bin_const())
 * then memcpy()s 65535 bytes starting inside the 35 byte received PDU.
 *
 * Build + run (from /tmp/rp/ffb5712, library built in _build_asan with
 *   -DCMAKE_C_COMPILER=clang -DCMAKE_C_FLAGS="-fsanitize=address -g"):
 *
 *   clang -fsanitize=address -g -I_build_asan -Iinclude -I_build_asan/include \
 *         OUT/replay.c _build_asan/libcoap-3.a -lgnutls -lpthread -o OUT/replay_asan
 *   OUT/replay_asan            # parent: ASan heap-buffer-overflow READ of size 65535
 *                              # ffb5712: "OK", exit 0
 *
 * Without sanitizer (library in _build, plain RelWithDebInfo):
 *   cc -g -I_build -Iinclude -I_build/include OUT/replay.c _build/libcoap-3.a \
 *         -lgnutls -lpthread -o OUT/replay_plain
 *   OUT/replay_plain           # parent: SIGSEGV (139): the 64 KiB over-read happens to
 *                              #   stay inside the heap, the bogus 65535 byte id_context
 *                              #   is then written by compose_info()/oscore_cbor_put_bytes()
 *                              #   into an 80 byte stack buffer (if it survived, the
 *                              #   program itself reports the bogus context and exits 1)
 *   OUT/replay_plain big       # parent: SIGSEGV inside memcpy (256 MiB read)
 *                              # ffb5712: both print OK, exit 0
 *
 * OUT/replay.sh does all of this for both commits.
 */
#include "coap3/coap_libcoap_build.h"

#include <arpa/inet.h>
#include <netinet/in.h>
#include <stdio.h>
#include <string.h>
#include <sys/socket.h>
#include <unistd.h>

static const char server_conf[] =
    "master_secret,hex,\"0102030405060708090a0b0c0d0e0f10\"\n"
    "master_salt,hex,\"9e7ca92223786340\"\n"
    "sender_id,ascii,\"server\"\n"
    "recipient_id,ascii,\"client\"\n"
    "replay_window,integer,30\n"
    "aead_alg,integer,10\n"
    "hkdf_alg,integer,-10\n"
    "rfc8613_b_2,bool,true\n";

static void
hnd_post(coap_resource_t *r, coap_session_t *s, const coap_pdu_t *req,
         const coap_string_t *q, coap_pdu_t *rsp) {
  (void)r;
  (void)s;
  (void)req;
  (void)q;
  coap_pdu_set_code(rsp, COAP_RESPONSE_CODE_CHANGED);
}

int
main(int argc, char **argv) {
  int big = argc > 1 && strcmp(argv[1], "big") == 0;
  coap_context_t *ctx;
  coap_address_t addr;
  coap_endpoint_t *ep;
  coap_oscore_conf_t *conf;
  coap_str_const_t conf_mem = { sizeof(server_conf) - 1,
                                (const uint8_t *)server_conf
                              };
  coap_resource_t *res;
  uint16_t port = (uint16_t)(20000 + (getpid() % 20000));
  struct sockaddr_in to;
  int fd;
  uint8_t pkt[64];
  size_t n = 0, optlen_pos, optstart;
  oscore_ctx_t *o;
  int n_ctx = 0, bad = 0;

  coap_startup();
  coap_set_log_level(COAP_LOG_WARN);
  ctx = coap_new_context(NULL);
  if (!ctx)
    return 2;

  coap_address_init(&addr);
  addr.addr.sin.sin_family = AF_INET;
  addr.addr.sin.sin_addr.s_addr = htonl(INADDR_LOOPBACK);
  addr.addr.sin.sin_port = htons(port);
  addr.size = sizeof(struct sockaddr_in);
  ep = coap_new_endpoint(ctx, &addr, COAP_PROTO_UDP);
  if (!ep) {
    fprintf(stderr, "cannot bind 127.0.0.1:%u\n", port);
    return 2;
  }

  conf = coap_new_oscore_conf(conf_mem, NULL, NULL, 0);
  if (!conf || !coap_context_oscore_server(ctx, conf)) {
    fprintf(stderr, "OSCORE server setup failed\n");
    return 2;
  }
  res = coap_resource_init(coap_make_str_const("x"), 0);
  coap_register_handler(res, COAP_REQUEST_POST, hnd_post);
  coap_add_resource(ctx, res);

  /* ---- the peer: one datagram on a plain UDP socket ---- */
  pkt[n++] = 0x41;             /* ver 1, CON, TKL 1 */
  pkt[n++] = 0x02;             /* POST */
  pkt[n++] = 0x12;
  pkt[n++] = 0x34;             /* MID */
  pkt[n++] = 0xaa;             /* token */
  optlen_pos = n;
  pkt[n++] = 0x90;             /* option 9 (OSCORE), length patched below */
  if (big)
    pkt[n++] = 0;              /* extended length byte (length is 14 = 13 + 1) */
  optstart = n;
  pkt[n++] = 0x19;             /* flags: kid context | kid | 1 byte PIV */
  pkt[n++] = 0x01;             /* Partial IV */
  if (big) {
    pkt[n++] = 5;              /* kid context: 5 bytes */
    pkt[n++] = 0x5a;           /* CBOR bstr, 32-bit length ... */
    pkt[n++] = 0x10;           /* ... 0x10000000 = 256 MiB */
    pkt[n++] = 0x00;
    pkt[n++] = 0x00;
    pkt[n++] = 0x00;
  } else {
    pkt[n++] = 3;              /* kid context: 3 bytes */
    pkt[n++] = 0x59;           /* CBOR bstr, 16-bit length ... */
    pkt[n++] = 0xff;           /* ... 65535 */
    pkt[n++] = 0xff;
  }
  memcpy(&pkt[n], "client", 6); /* kid = server's recipient id */
  n += 6;
  if (big) {
    pkt[optlen_pos] |= 13;
    pkt[optlen_pos + 1] = (uint8_t)(n - optstart - 13);
  } else {
    pkt[optlen_pos] |= (uint8_t)(n - optstart);
  }
  pkt[n++] = 0xff;             /* payload marker */
  memset(&pkt[n], 0x5c, 16);   /* "ciphertext" (never authenticates) */
  n += 16;

  fd = socket(AF_INET, SOCK_DGRAM, 0);
  memset(&to, 0, sizeof(to));
  to.sin_family = AF_INET;
  to.sin_addr.s_addr = htonl(INADDR_LOOPBACK);
  to.sin_port = htons(port);
  if (sendto(fd, pkt, n, 0, (struct sockaddr *)&to, sizeof(to)) != (ssize_t)n) {
    perror("sendto");
    return 2;
  }
  fprintf(stderr, "peer sent %zu byte datagram\n", n);

  /* ---- the server processes it ---- */
  coap_io_process(ctx, 500);
  coap_io_process(ctx, 100);

  /* ---- observe: which security contexts exist now? ---- */
  for (o = ctx->p_osc_ctx; o; o = o->next) {
    size_t l = o->id_context ? o->id_context->length : 0;
    n_ctx++;
    fprintf(stderr, "security context %d: id_context length %zu\n", n_ctx, l);
    if (l > n)
      bad = 1;
  }
  close(fd);
  coap_free_context(ctx);
  coap_cleanup();
  if (bad) {
    printf("FAIL: an id_context longer than the %zu byte datagram was copied "
           "out of the received PDU (over-read)\n", n);
    return 1;
  }
  printf("OK: malformed kid context rejected, no over-read\n");
  return 0;
}
