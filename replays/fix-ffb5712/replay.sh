#!/bin/sh
# Usage: OUT/replay.sh            (from anywhere; drives OUT/replay.c on both commits)
# Builds libcoap (ASan build in _build_asan, plain build in _build) at ffb5712^
# and at ffb5712, links OUT/replay.c against each and runs it.
# Leaves the worktree at ffb5712^.
W=/tmp/rp/ffb5712
cd $W || exit 2
COMMON="-DENABLE_DOCS=OFF -DENABLE_TESTS=OFF -DENABLE_EXAMPLES=OFF -DCMAKE_BUILD_TYPE=RelWithDebInfo"

run() { # label, command...
  label=$1; shift
  "$@" >OUT/log.$label 2>&1
  echo "  [$label] exit status $?"
  grep -E "ERROR: AddressSanitizer|^READ of size|in coap_new_bin_const|in oscore_duplicate_ctx|^FAIL|^OK|security context [0-9]|kid context CBOR" OUT/log.$label | sed 's/^/      /'
}

for rev in 'ffb5712^' ffb5712; do
  tag=$( [ "$rev" = ffb5712 ] && echo fixed || echo parent )
  git -C $W checkout -q --detach "$rev" || exit 2
  echo "=== $rev ($tag: $(git -C $W rev-parse --short HEAD)) ==="
  cmake -G Ninja -S . -B _build_asan $COMMON -DCMAKE_C_COMPILER=clang \
        -DCMAKE_C_FLAGS="-fsanitize=address -g -fno-omit-frame-pointer" >/dev/null 2>&1
  cmake --build _build_asan --target coap-3 >/dev/null 2>&1 || exit 2
  cmake -G Ninja -S . -B _build $COMMON >/dev/null 2>&1
  cmake --build _build --target coap-3 >/dev/null 2>&1 || exit 2

  clang -fsanitize=address -g -Wno-deprecated-declarations \
        -I_build_asan -Iinclude -I_build_asan/include \
        OUT/replay.c _build_asan/libcoap-3.a -lgnutls -lpthread -o OUT/replay_asan_$tag || exit 2
  cc -g -Wno-deprecated-declarations -I_build -Iinclude -I_build/include \
        OUT/replay.c _build/libcoap-3.a -lgnutls -lpthread -o OUT/replay_plain_$tag || exit 2

  run asan_$tag       OUT/replay_asan_$tag
  run plain_$tag      OUT/replay_plain_$tag
  run plain_big_$tag  OUT/replay_plain_$tag big
done
git -C $W checkout -q --detach 'ffb5712^'
