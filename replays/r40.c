/* replays/r40.c - R-RETRANS (one NACK per disconnect) (C06 / C07 / C19): coap_session_disconnected_lkd() first reports "the first one" of the
 * session's entries in the send queue to the NACK handler - and leaves it queued - and later calls coap_cancel_session_messages(), which
 * reports every Confirmable of the session again before deleting it: the oldest in-flight request gets TWO NACKs for one disconnect.
 *   build: cc -O1 -g -I/repo/_build/include -I/repo/include r40.c /repo/_build/libcoap-3.a -lgnutls -lpthread -o r40 && ./r40
 *   before the fix: "request 1 (mid ..): 2 NACKs" exit 1;  with the fix: one NACK per request, exit 0
 */
#include <coap3/coap.h>
#include <stdio.h>
#include <string.h>
#include <arpa/inet.h>
#include <sys/socket.h>
#include <unistd.h>
static int nacks[4];
static coap_mid_t mids[4];
static void nack(coap_session_t *s, const coap_pdu_t *sent, const coap_nack_reason_t reason, const coap_mid_t mid) {
  (void)s; (void)sent; (void)reason;
  for (int i = 0; i < 4; i++) if (mids[i] == mid) nacks[i]++;
}
int main(void) {
  coap_startup();
  coap_set_log_level(COAP_LOG_EMERG);
  coap_context_t *ctx = coap_new_context(NULL);
  coap_register_nack_handler(ctx, nack);
  coap_address_t dst; coap_address_init(&dst);
  dst.size = sizeof(struct sockaddr_in);
  /* a silent peer: a bound UDP socket that is never read (no ICMP, no answer) */
  int peer = socket(AF_INET, SOCK_DGRAM, 0);
  struct sockaddr_in pa; memset(&pa, 0, sizeof pa); pa.sin_family = AF_INET; pa.sin_addr.s_addr = htonl(0x7f000001); pa.sin_port = 0;
  bind(peer, (struct sockaddr *)&pa, sizeof pa);
  socklen_t pl = sizeof pa; getsockname(peer, (struct sockaddr *)&pa, &pl);
  dst.addr.sin = pa;
  coap_session_t *s = coap_new_client_session(ctx, NULL, &dst, COAP_PROTO_UDP);
  if (!s) return 2;
  coap_session_set_nstart(s, 2);                       /* two Confirmables in flight */
  for (int i = 0; i < 2; i++) {
    coap_pdu_t *p = coap_new_pdu(COAP_MESSAGE_CON, COAP_REQUEST_CODE_GET, s);
    uint8_t tok = (uint8_t)(0x40 + i);
    coap_add_token(p, 1, &tok);
    coap_add_option(p, COAP_OPTION_URI_PATH, 1, (const uint8_t *)"x");
    mids[i] = coap_send(s, p);
  }
  coap_io_process(ctx, 50);
  coap_session_disconnected(s, COAP_NACK_NOT_DELIVERABLE);   /* e.g. the transport reported the peer gone */
  int bad = 0;
  for (int i = 0; i < 2; i++) {
    printf("request %d (mid %d): %d NACK%s\n", i + 1, mids[i], nacks[i], nacks[i] == 1 ? "" : "s");
    if (nacks[i] != 1) bad = 1;
  }
  coap_session_release(s);
  coap_free_context(ctx);
  coap_cleanup();
  return bad;
}
