/* replays/r34.c - R-ALLOC-NULL (failure reported is failure seen) (C18): coap_uri_into_optlist() ignored the result of
 * coap_insert_optlist(chain, coap_new_optlist(COAP_OPTION_URI_PORT, ..)): when that one allocation fails the function still
 * returns 1 and the option list silently lacks the Uri-Port - the request built from it goes to the right host on the WRONG
 * (default) port.  Every k-th malloc is failed in turn; whenever the call reports success the list must hold Uri-Port 1234.
 *   build: cc -O1 -g -I/repo/_build/include -I/repo/include -Wl,--wrap=malloc r34.c /repo/_build/libcoap-3.a -lgnutls -lpthread -o r34 && ./r34
 *   before the fix: "k=1: returned 1 but the list has no Uri-Port" exit 1;  with the fix: every failing k returns 0, exit 0
 * The same construct (statement-form coap_insert_optlist(&l, coap_new_optlist(..))) sat in coap_proxy_forward_request_lkd() and
 * coap_proxy_forward_response_lkd(): an option of the forwarded message was dropped silently.
 */
#include <coap3/coap.h>
#include <stdio.h>
#include <stdlib.h>
void *__real_malloc(size_t n);
static long fail_at = -1, count = 0;
void *__wrap_malloc(size_t n) { if (fail_at >= 0 && count++ == fail_at) return NULL; return __real_malloc(n); }
int main(void) {
  coap_startup();
  coap_set_log_level(COAP_LOG_EMERG);
  const char *u = "coap://example.com:1234/a/b?x=1";
  coap_uri_t uri;
  int bad = 0;
  if (coap_split_uri((const uint8_t *)u, strlen(u), &uri) < 0) return 2;
  for (long k = 0; k < 12; k++) {
    coap_optlist_t *chain = NULL, *o;
    int has_port = 0;
    count = 0; fail_at = k;
    int r = coap_uri_into_optlist(&uri, NULL, &chain, 1);
    fail_at = -1;
    for (o = chain; o; o = o->next)
      if (o->number == COAP_OPTION_URI_PORT) has_port = 1;
    if (r && !has_port) { printf("k=%ld: returned %d but the list has no Uri-Port\n", k, r); bad++; }
    coap_delete_optlist(chain);
  }
  printf("%d silent failure(s)\n", bad);
  coap_cleanup();
  return bad ? 1 : 0;
}
