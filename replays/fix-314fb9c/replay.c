/*
 * Replay for 314fb9c: check_freshness() leaks echo_pdu when the Echo option
 * cannot be inserted into the duplicated request.
 *
 * Trigger (network peer only, ordinary client application):
 *   client (block mode COAP_BLOCK_USE_LIBCOAP) sends  CON DELETE /x
 *        (DELETE so that libcoap does not append a Request-Tag option, hence
 *         Echo(252) ends up as the highest option; GET + the public flag
 *         COAP_BLOCK_NO_PREEMPTIVE_RTAG gives the same result)
 *   server answers  ACK 4.01 + Echo "A"      -> libcoap transparently re-sends
 *                                               the request with Echo "A"
 *   server answers  ACK 4.01 + Echo "B"      -> check_freshness() duplicates the
 *        just-sent PDU (whose highest option already is Echo), coap_insert_option()
 *        refuses a second non-repeatable Echo, returns 0, "goto not_sent" without
 *        freeing echo_pdu  ==> coap_pdu_t + its buffer are lost.
 *
 * Build + run (from /tmp/rp/314fb9c, library built in _build as in the task):
 *   cc -g -O0 -I_build -Iinclude -I_build/include OUT/replay.c _build/libcoap-3.a \
 *      -lgnutls -lpthread -o OUT/replay
 *   valgrind -q --leak-check=full --errors-for-leak-kinds=definite \
 *      --error-exitcode=9 OUT/replay
 * Parent (314fb9c^): valgrind reports "definitely lost" blocks allocated in
 *   coap_pdu_init <- coap_pdu_duplicate_lkd <- check_freshness, exit status 9.
 * 314fb9c: no leak report, exit status 0.
 * (OUT/replay.sh does both builds/runs automatically.)
 */
#include <coap3/coap.h>
#include <arpa/inet.h>
#include <netinet/in.h>
#include <stdio.h>
#include <string.h>
#include <sys/socket.h>
#include <unistd.h>
#include <stdlib.h>
#include <fcntl.h>

static int got_response = 0;
static int resp_code = 0;

static coap_response_t
resp_handler(coap_session_t *s, const coap_pdu_t *sent, const coap_pdu_t *rcvd,
             const coap_mid_t mid) {
  (void)s; (void)sent; (void)mid;
  got_response = 1;
  resp_code = coap_pdu_get_code(rcvd);
  return COAP_RESPONSE_OK;
}

/* Minimal fake server: answer every request with ACK 4.01 + Echo <val> */
static int
serve_one(int fd, uint8_t val) {
  uint8_t in[256], out[64];
  struct sockaddr_in from;
  socklen_t fl = sizeof(from);
  ssize_t n = recvfrom(fd, in, sizeof(in), 0, (struct sockaddr *)&from, &fl);
  size_t tkl, o = 0;

  if (n < 4)
    return 0;
  tkl = in[0] & 0x0f;
  if ((in[0] >> 4) != 0x4 || tkl > 8 || (size_t)n < 4 + tkl) /* ver 1, CON */
    return 0;
  out[o++] = 0x60 | tkl;        /* ver 1, ACK */
  out[o++] = 0x81;              /* 4.01 Unauthorized */
  out[o++] = in[2];
  out[o++] = in[3];             /* same MID */
  memcpy(&out[o], &in[4], tkl); /* same token */
  o += tkl;
  out[o++] = 0xD1;              /* delta = 13+ext, len 1 */
  out[o++] = 252 - 13;          /* option 252 = Echo */
  out[o++] = val;
  sendto(fd, out, o, 0, (struct sockaddr *)&from, fl);
  printf("server: request %zd bytes -> 4.01 Echo '%c'\n", n, val);
  return 1;
}

int
main(void) {
  int sfd = socket(AF_INET, SOCK_DGRAM, 0);
  struct sockaddr_in sa;
  socklen_t sl = sizeof(sa);
  coap_address_t dst;
  coap_context_t *ctx;
  coap_session_t *sess;
  coap_pdu_t *pdu;
  int served = 0, i;

  memset(&sa, 0, sizeof(sa));
  sa.sin_family = AF_INET;
  sa.sin_addr.s_addr = htonl(INADDR_LOOPBACK);
  if (bind(sfd, (struct sockaddr *)&sa, sizeof(sa)) < 0 ||
      getsockname(sfd, (struct sockaddr *)&sa, &sl) < 0) {
    perror("bind");
    return 2;
  }
  fcntl(sfd, F_SETFL, O_NONBLOCK);

  coap_startup();
  coap_set_log_level(getenv("DBG")?COAP_LOG_DEBUG:COAP_LOG_WARN);
  ctx = coap_new_context(NULL);
  coap_context_set_block_mode(ctx, COAP_BLOCK_USE_LIBCOAP);
  coap_register_response_handler(ctx, resp_handler);

  coap_address_init(&dst);
  dst.size = sizeof(struct sockaddr_in);
  memcpy(&dst.addr.sin, &sa, sizeof(sa));
  sess = coap_new_client_session(ctx, NULL, &dst, COAP_PROTO_UDP);
  if (!sess)
    return 2;

  pdu = coap_new_pdu(COAP_MESSAGE_CON, COAP_REQUEST_CODE_DELETE, sess);
  coap_add_token(pdu, 2, (const uint8_t *)"\x12\x34");
  coap_add_option(pdu, COAP_OPTION_URI_PATH, 1, (const uint8_t *)"x");
  if (coap_send(sess, pdu) == COAP_INVALID_MID)
    return 2;

  for (i = 0; i < 50 && !got_response; i++) {
    if (served < 2)
      served += serve_one(sfd, served == 0 ? 'A' : 'B');
    coap_io_process(ctx, 20);
  }
  printf("client: served=%d got_response=%d code=%d.%02d\n", served,
         got_response, resp_code >> 5, resp_code & 0x1f);

  coap_session_release(sess);
  coap_free_context(ctx);
  coap_cleanup();
  close(sfd);
  if (served != 2 || !got_response) {
    printf("scenario did not run as expected\n");
    return 3;
  }
  return 0;
}
