#!/bin/sh
# Usage: OUT/replay.sh            (tests whatever source is currently checked out)
# Rebuilds libcoap-3.a from the checked-out source, builds replay.c and runs it
# under valgrind.  Exit 9 + "definitely lost" report = defect present; exit 0 = clean.
set -e
cd /tmp/rp/314fb9c
[ -f _build/build.ninja ] || cmake -G Ninja -S . -B _build -DENABLE_DOCS=OFF -DENABLE_TESTS=OFF \
  -DENABLE_EXAMPLES=OFF -DCMAKE_BUILD_TYPE=RelWithDebInfo >/dev/null 2>&1
cmake --build _build --target coap-3 >/dev/null
cc -g -O0 -I_build -Iinclude -I_build/include OUT/replay.c _build/libcoap-3.a \
   -lgnutls -lpthread -o OUT/replay
set +e
valgrind -q --leak-check=full --errors-for-leak-kinds=definite --error-exitcode=9 OUT/replay
rc=$?
echo "exit status: $rc"
exit $rc
