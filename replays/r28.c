/* r28: coap_path_into_optlist() lets a ".." segment at the root of the path delete an option that was in the caller's chain before the
 * path was converted.  coap_uri_into_optlist() puts Uri-Host and Uri-Port into the chain first; optlist_start is `&(*chain)->next`,
 * i.e. only the FIRST earlier option is protected.  "coap://example.com:1234/../a" therefore loses its Uri-Port: the request a client
 * (or the proxy code) builds from the option list goes to / names the default port.  RFC 3986 5.2.4: ".." at the root removes nothing.
 *
 * build + run (from /repo, after the normal cmake build):
 *   cc -O1 -g -I_build -I_build/include -Iinclude /verif/replays/r28.c _build/libcoap-3.a -lgnutls -lpthread -o /tmp/r28/r28 && /tmp/r28/r28
 * unrepaired tree: "Uri-Port LOST" exit 1; repaired tree: exit 0 */
#include <coap3/coap.h>
#include <stdio.h>
#include <string.h>

static int run(const char *s, int want_port, unsigned want_paths) {
  coap_uri_t uri;
  coap_address_t dst;
  coap_optlist_t *chain = NULL, *o;
  int have_port = 0, have_host = 0;
  unsigned paths = 0;

  if (coap_split_uri((const uint8_t *)s, strlen(s), &uri) < 0) { printf("split failed: %s\n", s); return 1; }
  coap_address_init(&dst);
  dst.addr.sin.sin_family = AF_INET;
  dst.addr.sin.sin_addr.s_addr = htonl(0x7f000001);
  dst.addr.sin.sin_port = htons(uri.port);
  if (!coap_uri_into_optlist(&uri, &dst, &chain, 1)) { printf("into_optlist failed: %s\n", s); return 1; }
  for (o = chain; o; o = o->next) {
    if (o->number == COAP_OPTION_URI_PORT) have_port = 1;
    if (o->number == COAP_OPTION_URI_HOST) have_host = 1;
    if (o->number == COAP_OPTION_URI_PATH) paths++;
  }
  coap_delete_optlist(chain);
  printf("%-40s host=%d port=%d paths=%u  %s\n", s, have_host, have_port, paths,
         (have_port == want_port && have_host && paths == want_paths) ? "ok" : (have_port != want_port ? "Uri-Port LOST" : "WRONG"));
  return !(have_port == want_port && have_host && paths == want_paths);
}

int main(void) {
  int bad = 0;
  coap_startup();
  bad |= run("coap://example.com:1234/a", 1, 1);
  bad |= run("coap://example.com:1234/x/../a", 1, 1);
  bad |= run("coap://example.com:1234/../a", 1, 1);       /* ".." at the root: nothing to back up */
  bad |= run("coap://example.com:1234/x/../../a", 1, 1);
  bad |= run("coap://example.com/../../a", 0, 1);          /* only Uri-Host before: protected today as well */
  coap_cleanup();
  return bad;
}
