/*
 * C18: coap_parse_oscore_conf_mem() grows the recipient_id array with
 *     oscore_conf->recipient_id = coap_realloc_type(COAP_STRING, oscore_conf->recipient_id, ...);
 * When that reallocation fails the only pointer to the old array is overwritten with NULL while recipient_id_count still says how
 * many entries it had; the error path (coap_delete_oscore_conf) then walks recipient_id[0 .. count-1] through the NULL pointer, and
 * the old array with the ids in it is leaked.  Needs a configuration with at least two recipient_id lines and the failure of exactly
 * that reallocation.
 *
 * build: cc -Wno-deprecated-declarations -I/repo/_build -I/repo/include -I/repo/_build/include replays/r17.c /repo/_build/libcoap-3.a \
 *           -Wl,--wrap=realloc -lgnutls -lpthread -o /tmp/r17 ; /tmp/r17
 *   before the fix: SIGSEGV in coap_delete_oscore_conf (reported by the parent as "FAIL: child died with signal 11")
 *   after the fix : the configuration is refused cleanly for every k, "OK", exit 0
 */
#include "coap3/coap_libcoap_build.h"

#include <stdio.h>
#include <stdlib.h>
#include <string.h>
#include <sys/wait.h>
#include <unistd.h>

static const char conf_txt[] =
    "master_secret,hex,\"0102030405060708090a0b0c0d0e0f10\"\n"
    "master_salt,hex,\"9e7ca92223786340\"\n"
    "sender_id,ascii,\"server\"\n"
    "recipient_id,ascii,\"client1\"\n"
    "recipient_id,ascii,\"client2\"\n"
    "recipient_id,ascii,\"client3\"\n"
    "replay_window,integer,30\n"
    "aead_alg,integer,10\n"
    "hkdf_alg,integer,-10\n";

static int fail_at = 0, n_realloc = 0;
void *__real_realloc(void *p, size_t n);
void *
__wrap_realloc(void *p, size_t n) {
  if (fail_at && ++n_realloc == fail_at)
    return NULL;
  return __real_realloc(p, n);
}

static int
attempt(int k) {
  coap_str_const_t mem = { sizeof(conf_txt) - 1, (const uint8_t *)conf_txt };
  coap_oscore_conf_t *conf;

  n_realloc = 0;
  fail_at = k;
  conf = coap_new_oscore_conf(mem, NULL, NULL, 0);
  fail_at = 0;
  if (conf)
    coap_delete_oscore_conf(conf);
  return conf != NULL;
}

int
main(void) {
  int k, bad = 0;

  coap_startup();
  coap_set_log_level(COAP_LOG_ERR);
  for (k = 1; k <= 4; k++) {
    pid_t pid = fork();
    int st;

    if (pid == 0) {
      int ok = attempt(k);
      _exit(ok ? 10 : 11);
    }
    waitpid(pid, &st, 0);
    if (WIFSIGNALED(st)) {
      printf("FAIL: realloc #%d failing: child died with signal %d\n", k, WTERMSIG(st));
      bad = 1;
    } else {
      printf("realloc #%d failing: configuration %s\n", k, WEXITSTATUS(st) == 10 ? "accepted (that realloc was not reached)" : "refused cleanly");
    }
  }
  coap_cleanup();
  if (bad)
    return 1;
  printf("OK\n");
  return 0;
}
