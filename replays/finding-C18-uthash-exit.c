/*
 * C18 known finding: the hash tables libcoap keeps (resources, sessions, cache entries, OSCORE associations) are uthash tables, and the
 * bundled uthash is configured with HASH_NONFATAL_OOM 0: when the allocation of the table or of its buckets fails inside HASH_ADD the
 * macro calls uthash_fatal(), which is exit(-1).  One failed allocation while a resource is added terminates the whole application.
 *
 * build: cc -Wno-deprecated-declarations -I/repo/_build/include -I/repo/include replays/finding-C18-uthash-exit.c /repo/_build/libcoap-3.a \
 *           -Wl,--wrap=malloc -lgnutls -lpthread -o /tmp/fuexit ; /tmp/fuexit
 *   current tree: "FINDING REPRODUCED: malloc #k failing inside coap_add_resource(): the process exited with status 255", exit 1
 */
#include <coap3/coap.h>

#include <stdio.h>
#include <stdlib.h>
#include <sys/wait.h>
#include <unistd.h>

static int fail_at, n_malloc;
void *__real_malloc(size_t n);
void *
__wrap_malloc(size_t n) {
  if (fail_at && ++n_malloc == fail_at)
    return NULL;
  return __real_malloc(n);
}

int
main(void) {
  int k, hit = 0;

  for (k = 1; k <= 6; k++) {
    pid_t pid = fork();
    int st;

    if (pid == 0) {
      coap_context_t *ctx;
      coap_resource_t *r;

      coap_startup();
      coap_set_log_level(COAP_LOG_EMERG);
      ctx = coap_new_context(NULL);
      r = coap_resource_init(coap_make_str_const("x"), 0);
      if (!ctx || !r)
        _exit(2);
      n_malloc = 0;
      fail_at = k;
      coap_add_resource(ctx, r);       /* HASH_ADD: table, then buckets */
      fail_at = 0;
      coap_free_context(ctx);
      coap_cleanup();
      _exit(0);                        /* came back: failed cleanly or did not allocate */
    }
    waitpid(pid, &st, 0);
    if (WIFEXITED(st) && WEXITSTATUS(st) == 255) {
      printf("FINDING REPRODUCED: malloc #%d failing inside coap_add_resource(): the process exited with status 255\n", k);
      hit = 1;
    } else if (WIFSIGNALED(st)) {
      printf("malloc #%d failing: child died with signal %d\n", k, WTERMSIG(st));
      hit = 1;
    }
  }
  if (!hit)
    printf("OK: coap_add_resource() survives every single allocation failure\n");
  return hit;
}
