/*
 * C09 / C10: a Block1 upload whose blocks carry no Size1 option (Size1 is optional, RFC 7959 4: most clients other than libcoap's own
 * omit it).  coap_handle_request_put_block() keeps lg_srcv->total_len = "bytes seen so far" in that case and asks
 * check_all_blocks_in(rec_blocks, total_len / chunk) whether the body is complete -- which is trivially true after every in-order block.
 * For a block with M=1 it then takes the "blocks came in random order and the last one was seen before" branch: it sends a separate
 * 2.31 (an ACK with a fresh message id that matches no request), hands the PARTIAL body to the application and answers this block with
 * the handler's final code.  The application sees one "complete" body per block, and one request datagram gets two replies.
 *
 * build: cc -Wno-deprecated-declarations -I/repo/_build -I/repo/include -I/repo/_build/include replays/r21.c /repo/_build/libcoap-3.a -lgnutls -lpthread -o /tmp/r21 ; /tmp/r21
 *   before the fix: "FAIL: handler called 2 times (body lengths 16, 16), 3 replies for 2 requests"
 *   after the fix : one handler call with the 32 byte body, replies 2.31 then 2.04, "OK"
 */
#include "coap3/coap_libcoap_build.h"

#include <arpa/inet.h>
#include <netinet/in.h>
#include <poll.h>
#include <stdio.h>
#include <string.h>
#include <sys/socket.h>
#include <unistd.h>

static int handler_calls;
static size_t body_len[8];
static void
hnd_put(coap_resource_t *r, coap_session_t *s, const coap_pdu_t *req, const coap_string_t *q, coap_pdu_t *rsp) {
  size_t len, off, total;
  const uint8_t *data;
  (void)r;
  (void)s;
  (void)q;
  coap_get_data_large(req, &len, &data, &off, &total);
  if (handler_calls < 8)
    body_len[handler_calls] = total;
  handler_calls++;
  coap_pdu_set_code(rsp, COAP_RESPONSE_CODE_CHANGED);
}

static int
drain(int fd, uint8_t codes[], int max) {
  int n = 0;
  struct pollfd p = { fd, POLLIN, 0 };
  while (n < max && poll(&p, 1, 50) > 0) {
    uint8_t buf[64];
    ssize_t l = recv(fd, buf, sizeof(buf), 0);
    if (l >= 4)
      codes[n++] = buf[1];
  }
  return n;
}

int
main(void) {
  coap_context_t *ctx;
  coap_address_t addr;
  coap_resource_t *res;
  uint16_t port = (uint16_t)(20000 + (getpid() % 20000));
  struct sockaddr_in to;
  int fd, n = 0, i;
  uint8_t codes[16];
  /* CON PUT, token aa, Uri-Path "x", Block1 NUM 0 M=1 SZX 0, 16 bytes */
  uint8_t b0[] = { 0x41, 0x03, 0x10, 0x01, 0xaa, 0xb1, 'x', 0xd1, 0x03, 0x08, 0xff,
                   1, 2, 3, 4, 5, 6, 7, 8, 9, 10, 11, 12, 13, 14, 15, 16 };
  /* CON PUT, token aa, Uri-Path "x", Block1 NUM 1 M=0 SZX 0, 16 bytes */
  uint8_t b1[] = { 0x41, 0x03, 0x10, 0x02, 0xaa, 0xb1, 'x', 0xd1, 0x03, 0x10, 0xff,
                   17, 18, 19, 20, 21, 22, 23, 24, 25, 26, 27, 28, 29, 30, 31, 32 };

  coap_startup();
  coap_set_log_level(getenv("DBG") ? COAP_LOG_DEBUG : COAP_LOG_ERR);
  ctx = coap_new_context(NULL);
  coap_context_set_block_mode(ctx, COAP_BLOCK_USE_LIBCOAP | COAP_BLOCK_SINGLE_BODY);
  coap_address_init(&addr);
  addr.addr.sin.sin_family = AF_INET;
  addr.addr.sin.sin_addr.s_addr = htonl(INADDR_LOOPBACK);
  addr.addr.sin.sin_port = htons(port);
  addr.size = sizeof(struct sockaddr_in);
  if (!coap_new_endpoint(ctx, &addr, COAP_PROTO_UDP))
    return 2;
  res = coap_resource_init(coap_make_str_const("x"), 0);
  coap_register_handler(res, COAP_REQUEST_PUT, hnd_put);
  coap_add_resource(ctx, res);

  fd = socket(AF_INET, SOCK_DGRAM, 0);
  memset(&to, 0, sizeof(to));
  to.sin_family = AF_INET;
  to.sin_addr.s_addr = htonl(INADDR_LOOPBACK);
  to.sin_port = htons(port);
  connect(fd, (struct sockaddr *)&to, sizeof(to));
  send(fd, b0, sizeof(b0), 0);
  coap_io_process(ctx, 200);
  n += drain(fd, codes + n, 8);
  send(fd, b1, sizeof(b1), 0);
  coap_io_process(ctx, 200);
  n += drain(fd, codes + n, 8);
  close(fd);
  coap_free_context(ctx);
  coap_cleanup();

  fprintf(stderr, "handler calls: %d, body lengths:", handler_calls);
  for (i = 0; i < handler_calls && i < 8; i++)
    fprintf(stderr, " %zu", body_len[i]);
  fprintf(stderr, "\nreplies:");
  for (i = 0; i < n; i++)
    fprintf(stderr, " %d.%02d", codes[i] >> 5, codes[i] & 0x1f);
  fprintf(stderr, "\n");
  if (handler_calls != 1 || body_len[0] != 32 || n != 2) {
    printf("FAIL: handler called %d times, %d replies for 2 requests\n", handler_calls, n);
    return 1;
  }
  printf("OK\n");
  return 0;
}
