/*
 * C02 / C14: oscore_encode_option_value() writes Partial IV, (CBOR wrapped) kid context and kid into the caller's 48 byte stack
 * buffer (coap_oscore_new_pdu_encrypted_lkd: uint8_t oscore_option[48]); its only bounds are assert()s, compiled out with NDEBUG
 * (the default RelWithDebInfo / Release builds).  The ID Context is not limited to 48 bytes anywhere: key derivation accepts
 * anything whose HKDF info fits 80 bytes (about 64 bytes of ID Context), RFC 8613 does not bound it, and with Appendix B.2 the
 * client's ID Context becomes (R2 || R3) where the length of R2 is chosen by the peer (coap_oscore_decrypt_pdu, "client step 3").
 * This replay takes the shortest route: a security context whose ID Context is 56 bytes long; the first request overflows the buffer.
 *
 * plain: cc -I/repo/_build -I/repo/include -I/repo/_build/include replays/r16.c /repo/_build/libcoap-3.a -lgnutls -lpthread -o /tmp/r16 ; /tmp/r16
 *          before the fix: "*** stack smashing detected ***" (or SIGSEGV); after: the request is refused, "OK", exit 0
 * ASan library (see replays/r9.c): stack-buffer-overflow WRITE in oscore_encode_option_value <- coap_oscore_new_pdu_encrypted_lkd
 */
#include "coap3/coap_libcoap_build.h"

#include <arpa/inet.h>
#include <netinet/in.h>
#include <stdio.h>
#include <string.h>
#include <unistd.h>

static const char client_conf[] =
    "master_secret,hex,\"0102030405060708090a0b0c0d0e0f10\"\n"
    "master_salt,hex,\"9e7ca92223786340\"\n"
    "id_context,hex,\"4141414141414141414141414141414141414141414141414141414141414141414141414141414141414141414141414141414141414141\"\n"
    "sender_id,ascii,\"client\"\n"
    "recipient_id,ascii,\"server\"\n"
    "replay_window,integer,30\n"
    "aead_alg,integer,10\n"
    "hkdf_alg,integer,-10\n";

int
main(void) {
  coap_context_t *ctx;
  coap_address_t dst;
  coap_session_t *s;
  coap_oscore_conf_t *conf;
  coap_str_const_t conf_mem = { sizeof(client_conf) - 1, (const uint8_t *)client_conf };
  coap_pdu_t *pdu;
  coap_mid_t mid;
  uint16_t port = (uint16_t)(20000 + (getpid() % 20000));

  coap_startup();
  coap_set_log_level(COAP_LOG_WARN);
  ctx = coap_new_context(NULL);
  if (!ctx)
    return 2;
  coap_address_init(&dst);
  dst.addr.sin.sin_family = AF_INET;
  dst.addr.sin.sin_addr.s_addr = htonl(INADDR_LOOPBACK);
  dst.addr.sin.sin_port = htons(port);
  dst.size = sizeof(struct sockaddr_in);

  conf = coap_new_oscore_conf(conf_mem, NULL, NULL, 0);
  if (!conf) {
    fprintf(stderr, "configuration refused\n");
    return 2;
  }
  s = coap_new_client_session_oscore(ctx, NULL, &dst, COAP_PROTO_UDP, conf);
  if (!s) {
    /* also a legitimate outcome of a repair: the context is refused when it is configured */
    printf("OK: a 56 byte ID Context is refused at set-up\n");
    coap_free_context(ctx);
    coap_cleanup();
    return 0;
  }
  pdu = coap_new_pdu(COAP_MESSAGE_NON, COAP_REQUEST_CODE_GET, s);
  coap_add_option(pdu, COAP_OPTION_URI_PATH, 1, (const uint8_t *)"x");
  mid = coap_send(s, pdu);      /* protects the request: the OSCORE option is composed here */
  fprintf(stderr, "coap_send() returned %d\n", mid);
  coap_session_release(s);
  coap_free_context(ctx);
  coap_cleanup();
  printf("OK: survived a request under a 56 byte ID Context (send %s)\n", mid == COAP_INVALID_MID ? "refused" : "done");
  return 0;
}
