#!/bin/sh
# Builds libcoap at dd6e9bd^ (parent) and at dd6e9bd, runs OUT/replay.c against each.
# Usage: sh OUT/replay.sh      (run from anywhere; leaves worktree at dd6e9bd^)
# Expected: parent -> exit=1 ("DEFECT ..."), dd6e9bd -> exit=0 ("OK ...").
W=/tmp/rp/dd6e9bd
cd $W || exit 2
[ -f _build/build.ninja ] || cmake -G Ninja -S . -B _build -DENABLE_DOCS=OFF -DENABLE_TESTS=OFF \
  -DENABLE_EXAMPLES=OFF -DCMAKE_BUILD_TYPE=RelWithDebInfo >/dev/null 2>&1
for rev in 'dd6e9bd^' dd6e9bd 'dd6e9bd^'; do
  git -C $W checkout -q --detach "$rev" || exit 2
  cmake --build _build --target coap-3 >/dev/null 2>&1 || exit 2
  [ "$rev$done_parent" = 'dd6e9bd^1' ] && break   # third pass only restores the parent build
  cc -g -I_build -Iinclude -I_build/include OUT/replay.c _build/libcoap-3.a \
     -lgnutls -lpthread -o OUT/replay || exit 2
  echo "=== $rev ($(git -C $W rev-parse --short HEAD)) ==="
  OUT/replay; echo "exit=$?"
  done_parent=1
done
