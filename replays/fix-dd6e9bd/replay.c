/*
 * Replay for dd6e9bd: "a Reset lowered con_active even when it did not match a
 * Confirmable in the send queue".
 *
 * Build + run (from /tmp/rp/dd6e9bd, library already built in _build):
 *   cc -g -I_build -Iinclude -I_build/include OUT/replay.c _build/libcoap-3.a \
 *      -lgnutls -lpthread -o OUT/replay && OUT/replay ; echo "exit=$?"
 * or simply:  sh OUT/replay.sh   (builds the lib at parent and at dd6e9bd, runs both)
 *
 * Scenario (libcoap is a plain UDP client, NSTART left at the default 1; the
 * "peer" is a raw UDP socket in this process that only does what any network
 * peer may do):
 *   1. app sends CON GET #1            -> goes on the wire, waits for ACK
 *   2. app sends NON GET               -> goes on the wire
 *   3. app sends CON GET #2            -> must be held back (NSTART=1)
 *   4. peer answers the NON with a RST (RFC 7252 4.3 allows that), it never
 *      ACKs CON #1.
 *   5. library processes the RST.
 * Correct: CON #2 stays in the delay queue, the peer has seen only one CON.
 * Parent:  RST arm decrements con_active unconditionally and flushes the delay
 *          queue, so CON #2 is transmitted while CON #1 is still unacknowledged:
 *          2 Confirmables in flight with NSTART == 1.
 *
 * Exit 0 = correct behaviour, exit 1 = defect observed.
 */
#include "coap3/coap_libcoap_build.h"
/* coap_libcoap_build.h marks the public COAP_API entry points deprecated (for
 * use inside the library); this is an application, so that is just noise. */
#pragma GCC diagnostic ignored "-Wdeprecated-declarations"
#include <stdio.h>
#include <string.h>
#include <unistd.h>
#include <fcntl.h>
#include <arpa/inet.h>
#include <sys/socket.h>

static int peer_fd;
static struct sockaddr_in client_addr;
static socklen_t client_len;

/* drain everything the peer socket has received; record CON mids seen */
static int con_mids[16];
static int n_con;
static int last_non_mid = -1;

static void
peer_drain(void) {
  uint8_t buf[256];
  for (;;) {
    struct sockaddr_in from;
    socklen_t fl = sizeof(from);
    ssize_t n = recvfrom(peer_fd, buf, sizeof(buf), MSG_DONTWAIT,
                         (struct sockaddr *)&from, &fl);
    if (n < 4)
      break;
    client_addr = from;
    client_len = fl;
    int type = (buf[0] >> 4) & 3;
    int mid = (buf[2] << 8) | buf[3];
    printf("  peer <- %s mid=0x%04x code=%d\n",
           type == 0 ? "CON" : type == 1 ? "NON" : type == 2 ? "ACK" : "RST",
           mid, buf[1]);
    if (type == 0) {
      int i, known = 0;
      for (i = 0; i < n_con; i++)
        if (con_mids[i] == mid)
          known = 1;
      if (!known && n_con < 16)
        con_mids[n_con++] = mid;
    } else if (type == 1) {
      last_non_mid = mid;
    }
  }
}

static coap_mid_t
send_get(coap_session_t *s, coap_pdu_type_t type, const char *path, uint8_t tok) {
  coap_pdu_t *p = coap_new_pdu(type, COAP_REQUEST_CODE_GET, s);
  if (!p)
    return COAP_INVALID_MID;
  coap_add_token(p, 1, &tok);
  coap_add_option(p, COAP_OPTION_URI_PATH, strlen(path), (const uint8_t *)path);
  return coap_send(s, p);
}

/* s == NULL: count every node (nodes on session->delayqueue carry no session) */
static int
count_queue(coap_queue_t *q, coap_session_t *s, int con_only) {
  int n = 0;
  for (; q; q = q->next)
    if ((!s || q->session == s) &&
        (!con_only || q->pdu->type == COAP_MESSAGE_CON))
      n++;
  return n;
}

int
main(void) {
  struct sockaddr_in pa;
  socklen_t pl = sizeof(pa);
  coap_address_t dst;
  coap_context_t *ctx;
  coap_session_t *s;
  int i, rc = 0;

  setvbuf(stdout, NULL, _IONBF, 0);
  alarm(20); /* watchdog */

  peer_fd = socket(AF_INET, SOCK_DGRAM, 0);
  memset(&pa, 0, sizeof(pa));
  pa.sin_family = AF_INET;
  pa.sin_addr.s_addr = htonl(INADDR_LOOPBACK);
  if (bind(peer_fd, (struct sockaddr *)&pa, sizeof(pa)) < 0 ||
      getsockname(peer_fd, (struct sockaddr *)&pa, &pl) < 0) {
    perror("peer socket");
    return 2;
  }

  coap_startup();
  coap_set_log_level(COAP_LOG_WARN);
  ctx = coap_new_context(NULL);
  coap_address_init(&dst);
  dst.size = sizeof(struct sockaddr_in);
  memcpy(&dst.addr.sin, &pa, sizeof(pa));
  s = coap_new_client_session(ctx, NULL, &dst, COAP_PROTO_UDP);
  if (!ctx || !s) {
    fprintf(stderr, "setup failed\n");
    return 2;
  }
  printf("NSTART = %u\n", coap_session_get_nstart(s));

  printf("app: send CON #1, NON, CON #2\n");
  coap_mid_t m1 = send_get(s, COAP_MESSAGE_CON, "one", 1);
  coap_mid_t mn = send_get(s, COAP_MESSAGE_NON, "non", 2);
  coap_mid_t m2 = send_get(s, COAP_MESSAGE_CON, "two", 3);
  coap_io_process(ctx, 50);
  usleep(20000);
  peer_drain();
  printf("  mids: CON#1=0x%04x NON=0x%04x CON#2=0x%04x\n", m1, mn, m2);
  printf("  before RST: con_active=%u, CONs in sendqueue=%d, delayqueue=%d, "
         "distinct CONs seen by peer=%d\n",
         s->con_active, count_queue(ctx->sendqueue, s, 1),
         count_queue(s->delayqueue, NULL, 0), n_con);
  if (n_con != 1 || last_non_mid != mn || s->con_active != 1 ||
      count_queue(s->delayqueue, NULL, 0) != 1) {
    fprintf(stderr, "unexpected precondition state - harness problem\n");
    return 2;
  }

  /* peer rejects the NON with a Reset: ver=1 type=RST tkl=0, code 0, mid */
  {
    uint8_t rst[4] = { 0x70, 0x00, (uint8_t)(mn >> 8), (uint8_t)mn };
    printf("peer -> RST mid=0x%04x (answers the NON, not CON #1)\n", mn);
    sendto(peer_fd, rst, 4, 0, (struct sockaddr *)&client_addr, client_len);
  }
  /* stay well below ACK_TIMEOUT (2..3 s) so nothing is retransmitted / times out */
  for (i = 0; i < 3; i++) {
    coap_io_process(ctx, 50);
    usleep(10000);
  }
  peer_drain();

  int inflight = count_queue(ctx->sendqueue, s, 1);
  printf("  after  RST: con_active=%u, CONs in sendqueue=%d, delayqueue=%d, "
         "distinct CONs seen by peer=%d\n",
         s->con_active, inflight, count_queue(s->delayqueue, NULL, 0), n_con);

  if (n_con > (int)coap_session_get_nstart(s) ||
      inflight > (int)coap_session_get_nstart(s)) {
    printf("DEFECT: %d unacknowledged Confirmables on the wire / %d in the "
           "retransmit queue with NSTART=%u (con_active says %u)\n",
           n_con, inflight, coap_session_get_nstart(s), s->con_active);
    rc = 1;
  } else {
    printf("OK: CON #2 still held back, only %d Confirmable in flight\n", n_con);
  }

  coap_session_release(s);
  coap_free_context(ctx);
  coap_cleanup();
  close(peer_fd);
  return rc;
}
