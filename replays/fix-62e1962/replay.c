/*
 * Replay for 62e1962: coap_notify_observers() leaks the per-observer query
 * string when the application's GET handler sets a response code of an
 * invalid class (1.xx / 6.xx, or 7.xx on UDP) while being called for an
 * Observe notification.
 *
 * Build + run (from /tmp/rp/62e1962, library built in _build as libcoap-3.a):
 *   cc -g -O1 -I_build -Iinclude -I_build/include OUT/replay.c _build/libcoap-3.a \
 *      -lgnutls -lpthread \
 *      -Wl,--wrap=malloc -Wl,--wrap=calloc -Wl,--wrap=realloc -Wl,--wrap=free \
 *      -o OUT/replay
 *   OUT/replay ; echo "exit=$?"
 * Optional corroboration:
 *   valgrind --leak-check=full --error-exitcode=9 OUT/replay
 *
 * Only public API (coap3/coap.h) is used on the server side; the "peer" is a
 * plain UDP socket sending one well-formed NON GET with Observe:0 and a
 * Uri-Query option.
 *
 * Expected: parent (ab8185a) -> "live allocation growth = 50", exit 1
 *           62e1962          -> "live allocation growth = 0",  exit 0
 */
#include <coap3/coap.h>

#include <arpa/inet.h>
#include <netinet/in.h>
#include <stdio.h>
#include <stdlib.h>
#include <string.h>
#include <sys/socket.h>
#include <unistd.h>

/* ---- allocation counter ------------------------------------------------ */
void *__real_malloc(size_t);
void *__real_calloc(size_t, size_t);
void *__real_realloc(void *, size_t);
void __real_free(void *);

static long live;

void *
__wrap_malloc(size_t n) {
  void *p = __real_malloc(n);
  if (p)
    __atomic_add_fetch(&live, 1, __ATOMIC_RELAXED);
  return p;
}

void *
__wrap_calloc(size_t a, size_t b) {
  void *p = __real_calloc(a, b);
  if (p)
    __atomic_add_fetch(&live, 1, __ATOMIC_RELAXED);
  return p;
}

void *
__wrap_realloc(void *o, size_t n) {
  void *p = __real_realloc(o, n);
  if (!o && p)
    __atomic_add_fetch(&live, 1, __ATOMIC_RELAXED);
  return p;
}

void
__wrap_free(void *p) {
  if (p)
    __atomic_sub_fetch(&live, 1, __ATOMIC_RELAXED);
  __real_free(p);
}

/* ---- server ------------------------------------------------------------ */
static int handler_calls;
static int notify_calls;
static int query_seen;

static void
hnd_get(coap_resource_t *resource, coap_session_t *session,
        const coap_pdu_t *request, const coap_string_t *query,
        coap_pdu_t *response) {
  (void)resource;
  (void)session;
  (void)request;
  handler_calls++;
  if (query && query->length == 3 && memcmp(query->s, "x=1", 3) == 0)
    query_seen++;
  if (handler_calls == 1) {
    /* the initial GET + Observe:0 registration: answer properly */
    coap_pdu_set_code(response, COAP_RESPONSE_CODE_CONTENT);
    coap_add_data(response, 2, (const uint8_t *)"hi");
    return;
  }
  /* a notification: (buggy) application picks a code of class 1 */
  notify_calls++;
  coap_pdu_set_code(response, (coap_pdu_code_t)COAP_RESPONSE_CODE(100));
}

static uint16_t
pick_port(void) {
  int s = socket(AF_INET, SOCK_DGRAM, 0);
  struct sockaddr_in a;
  socklen_t l = sizeof(a);
  memset(&a, 0, sizeof(a));
  a.sin_family = AF_INET;
  a.sin_addr.s_addr = htonl(INADDR_LOOPBACK);
  bind(s, (struct sockaddr *)&a, sizeof(a));
  getsockname(s, (struct sockaddr *)&a, &l);
  close(s);
  return ntohs(a.sin_port);
}

#define ROUNDS 50

int
main(void) {
  coap_context_t *ctx;
  coap_address_t addr;
  coap_resource_t *r;
  uint16_t port = pick_port();
  int cs, i;
  struct sockaddr_in sa;
  long base, growth;
  /* NON GET, TKL=2, MID 0x1234, token AA BB,
   * Observe(6)="" (register), Uri-Path(11)="obs", Uri-Query(15)="x=1" */
  static const uint8_t req[] = {
    0x52, 0x01, 0x12, 0x34, 0xAA, 0xBB,
    0x60,
    0x53, 'o', 'b', 's',
    0x43, 'x', '=', '1'
  };
  uint8_t rbuf[128];
  ssize_t n;
  struct timeval tv = { 2, 0 };

  coap_startup();
  coap_set_log_level(COAP_LOG_ERR);

  ctx = coap_new_context(NULL);
  if (!ctx)
    return 2;
  coap_address_init(&addr);
  addr.addr.sin.sin_family = AF_INET;
  addr.addr.sin.sin_addr.s_addr = htonl(INADDR_LOOPBACK);
  addr.addr.sin.sin_port = htons(port);
  addr.size = sizeof(struct sockaddr_in);
  if (!coap_new_endpoint(ctx, &addr, COAP_PROTO_UDP))
    return 2;

  r = coap_resource_init(coap_make_str_const("obs"),
                         COAP_RESOURCE_FLAGS_NOTIFY_NON_ALWAYS);
  coap_register_request_handler(r, COAP_REQUEST_GET, hnd_get);
  coap_resource_set_get_observable(r, 1);
  coap_add_resource(ctx, r);

  /* the peer */
  cs = socket(AF_INET, SOCK_DGRAM, 0);
  setsockopt(cs, SOL_SOCKET, SO_RCVTIMEO, &tv, sizeof(tv));
  memset(&sa, 0, sizeof(sa));
  sa.sin_family = AF_INET;
  sa.sin_addr.s_addr = htonl(INADDR_LOOPBACK);
  sa.sin_port = htons(port);
  if (connect(cs, (struct sockaddr *)&sa, sizeof(sa)) < 0)
    return 2;
  if (send(cs, req, sizeof(req), 0) != (ssize_t)sizeof(req))
    return 2;

  for (i = 0; i < 20 && handler_calls == 0; i++)
    coap_io_process(ctx, 100);
  if (handler_calls != 1) {
    fprintf(stderr, "setup failed: registration request not handled\n");
    return 2;
  }
  n = recv(cs, rbuf, sizeof(rbuf), 0);
  if (n < 4 || rbuf[1] != COAP_RESPONSE_CODE(205)) {
    fprintf(stderr, "setup failed: no 2.05 for the registration (n=%zd)\n", n);
    return 2;
  }

  /* one warm-up notification so that any one-off lazy allocation is done */
  coap_resource_notify_observers(r, NULL);
  coap_io_process(ctx, COAP_IO_NO_WAIT);
  if (notify_calls != 1) {
    fprintf(stderr, "setup failed: handler not called for notification\n");
    return 2;
  }

  base = live;
  for (i = 0; i < ROUNDS; i++) {
    coap_resource_notify_observers(r, NULL);
    coap_io_process(ctx, COAP_IO_NO_WAIT);
  }
  growth = live - base;

  printf("handler calls for notifications = %d (query \"x=1\" seen %d times)\n",
         notify_calls, query_seen);
  printf("live allocation growth over %d invalid-code notifications = %ld\n",
         ROUNDS, growth);

  close(cs);
  coap_free_context(ctx);
  coap_cleanup();

  if (growth != 0) {
    printf("LEAK: query string from coap_get_query() not released\n");
    return 1;
  }
  printf("OK: no leak\n");
  return 0;
}
