/*
 * replay.c - does a libcoap coap+ws server answer a 2 byte CoAP-over-WebSockets
 *            Ping (00 e2)?  (coap_read_session(): "else if (bytes_read > 2)")
 *
 * Build + run (from /tmp/rp/nb3):
 *   cmake -G Ninja -S . -B _build -DENABLE_DOCS=OFF -DENABLE_TESTS=OFF \
 *         -DENABLE_EXAMPLES=OFF -DCMAKE_BUILD_TYPE=RelWithDebInfo >/dev/null
 *   cmake --build _build --target coap-3
 *   cc -g -I_build/include -Iinclude -o OUT/replay OUT/replay.c \
 *      _build/libcoap-3.a -lgnutls -lpthread
 *   OUT/replay            (add -v for libcoap debug logging on stderr)
 *
 * Exit: 1 = the 2 byte Ping got no Pong while the control (3 byte) Ping did
 *       0 = both answered
 *       3 = set-up problem (handshake / CSM / control failed)
 *
 * One process, one thread: a libcoap server context with a coap+ws endpoint on
 * 127.0.0.1, and a raw non-blocking TCP socket that plays the WebSocket client.
 */
#include <coap3/coap.h>

#include <arpa/inet.h>
#include <errno.h>
#include <fcntl.h>
#include <netinet/in.h>
#include <netinet/tcp.h>
#include <stdio.h>
#include <stdlib.h>
#include <string.h>
#include <sys/socket.h>
#include <time.h>
#include <unistd.h>

static int n_bad_packet;
static int n_events;

static int
event_handler(coap_session_t *session, const coap_event_t event) {
  (void)session;
  n_events++;
  printf("    [event 0x%04x%s]\n", (unsigned)event,
         event == COAP_EVENT_BAD_PACKET ? " COAP_EVENT_BAD_PACKET" :
         event == COAP_EVENT_WS_CONNECTED ? " COAP_EVENT_WS_CONNECTED" :
         event == COAP_EVENT_SESSION_CONNECTED ? " COAP_EVENT_SESSION_CONNECTED" :
         event == COAP_EVENT_TCP_CONNECTED ? " COAP_EVENT_TCP_CONNECTED" :
         event == COAP_EVENT_SERVER_SESSION_NEW ? " COAP_EVENT_SERVER_SESSION_NEW" :
         event == COAP_EVENT_SESSION_CLOSED ? " COAP_EVENT_SESSION_CLOSED" :
         event == COAP_EVENT_TCP_CLOSED ? " COAP_EVENT_TCP_CLOSED" :
         event == COAP_EVENT_WS_CLOSED ? " COAP_EVENT_WS_CLOSED" : "");
  if (event == COAP_EVENT_BAD_PACKET)
    n_bad_packet++;
  return 0;
}

static int n_ping_cb;
static void
ping_handler(coap_session_t *session, const coap_pdu_t *received,
             const coap_mid_t mid) {
  (void)session;
  (void)received;
  (void)mid;
  n_ping_cb++;
  printf("    [server ping_handler called]\n");
}

static coap_context_t *ctx;
static int cfd = -1;
static uint8_t rx[8192];
static size_t rx_len;

static double
now_s(void) {
  struct timespec ts;
  clock_gettime(CLOCK_MONOTONIC, &ts);
  return ts.tv_sec + ts.tv_nsec / 1e9;
}

/* run the server a bit and collect whatever the client socket received */
static void
pump(void) {
  ssize_t n;

  coap_io_process(ctx, 20);
  while ((n = recv(cfd, rx + rx_len, sizeof(rx) - rx_len, 0)) > 0)
    rx_len += (size_t)n;
}

static void
hexdump(const char *pfx, const uint8_t *p, size_t n) {
  size_t i;
  printf("%s", pfx);
  for (i = 0; i < n; i++)
    printf("%s%02x", i ? " " : "", p[i]);
  printf("\n");
}

static int
send_all(const void *buf, size_t len) {
  const uint8_t *p = buf;
  while (len) {
    ssize_t n = send(cfd, p, len, MSG_NOSIGNAL);
    if (n < 0) {
      if (errno == EAGAIN || errno == EINTR) {
        pump();
        continue;
      }
      perror("send");
      return 0;
    }
    p += n;
    len -= (size_t)n;
  }
  return 1;
}

/* masked, FIN, binary frame (client -> server), payload < 126 bytes */
static int
send_frame(const uint8_t *payload, size_t len) {
  static const uint8_t mask[4] = { 0x12, 0x34, 0x56, 0x78 };
  uint8_t f[6 + 125];
  size_t i;

  f[0] = 0x82;                   /* FIN | binary */
  f[1] = 0x80 | (uint8_t)len;    /* MASK | len */
  memcpy(&f[2], mask, 4);
  for (i = 0; i < len; i++)
    f[6 + i] = payload[i] ^ mask[i % 4];
  hexdump("  client -> server CoAP bytes: ", payload, len);
  hexdump("  client -> server wire frame: ", f, 6 + len);
  return send_all(f, 6 + len);
}

/*
 * Take one complete (unmasked, server -> client) frame out of rx.
 * Returns payload length (>= 0) and sets *opcode, or -1 if no complete frame.
 */
static ssize_t
take_frame(uint8_t *out, size_t outlen, int *opcode) {
  size_t hl = 2, pl;

  if (rx_len < 2)
    return -1;
  pl = rx[1] & 0x7f;
  if (pl == 126) {
    if (rx_len < 4)
      return -1;
    pl = ((size_t)rx[2] << 8) | rx[3];
    hl = 4;
  } else if (pl == 127) {
    fprintf(stderr, "unexpected 64 bit frame length\n");
    exit(3);
  }
  if (rx[1] & 0x80)
    hl += 4;                     /* server must not mask, but be tolerant */
  if (rx_len < hl + pl)
    return -1;
  if (pl > outlen)
    pl = outlen;
  *opcode = rx[0] & 0x0f;
  memcpy(out, rx + hl, pl);
  memmove(rx, rx + hl + pl, rx_len - hl - pl);
  rx_len -= hl + pl;
  return (ssize_t)pl;
}

/*
 * Wait up to 'secs' for a binary frame whose CoAP code (2nd byte) is 'code'.
 * Every frame seen is printed.  Returns 1 if seen.
 */
static int
wait_code(uint8_t code, double secs) {
  double end = now_s() + secs;
  uint8_t p[2048];
  int found = 0;

  while (now_s() < end && !found) {
    ssize_t n;
    int op;

    pump();
    while ((n = take_frame(p, sizeof(p), &op)) >= 0) {
      printf("  server -> client frame opcode 0x%x, %zd bytes: ", op, n);
      hexdump("", p, (size_t)n);
      if (op == 0x2 && n >= 2 && p[1] == code)
        found = 1;
      if (op == 0x8)
        printf("  (server sent WebSocket Close)\n");
    }
  }
  return found;
}

int
main(int argc, char **argv) {
  coap_address_t addr;
  coap_endpoint_t *ep;
  struct sockaddr_in sa;
  uint16_t port = 0;
  int i, got_a, got_b, got_c, got_d, bad_a, ping_a;
  double end;
  char *eoh;
  static const char req_fmt[] =
      "GET /.well-known/coap HTTP/1.1\r\n"
      "Host: 127.0.0.1:%u\r\n"
      "Upgrade: websocket\r\n"
      "Connection: Upgrade\r\n"
      "Sec-WebSocket-Key: dGhlIHNhbXBsZSBub25jZQ==\r\n"
      "Sec-WebSocket-Protocol: coap\r\n"
      "Sec-WebSocket-Version: 13\r\n"
      "\r\n";
  char req[512];
  /* CSM 7.01 with Max-Message-Size (option 2) = 0x0480 = 1152 */
  static const uint8_t csm[]    = { 0x00, 0xe1, 0x22, 0x04, 0x80 };
  static const uint8_t ping2[]  = { 0x00, 0xe2 };             /* (a) */
  static const uint8_t ping3[]  = { 0x01, 0xe2, 0xaa };       /* (b) control */
  static const uint8_t ping3o[] = { 0x00, 0xe2, 0x20 };       /* (c) Ping + Custody */

  setvbuf(stdout, NULL, _IOLBF, 0);
  coap_startup();
  coap_set_log_level(argc > 1 && strcmp(argv[1], "-v") == 0 ?
                     COAP_LOG_DEBUG : COAP_LOG_WARN);

  if (!coap_ws_is_supported()) {
    fprintf(stderr, "SETUP: libcoap built without WebSockets support\n");
    return 3;
  }
  ctx = coap_new_context(NULL);
  if (!ctx)
    return 3;
  coap_register_event_handler(ctx, event_handler);
  coap_register_ping_handler(ctx, ping_handler);

  /* find a free port: try a few */
  ep = NULL;
  for (i = 0; i < 50 && !ep; i++) {
    port = (uint16_t)(45683 + i);
    coap_address_init(&addr);
    addr.addr.sin.sin_family = AF_INET;
    addr.addr.sin.sin_addr.s_addr = htonl(INADDR_LOOPBACK);
    addr.addr.sin.sin_port = htons(port);
    addr.size = sizeof(struct sockaddr_in);
    ep = coap_new_endpoint(ctx, &addr, COAP_PROTO_WS);
  }
  if (!ep) {
    fprintf(stderr, "SETUP: cannot create coap+ws endpoint\n");
    return 3;
  }
  printf("server: coap+ws://127.0.0.1:%u  (libcoap %s)\n", port,
         coap_package_version());

  /* raw TCP client */
  cfd = socket(AF_INET, SOCK_STREAM, 0);
  memset(&sa, 0, sizeof(sa));
  sa.sin_family = AF_INET;
  sa.sin_addr.s_addr = htonl(INADDR_LOOPBACK);
  sa.sin_port = htons(port);
  if (connect(cfd, (struct sockaddr *)&sa, sizeof(sa)) < 0) {
    perror("SETUP: connect");
    return 3;
  }
  i = 1;
  setsockopt(cfd, IPPROTO_TCP, TCP_NODELAY, &i, sizeof(i));
  fcntl(cfd, F_SETFL, fcntl(cfd, F_GETFL) | O_NONBLOCK);

  /* 1. HTTP upgrade */
  snprintf(req, sizeof(req), req_fmt, port);
  if (!send_all(req, strlen(req)))
    return 3;
  end = now_s() + 3.0;
  eoh = NULL;
  while (now_s() < end && !eoh) {
    pump();
    rx[rx_len < sizeof(rx) ? rx_len : sizeof(rx) - 1] = 0;
    eoh = strstr((char *)rx, "\r\n\r\n");
  }
  if (!eoh || strncmp((char *)rx, "HTTP/1.1 101", 12) != 0) {
    fprintf(stderr, "SETUP: no 101 response to the upgrade request: %.*s\n",
            (int)rx_len, rx);
    return 3;
  }
  printf("upgrade: got \"%.*s\"\n", (int)(strstr((char *)rx, "\r\n") - (char *)rx), rx);
  eoh += 4;
  memmove(rx, eoh, rx_len - (size_t)(eoh - (char *)rx));
  rx_len -= (size_t)(eoh - (char *)rx);

  /* 2. CSM exchange */
  printf("CSM:\n");
  if (!send_frame(csm, sizeof(csm)))
    return 3;
  if (!wait_code(0xe1, 3.0)) {
    fprintf(stderr, "SETUP: no CSM (7.01) from the server\n");
    return 3;
  }
  /* let the server digest our CSM (session becomes ESTABLISHED) */
  for (i = 0; i < 10; i++)
    pump();

  /* 3. control first: proves the connection answers Pings at all */
  printf("(b) control, 3 byte Ping with token aa:\n");
  n_bad_packet = 0;
  if (!send_frame(ping3, sizeof(ping3)))
    return 3;
  got_b = wait_code(0xe3, 2.0);
  printf("    => %s\n", got_b ? "Pong (7.03) received" : "NO Pong within 2 s");

  /* 4. the 2 byte Ping */
  printf("(a) 2 byte Ping 00 e2:\n");
  n_bad_packet = 0;
  n_ping_cb = 0;
  if (!send_frame(ping2, sizeof(ping2)))
    return 3;
  got_a = wait_code(0xe3, 2.0);
  bad_a = n_bad_packet;
  ping_a = n_ping_cb;
  printf("    => %s; COAP_EVENT_BAD_PACKET raised %d time(s); "
         "ping_handler called %d time(s)\n",
         got_a ? "Pong (7.03) received" : "NO Pong within 2 s", bad_a, ping_a);

  /* 5. further controls after (a): connection still alive and answering */
  printf("(c) 3 byte Ping with Custody option 00 e2 20:\n");
  if (!send_frame(ping3o, sizeof(ping3o)))
    return 3;
  got_c = wait_code(0xe3, 2.0);
  printf("    => %s\n", got_c ? "Pong (7.03) received" : "NO Pong within 2 s");

  printf("(d) control again, 3 byte Ping with token aa:\n");
  if (!send_frame(ping3, sizeof(ping3)))
    return 3;
  got_d = wait_code(0xe3, 2.0);
  printf("    => %s\n", got_d ? "Pong (7.03) received" : "NO Pong within 2 s");

  /* 6. informational only: a 1 byte frame (shorter than the 2 byte header) */
  printf("(e) informational, 1 byte frame 00 (shorter than the WS CoAP header):\n");
  n_bad_packet = 0;
  {
    static const uint8_t one[] = { 0x00 };
    if (!send_frame(one, sizeof(one)))
      return 3;
    (void)wait_code(0xff, 0.5);
  }
  printf("    => COAP_EVENT_BAD_PACKET raised %d time(s)\n", n_bad_packet);

  close(cfd);
  for (i = 0; i < 5; i++)
    coap_io_process(ctx, 20);
  coap_free_context(ctx);
  coap_cleanup();

  if (!got_b || !got_d) {
    printf("RESULT: set-up problem - the control Ping was not answered\n");
    return 3;
  }
  if (!got_a) {
    printf("RESULT: 2 byte Ping 00 e2 got NO Pong (and %s COAP_EVENT_BAD_PACKET), "
           "3 byte Pings were answered -> exit 1\n", bad_a ? "a" : "no");
    return 1;
  }
  printf("RESULT: both the 2 byte and the 3 byte Ping were answered -> exit 0\n");
  return 0;
}
