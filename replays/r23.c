/*
 * C12 ("everything is released"): coap_handle_request_send_block() allocates its scratch list out_blocks, then looks at the request's
 * ETag option: when it does not match the ETag of the large response being served it returns 0 ("pass up to a higher level") -- without
 * freeing out_blocks.  Every other path of the function frees it.  A client that asks for a further block of a body with a stale (or
 * made-up) ETag costs the server one allocation per request, for ever.
 *
 * build: cc -Wno-deprecated-declarations -I/repo/_build -I/repo/include -I/repo/_build/include replays/r23.c /repo/_build/libcoap-3.a \
 *           -Wl,--wrap=malloc -Wl,--wrap=free -Wl,--wrap=realloc -Wl,--wrap=calloc -lgnutls -lpthread -o /tmp/r23 ; /tmp/r23
 *   before the fix: "FAIL: 1 block(s) still allocated after coap_free_context()" (80 bytes: the out_blocks list of the first request with a foreign ETag); after: "OK"
 */
#include "coap3/coap_libcoap_build.h"

#include <arpa/inet.h>
#include <netinet/in.h>
#include <stdio.h>
#include <stdlib.h>
#include <string.h>
#include <sys/socket.h>
#include <unistd.h>

#define MAXP 4096
static void *ptrs[MAXP];
static size_t sizes[MAXP];
static int armed;
void *__real_malloc(size_t n);
void *__real_calloc(size_t a, size_t b);
void *__real_realloc(void *p, size_t n);
void __real_free(void *p);
static void note(void *p, size_t n) { int i; if (!armed || !p) return; for (i = 0; i < MAXP; i++) if (!ptrs[i]) { ptrs[i] = p; sizes[i] = n; return; } }
static void forget(void *p) { int i; if (!p) return; for (i = 0; i < MAXP; i++) if (ptrs[i] == p) { ptrs[i] = NULL; return; } }
void *__wrap_malloc(size_t n) { void *p = __real_malloc(n); note(p, n); return p; }
void *__wrap_calloc(size_t a, size_t b) { void *p = __real_calloc(a, b); note(p, a * b); return p; }
void *__wrap_realloc(void *o, size_t n) { void *p = __real_realloc(o, n); if (p) { forget(o); note(p, n); } return p; }
void __wrap_free(void *p) { forget(p); __real_free(p); }

static uint8_t body[100];
static void
hnd_get(coap_resource_t *r, coap_session_t *s, const coap_pdu_t *req, const coap_string_t *q, coap_pdu_t *rsp) {
  coap_pdu_set_code(rsp, COAP_RESPONSE_CODE_CONTENT);
  coap_add_data_large_response(r, s, req, rsp, q, COAP_MEDIATYPE_TEXT_PLAIN, -1, 0x1111, sizeof(body), body, NULL, NULL);
}

int
main(void) {
  coap_context_t *ctx;
  coap_address_t addr;
  coap_resource_t *res;
  uint16_t port = (uint16_t)(20000 + (getpid() % 20000));
  struct sockaddr_in to;
  int fd, i, left = 0;
  /* CON GET mid 0x2001 token bb, Uri-Path "x", Block2 NUM 0 SZX 0 (16 byte blocks) */
  uint8_t g0[] = { 0x41, 0x01, 0x20, 0x01, 0xbb, 0xb1, 'x', 0xc1, 0x00 };
  /* CON GET token bb, ETag (4) = 99 99 (not the server's), Uri-Path "x", Block2 NUM 1 SZX 0 */
  uint8_t g1[] = { 0x41, 0x01, 0x20, 0x02, 0xbb, 0x42, 0x99, 0x99, 0x71, 'x', 0xc1, 0x10 };

  memset(body, 'a', sizeof(body));
  coap_startup();
  coap_set_log_level(getenv("DBG") ? COAP_LOG_DEBUG : COAP_LOG_ERR);
  armed = 1;
  ctx = coap_new_context(NULL);
  coap_context_set_block_mode(ctx, COAP_BLOCK_USE_LIBCOAP | COAP_BLOCK_SINGLE_BODY);
  coap_address_init(&addr);
  addr.addr.sin.sin_family = AF_INET;
  addr.addr.sin.sin_addr.s_addr = htonl(INADDR_LOOPBACK);
  addr.addr.sin.sin_port = htons(port);
  addr.size = sizeof(struct sockaddr_in);
  if (!coap_new_endpoint(ctx, &addr, COAP_PROTO_UDP))
    return 2;
  res = coap_resource_init(coap_make_str_const("x"), 0);
  coap_register_handler(res, COAP_REQUEST_GET, hnd_get);
  coap_add_resource(ctx, res);

  fd = socket(AF_INET, SOCK_DGRAM, 0);
  memset(&to, 0, sizeof(to));
  to.sin_family = AF_INET;
  to.sin_addr.s_addr = htonl(INADDR_LOOPBACK);
  to.sin_port = htons(port);
  sendto(fd, g0, sizeof(g0), 0, (struct sockaddr *)&to, sizeof(to));
  coap_io_process(ctx, 200);
  for (i = 0; i < 5; i++) {
    g1[3] = (uint8_t)(2 + i);          /* fresh message id each time */
    sendto(fd, g1, sizeof(g1), 0, (struct sockaddr *)&to, sizeof(to));
    coap_io_process(ctx, 100);
  }
  coap_io_process(ctx, 50);
  close(fd);
  coap_free_context(ctx);
  coap_cleanup();
  armed = 0;
  for (i = 0; i < MAXP; i++)
    if (ptrs[i]) {
      left++;
      fprintf(stderr, "  still allocated: %p, %zu bytes\n", ptrs[i], sizes[i]);
    }
  if (left) {
    printf("FAIL: %d block(s) still allocated after coap_free_context()\n", left);
    return 1;
  }
  printf("OK\n");
  return 0;
}
