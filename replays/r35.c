/* replays/r35.c - R-RANGE (unsigned subtraction) (C20 / C02): the attribute filter of /.well-known/core strips the quotes of an attribute
 * value with `unquoted_val.length -= 2` whenever the first byte is '"' - also for the one byte value "\"" (the application registered a
 * malformed value; the API accepts it).  The length wraps to SIZE_MAX and match() compares far behind the value: a GET
 * /.well-known/core?rt=a* from the network then reads out of bounds (SIGSEGV, or an ASan report).
 *   build: cc -O1 -g -I/repo/_build/include -I/repo/include r35.c /repo/_build/libcoap-3.a -lgnutls -lpthread -o r35 && ./r35
 *   before the fix: crash (exit 139) / valgrind invalid reads;  with the fix: "listing length 0 ... ok", exit 0
 */
#include <coap3/coap.h>
#include <stdio.h>
#include <string.h>
int main(void) {
  coap_startup();
  coap_set_log_level(COAP_LOG_EMERG);
  coap_context_t *ctx = coap_new_context(NULL);
  coap_resource_t *r = coap_resource_init(coap_make_str_const("sensor"), 0);
  coap_add_attr(r, coap_make_str_const("rt"), coap_make_str_const("\""), 0);
  coap_add_resource(ctx, r);
  unsigned char buf[256];
  size_t len = sizeof(buf), off = 0;
  const char *q = "rt=aaaaaaaaaaaaaaaaaaaaaaaaaaaaaaaaaaaaaaaaaaaaaaaaaaaaaaaaaaaaaaaaaaaaaaaaaaaaaaaaaaaaaaaaaaaaaaaaaaaaaaaaaaaaaaaaaaaaaaaaaaaaaaaaaaaa*";
  coap_string_t query = { strlen(q), (uint8_t *)q };
  coap_print_status_t st = coap_print_wellknown(ctx, buf, &len, off, &query);
  printf("listing length %zu status %x ok\n", len, (unsigned)st);
  coap_free_context(ctx);
  coap_cleanup();
  return 0;
}
