#!/bin/sh
# Usage: OUT/replay.sh            (run from anywhere; builds + runs on the commit currently checked out)
# To compare: git checkout -q --detach 0f0699e^ ; OUT/replay.sh ; git checkout -q --detach 0f0699e ; OUT/replay.sh
cd /tmp/rp/0f0699e || exit 2
OPTS="-DENABLE_DOCS=OFF -DENABLE_TESTS=OFF -DENABLE_EXAMPLES=OFF -DCMAKE_BUILD_TYPE=RelWithDebInfo"
echo "=== commit $(git rev-parse --short HEAD) ==="
cmake -G Ninja -S . -B _build $OPTS >/dev/null 2>&1 && cmake --build _build --target coap-3 >/dev/null || exit 2
cc -g -Wno-deprecated-declarations -I_build -Iinclude -I_build/include OUT/replay.c _build/libcoap-3.a \
   -lgnutls -lpthread -o OUT/replay || exit 2
echo "--- plain build"
OUT/replay; rc1=$?
echo "exit=$rc1"
cmake -G Ninja -S . -B _build_ub $OPTS -DCMAKE_C_COMPILER=clang \
   -DCMAKE_C_FLAGS="-fsanitize=undefined -fno-sanitize-recover=bounds -g" >/dev/null 2>&1 \
   && cmake --build _build_ub --target coap-3 >/dev/null || exit 2
clang -fsanitize=undefined -g -Wno-deprecated-declarations -I_build_ub -Iinclude -I_build_ub/include OUT/replay.c \
   _build_ub/libcoap-3.a -lgnutls -lpthread -o OUT/replay_ub || exit 2
echo "--- UBSan build"
OUT/replay_ub; rc2=$?
echo "exit=$rc2"
[ $rc1 -eq 0 ] && [ $rc2 -eq 0 ]
