/*
 * Replay for 0f0699e: WebSocket handshake line buffer (coap_ws_state_t.http_hdr[160])
 * is overrun by one byte, and an over-long header line is never rejected.
 *
 * A network peer connects to a libcoap WebSocket (coap+ws://) endpoint and sends
 * exactly 160 bytes that contain no newline, then stays silent.
 *
 * Build + run (from /tmp/rp/0f0699e), plain build:
 *   cmake -G Ninja -S . -B _build -DENABLE_DOCS=OFF -DENABLE_TESTS=OFF -DENABLE_EXAMPLES=OFF \
 *         -DCMAKE_BUILD_TYPE=RelWithDebInfo >/dev/null && cmake --build _build --target coap-3
 *   cc -g -I_build -Iinclude -I_build/include OUT/replay.c _build/libcoap-3.a -lgnutls -lpthread -o OUT/replay
 *   OUT/replay ; echo "exit=$?"
 *
 * UBSan build (reports the out-of-bounds store itself):
 *   cmake -G Ninja -S . -B _build_ub -DENABLE_DOCS=OFF -DENABLE_TESTS=OFF -DENABLE_EXAMPLES=OFF \
 *         -DCMAKE_BUILD_TYPE=RelWithDebInfo -DCMAKE_C_COMPILER=clang \
 *         -DCMAKE_C_FLAGS="-fsanitize=undefined -fno-sanitize-recover=bounds -g" >/dev/null \
 *         && cmake --build _build_ub --target coap-3
 *   clang -fsanitize=undefined -g -I_build_ub -Iinclude -I_build_ub/include OUT/replay.c \
 *         _build_ub/libcoap-3.a -lgnutls -lpthread -o OUT/replay_ub
 *   OUT/replay_ub ; echo "exit=$?"
 *
 * (OUT/replay.sh does all of the above for both commits.)
 *
 * Parent (0f0699e^): exit 1 - no "400" answer, connection left open, session kept
 *                    with ws->http_ofs == 160 == sizeof(http_hdr), i.e. the NUL was
 *                    stored at http_hdr[160]; UBSan build aborts with
 *                    "coap_ws.c:511: index 160 out of bounds for type 'uint8_t[160]'".
 * Fixed (0f0699e):   exit 0 - peer receives "HTTP/1.1 400 Invalid request" and EOF,
 *                    session deleted, http_ofs never exceeded 159; UBSan clean.
 */
#include "coap3/coap_libcoap_build.h"

#include <stdio.h>
#include <string.h>
#include <stdlib.h>
#include <unistd.h>
#include <errno.h>
#include <fcntl.h>
#include <sys/socket.h>
#include <netinet/in.h>
#include <arpa/inet.h>

static coap_session_t *the_session;
static int session_new, session_del;

static int
event_handler(coap_session_t *session, coap_event_t event) {
  if (event == COAP_EVENT_SERVER_SESSION_NEW) {
    the_session = session;
    session_new++;
  } else if (event == COAP_EVENT_SERVER_SESSION_DEL) {
    if (session == the_session)
      the_session = NULL;
    session_del++;
  }
  return 0;
}

int
main(void) {
  coap_context_t *ctx;
  coap_endpoint_t *ep = NULL;
  coap_address_t addr;
  struct sockaddr_in sa;
  uint16_t port = 0;
  int fd, i, fail = 0;
  char line[160];
  char rx[512];
  size_t rxlen = 0;
  int got_eof = 0;

  coap_startup();
  coap_set_log_level(COAP_LOG_INFO);
  if (!coap_ws_is_supported()) {
    fprintf(stderr, "WebSockets not built in\n");
    return 2;
  }
  ctx = coap_new_context(NULL);
  if (!ctx)
    return 2;
  coap_register_event_handler(ctx, event_handler);

  for (i = 0; i < 50 && !ep; i++) {
    port = (uint16_t)(40000 + (getpid() * 7 + i * 131) % 20000);
    coap_address_init(&addr);
    addr.addr.sin.sin_family = AF_INET;
    addr.addr.sin.sin_addr.s_addr = htonl(INADDR_LOOPBACK);
    addr.addr.sin.sin_port = htons(port);
    addr.size = sizeof(struct sockaddr_in);
    ep = coap_new_endpoint(ctx, &addr, COAP_PROTO_WS);
  }
  if (!ep) {
    fprintf(stderr, "cannot create WS endpoint\n");
    return 2;
  }

  /* The network peer */
  fd = socket(AF_INET, SOCK_STREAM, 0);
  memset(&sa, 0, sizeof(sa));
  sa.sin_family = AF_INET;
  sa.sin_addr.s_addr = htonl(INADDR_LOOPBACK);
  sa.sin_port = htons(port);
  if (connect(fd, (struct sockaddr *)&sa, sizeof(sa)) < 0) {
    perror("connect");
    return 2;
  }
  /* accept it */
  for (i = 0; i < 5 && !session_new; i++)
    coap_io_process(ctx, 100);

  /* 160 bytes, no end of line, then silence */
  memset(line, 'A', sizeof(line));
  memcpy(line, "GET /", 5);
  if (send(fd, line, sizeof(line), 0) != (ssize_t)sizeof(line)) {
    perror("send");
    return 2;
  }
  fcntl(fd, F_SETFL, fcntl(fd, F_GETFL) | O_NONBLOCK);

  /* Give the server 2 seconds of I/O processing */
  for (i = 0; i < 20; i++) {
    ssize_t n;

    coap_io_process(ctx, 100);
    while (!got_eof && rxlen < sizeof(rx) - 1) {
      n = recv(fd, rx + rxlen, sizeof(rx) - 1 - rxlen, 0);
      if (n > 0)
        rxlen += (size_t)n;
      else if (n == 0)
        got_eof = 1;
      else
        break;
    }
    if (got_eof)
      break;
  }
  rx[rxlen] = 0;

  printf("sessions created %d, deleted %d\n", session_new, session_del);
  printf("peer received %zu bytes: \"%.28s\"%s, connection %s\n", rxlen, rx,
         rxlen > 28 ? "..." : "", got_eof ? "closed by server" : "STILL OPEN");
  if (the_session && the_session->ws) {
    coap_ws_state_t *ws = the_session->ws;

    printf("session still alive: ws->up %u ws->http_ofs %u sizeof(ws->http_hdr) %zu\n",
           ws->up, ws->http_ofs, sizeof(ws->http_hdr));
    if (ws->http_ofs >= sizeof(ws->http_hdr)) {
      printf("BUG: terminating NUL was stored at http_hdr[%u], past the end of http_hdr[%zu]\n",
             ws->http_ofs, sizeof(ws->http_hdr));
      fail = 1;
    }
  }
  if (session_new != 1) {
    printf("unexpected: no server session was created\n");
    fail = 1;
  }
  if (session_del != 1 || !got_eof || strncmp(rx, "HTTP/1.1 400", 12) != 0) {
    printf("BUG: over-long HTTP header line was not rejected (no 400, session kept)\n");
    fail = 1;
  }
  close(fd);
  coap_free_context(ctx);
  coap_cleanup();
  printf(fail ? "RESULT: FAIL\n" : "RESULT: OK\n");
  return fail;
}
