/*
 * Replay for 31a5e2b: oscore_validate_sender_seq() shifts the 64-bit replay
 * window by an unbounded count.
 *
 * Build + run (from /tmp/rp/31a5e2b, library built as described in the task):
 *   cc -g -O1 -I_build -Iinclude -I_build/include OUT/replay.c _build/libcoap-3.a \
 *      -lgnutls -lpthread -o OUT/replay && OUT/replay ; echo "exit=$?"
 * Optional UBSan confirmation (library built in _ubsan with
 *   -DCMAKE_C_COMPILER=clang -DCMAKE_C_FLAGS="-fsanitize=undefined -g"):
 *   clang -fsanitize=undefined -g -I_ubsan -Iinclude -I_ubsan/include OUT/replay.c \
 *      _ubsan/libcoap-3.a -lgnutls -lpthread -o OUT/replay_ubsan && OUT/replay_ubsan
 *
 * Scenario (public API only; everything travels over UDP on 127.0.0.1):
 *   an OSCORE server (default config: Appendix B.1.2 on, replay window 32) and
 *   three successive incarnations of the same OSCORE peer (same keys / sender id),
 *   each created with coap_new_oscore_conf(..., start_seq_num):
 *     A: start 10 -> SEQ 10 (4.01+Echo), 11 (Echo retry), 12, 13  => server last_seq 13
 *     B: start 77 -> SEQ 77 = 13 + 64  (e.g. 63 requests lost on the way)
 *     C: start 75 -> SEQ 75: never seen before, 2 behind the newest, well inside
 *                   the window => MUST be accepted (2.05).
 *   On the parent the shift by 64 is UB; on x86-64 it is a shift by 0, the stale
 *   bits for 11..13 now stand for 75..77 and the server answers C with
 *   4.01 "Replay detected".
 * Exit status: 0 if C's fresh request is served, 1 if it is rejected as a replay.
 * Internal headers are used only to PRINT the server's window state.
 */
#include "coap3/coap_libcoap_build.h"
#include <stdio.h>
#include <string.h>
#include <stdlib.h>

#define PORT "56831"

static int hits;
static int got_resp;
static coap_pdu_code_t last_code;

static void
hnd_get(coap_resource_t *r, coap_session_t *s, const coap_pdu_t *req,
        const coap_string_t *q, coap_pdu_t *resp) {
  (void)r; (void)s; (void)req; (void)q;
  hits++;
  coap_pdu_set_code(resp, COAP_RESPONSE_CODE_CONTENT);
  coap_add_data(resp, 2, (const uint8_t *)"ok");
}

static coap_response_t
resp_hnd(coap_session_t *s, const coap_pdu_t *sent, const coap_pdu_t *rcv,
         const coap_mid_t mid) {
  (void)s; (void)sent; (void)mid;
  last_code = coap_pdu_get_code(rcv);
  got_resp = 1;
  return COAP_RESPONSE_OK;
}

static const char srv_conf[] =
    "master_secret,hex,\"0102030405060708090a0b0c0d0e0f10\"\n"
    "master_salt,hex,\"9e7ca92223786340\"\n"
    "sender_id,ascii,\"server\"\n"
    "recipient_id,ascii,\"client\"\n";
static const char cli_conf[] =
    "master_secret,hex,\"0102030405060708090a0b0c0d0e0f10\"\n"
    "master_salt,hex,\"9e7ca92223786340\"\n"
    "sender_id,ascii,\"client\"\n"
    "recipient_id,ascii,\"server\"\n";

static coap_context_t *srv;

static void
show_server(const char *tag) {
  oscore_ctx_t *o = srv->p_osc_ctx;
  oscore_recipient_ctx_t *r = o ? o->recipient_chain : NULL;
  if (r)
    printf("  [%s] server: initial_state=%d last_seq=%llu window=0x%llx hits=%d\n",
           tag, r->initial_state, (unsigned long long)r->last_seq,
           (unsigned long long)r->sliding_window, hits);
}

/* One incarnation of the peer: n GETs starting at sender sequence number 'start'.
 * Returns number of 2.05 responses; *lastc = last response code seen. */
static int
run_client(const char *tag, uint64_t start, int n, coap_pdu_code_t *lastc) {
  coap_context_t *c = coap_new_context(NULL);
  coap_str_const_t cm = { sizeof(cli_conf) - 1, (const uint8_t *)cli_conf };
  coap_oscore_conf_t *oc = coap_new_oscore_conf(cm, NULL, NULL, start);
  coap_address_t dst;
  coap_session_t *s;
  int ok = 0;

  coap_address_init(&dst);
  dst.addr.sin.sin_family = AF_INET;
  dst.addr.sin.sin_port = htons(atoi(PORT));
  dst.addr.sin.sin_addr.s_addr = htonl(INADDR_LOOPBACK);
  dst.size = sizeof(struct sockaddr_in);

  /* needed so that the client library itself answers the B.1.2 4.01+Echo challenge */
  coap_context_set_block_mode(c, COAP_BLOCK_USE_LIBCOAP);
  coap_register_response_handler(c, resp_hnd);
  s = coap_new_client_session_oscore(c, NULL, &dst, COAP_PROTO_UDP, oc);
  if (!s) {
    fprintf(stderr, "client session failed\n");
    exit(2);
  }
  for (int i = 0; i < n; i++) {
    coap_pdu_t *p = coap_new_pdu(COAP_MESSAGE_CON, COAP_REQUEST_CODE_GET, s);
    uint8_t tok[2] = { (uint8_t)start, (uint8_t)i };
    coap_add_token(p, 2, tok);
    coap_add_option(p, COAP_OPTION_URI_PATH, 1, (const uint8_t *)"r");
    got_resp = 0;
    last_code = 0;
    if (coap_send(s, p) == COAP_INVALID_MID) {
      fprintf(stderr, "send failed\n");
      exit(2);
    }
    for (int k = 0; k < 300 && !got_resp; k++) {
      coap_io_process(srv, 5);
      coap_io_process(c, 5);
    }
    printf("  client %s request %d: %s code %d.%02d\n", tag, i,
           got_resp ? "response" : "NO RESPONSE", last_code >> 5, last_code & 0x1f);
    if (got_resp && last_code == COAP_RESPONSE_CODE_CONTENT)
      ok++;
    *lastc = last_code;
    show_server(tag);
  }
  coap_session_release(s);
  coap_free_context(c);
  return ok;
}

int
main(void) {
  coap_address_t a;
  coap_str_const_t sm = { sizeof(srv_conf) - 1, (const uint8_t *)srv_conf };
  coap_resource_t *r;
  coap_pdu_code_t code = 0;
  int okA, okB, okC, hits_before;

  coap_startup();
  coap_set_log_level(getenv("V") ? COAP_LOG_OSCORE : COAP_LOG_WARN);
  srv = coap_new_context(NULL);
  coap_address_init(&a);
  a.addr.sin.sin_family = AF_INET;
  a.addr.sin.sin_port = htons(atoi(PORT));
  a.addr.sin.sin_addr.s_addr = htonl(INADDR_LOOPBACK);
  a.size = sizeof(struct sockaddr_in);
  if (!coap_new_endpoint(srv, &a, COAP_PROTO_UDP)) {
    fprintf(stderr, "endpoint failed\n");
    return 2;
  }
  if (!coap_context_oscore_server(srv, coap_new_oscore_conf(sm, NULL, NULL, 0))) {
    fprintf(stderr, "oscore server failed\n");
    return 2;
  }
  r = coap_resource_init(coap_make_str_const("r"), 0);
  coap_register_handler(r, COAP_REQUEST_GET, hnd_get);
  coap_add_resource(srv, r);

  printf("A: peer sends SEQ 10..13\n");
  okA = run_client("A", 10, 3, &code);
  printf("B: peer sends SEQ 77 (= 13 + 64)\n");
  okB = run_client("B", 77, 1, &code);
  hits_before = hits;
  printf("C: peer sends SEQ 75 (fresh, inside the window)\n");
  okC = run_client("C", 75, 1, &code);

  coap_free_context(srv);
  coap_cleanup();

  if (okA != 3 || okB != 1) {
    printf("SETUP PROBLEM: okA=%d okB=%d\n", okA, okB);
    return 2;
  }
  if (okC == 1 && hits == hits_before + 1) {
    printf("PASS: fresh SEQ 75 accepted after a jump of 64\n");
    return 0;
  }
  printf("FAIL: fresh SEQ 75 rejected (code %d.%02d, handler hits %d -> %d): "
         "stale replay-window bits survived the jump of 64\n",
         code >> 5, code & 0x1f, hits_before, hits);
  return 1;
}
