/*
 * Replay for ab8185a: coap_handle_response_send_block() leaks the freshly
 * duplicated "next Block1 request" PDU when coap_add_block_b_data() fails.
 *
 * Trigger (network peer only): a libcoap client does a Block1 PUT of 200 bytes
 * with 64 byte blocks (Block1 0/0/SZX=2 put in the request by the application,
 * exactly what "coap-client -b 64 -m put -f file" does).  A (rogue or
 * merely odd) server ACKs block 0 with 2.31 Continue + Block1 = 0/M/SZX=6
 * (1024), i.e. it "asks" for a LARGER block size.  libcoap logs "ignoring
 * request to increase Block size" but leaves block.szx = 6, so after
 * block.num++ coap_add_block_b_data() computes start = 1 << 10 = 1024 >= 200
 * and returns 0 -> goto fail_body without freeing the duplicated pdu.
 *
 * Build + run (from /tmp/rp/ab8185a, library built in _build as per task):
 *   cc -g -I_build -Iinclude -I_build/include OUT/replay.c _build/libcoap-3.a \
 *      -lgnutls -lpthread \
 *      -Wl,--wrap=malloc,--wrap=calloc,--wrap=realloc,--wrap=free -o OUT/replay
 *   ./OUT/replay ; echo exit=$?
 *   valgrind --leak-check=full --error-exitcode=9 ./OUT/replay   (optional)
 *
 * Exit status: 1 = leak (live allocations remain after coap_free_context()),
 *              0 = clean, 2 = harness could not reach the failing path.
 */
#include <coap3/coap.h>
#include <stdio.h>
#include <stdlib.h>
#include <string.h>
#include <unistd.h>
#include <sys/socket.h>
#include <netinet/in.h>
#include <arpa/inet.h>
#include <poll.h>

/* ---- allocation tracker (observation only, never fails an allocation) ---- */
void *__real_malloc(size_t);
void *__real_calloc(size_t, size_t);
void *__real_realloc(void *, size_t);
void __real_free(void *);

#define NTRACK 65536
static struct { void *p; size_t n; } live[NTRACK];
static int tracking;

static void
t_add(void *p, size_t n) {
  if (!tracking || !p)
    return;
  for (int i = 0; i < NTRACK; i++)
    if (!live[i].p) {
      live[i].p = p;
      live[i].n = n;
      return;
    }
  abort();
}
static void
t_del(void *p) {
  if (!p)
    return;
  for (int i = 0; i < NTRACK; i++)
    if (live[i].p == p) {
      live[i].p = NULL;
      return;
    }
}
void *
__wrap_malloc(size_t n) {
  void *p = __real_malloc(n);
  t_add(p, n);
  return p;
}
void *
__wrap_calloc(size_t a, size_t b) {
  void *p = __real_calloc(a, b);
  t_add(p, a * b);
  return p;
}
void *
__wrap_realloc(void *o, size_t n) {
  void *p = __real_realloc(o, n);
  if (p) {
    t_del(o);
    t_add(p, n);
  }
  return p;
}
void
__wrap_free(void *p) {
  t_del(p);
  __real_free(p);
}

/* ---- client callbacks ---- */
static int got_block_fail;
static int got_response_code = -1;

static int
event_handler(coap_session_t *s, coap_event_t ev) {
  (void)s;
  if (ev == COAP_EVENT_XMIT_BLOCK_FAIL)
    got_block_fail = 1;
  return 0;
}

static coap_response_t
response_handler(coap_session_t *s, const coap_pdu_t *sent,
                 const coap_pdu_t *rcvd, const coap_mid_t mid) {
  (void)s;
  (void)sent;
  (void)mid;
  got_response_code = coap_pdu_get_code(rcvd);
  return COAP_RESPONSE_OK;
}

int
main(void) {
  static uint8_t body[200];
  uint8_t req[2048], ack[64];
  struct sockaddr_in sin, peer;
  socklen_t sl = sizeof(sin), pl = sizeof(peer);
  coap_address_t dst;
  coap_context_t *ctx;
  coap_session_t *session;
  coap_pdu_t *pdu;
  ssize_t n;
  int srv, leaked = 0;
  size_t tkl, alen;

  setvbuf(stdout, NULL, _IONBF, 0);
  setvbuf(stderr, NULL, _IONBF, 0);
  memset(body, 'x', sizeof(body));

  /* the "server": a plain UDP socket in this process */
  srv = socket(AF_INET, SOCK_DGRAM, 0);
  memset(&sin, 0, sizeof(sin));
  sin.sin_family = AF_INET;
  sin.sin_addr.s_addr = htonl(INADDR_LOOPBACK);
  if (bind(srv, (struct sockaddr *)&sin, sizeof(sin)) < 0 ||
      getsockname(srv, (struct sockaddr *)&sin, &sl) < 0) {
    perror("bind");
    return 2;
  }

  coap_startup();
  coap_set_log_level(COAP_LOG_INFO);
  /* warm up anything lazily allocated by logging before tracking starts */
  coap_log_info("replay: server on port %u\n", ntohs(sin.sin_port));

  tracking = 1;

  ctx = coap_new_context(NULL);
  coap_context_set_block_mode(ctx, COAP_BLOCK_USE_LIBCOAP);
  coap_register_event_handler(ctx, event_handler);
  coap_register_response_handler(ctx, response_handler);

  coap_address_init(&dst);
  dst.size = sizeof(struct sockaddr_in);
  memcpy(&dst.addr.sin, &sin, sizeof(sin));
  session = coap_new_client_session(ctx, NULL, &dst, COAP_PROTO_UDP);
  if (!session)
    return 2;

  pdu = coap_new_pdu(COAP_MESSAGE_CON, COAP_REQUEST_CODE_PUT, session);
  {
    uint8_t tok[8];
    size_t tl;
    coap_session_new_token(session, &tl, tok);
    coap_add_token(pdu, tl, tok);
  }
  coap_add_option(pdu, COAP_OPTION_URI_PATH, 1, (const uint8_t *)"r");
  {
    /* preferred block size 64 (SZX 2), as coap-client -b 64 does */
    uint8_t b1 = (0 << 4) | (0 << 3) | 2;
    coap_add_option(pdu, COAP_OPTION_BLOCK1, 1, &b1);
  }
  if (!coap_add_data_large_request(session, pdu, sizeof(body), body, NULL, NULL))
    return 2;
  if (coap_send(session, pdu) == COAP_INVALID_MID)
    return 2;

  /* server side: read block 0 request */
  {
    struct pollfd pfd = { srv, POLLIN, 0 };
    if (poll(&pfd, 1, 2000) != 1) {
      fprintf(stderr, "no request seen\n");
      return 2;
    }
  }
  n = recvfrom(srv, req, sizeof(req), 0, (struct sockaddr *)&peer, &pl);
  if (n < 4)
    return 2;
  tkl = req[0] & 0x0f;
  printf("server: got %zd byte request, type=%u code=%u.%02u tkl=%zu\n", n,
         (req[0] >> 4) & 3, req[1] >> 5, req[1] & 0x1f, tkl);

  /* ACK, 2.31 Continue, same MID + token, Block1(27) = NUM 0 / M 1 / SZX 6 */
  alen = 0;
  ack[alen++] = 0x60 | (uint8_t)tkl; /* ver 1, ACK */
  ack[alen++] = (2 << 5) | 31;       /* 2.31 */
  ack[alen++] = req[2];
  ack[alen++] = req[3];
  memcpy(ack + alen, req + 4, tkl);
  alen += tkl;
  ack[alen++] = 0xd1;                /* delta 13+14 = 27, length 1 */
  ack[alen++] = 27 - 13;
  ack[alen++] = (0 << 4) | (1 << 3) | 6;
  sendto(srv, ack, alen, 0, (struct sockaddr *)&peer, pl);

  coap_io_process(ctx, 500);
  coap_io_process(ctx, 100);

  printf("client: XMIT_BLOCK_FAIL event=%d, response code seen by app=%d.%02d\n",
         got_block_fail, got_response_code >> 5, got_response_code & 0x1f);

  coap_session_release(session);
  coap_free_context(ctx);
  coap_cleanup();
  tracking = 0;
  close(srv);

  for (int i = 0; i < NTRACK; i++)
    if (live[i].p) {
      printf("LEAK: %zu bytes at %p still allocated after coap_free_context()\n",
             live[i].n, live[i].p);
      leaked++;
      live[i].p = NULL; /* forget it so valgrind/LSan also see it as lost */
    }

  if (!got_block_fail) {
    printf("RESULT: failing path not reached\n");
    return 2;
  }
  if (leaked) {
    printf("RESULT: LEAK (%d live allocations)\n", leaked);
    return 1;
  }
  printf("RESULT: clean, no leak\n");
  return 0;
}
