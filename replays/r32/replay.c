/*
 * replay.c - check_freshness() (src/coap_block.c) overwrites the local `opt`
 *            (Echo option of the received 4.01) with the Observe option of the
 *            request it re-sends (NULL if there is none), and uses `opt` again at
 *            `not_sent:` when coap_send_internal() fails.
 *
 * One process: libcoap OSCORE server (RFC 8613 Appendix B.1.2 on = default of
 * the conf parser) + libcoap OSCORE client, loopback UDP, client context with
 * COAP_BLOCK_USE_LIBCOAP.  Only public API is used to DRIVE the library;
 * internal headers are used to PRINT state (session->echo, lg_crcv->state_token,
 * association->sent_pdu).  The library source is not modified.
 *
 * Build (library first, see NOTES.md):
 *   cd /tmp/rp/nb1
 *   cc -g -O1 -Wno-deprecated-declarations -DHAVE_CONFIG_H -I_build -Iinclude -I_build/include \
 *      -Wl,--wrap=malloc -Wl,--wrap=calloc -Wl,--wrap=realloc \
 *      OUT/replay.c _build/libcoap-3.a -lgnutls -lpthread -o OUT/replay
 *   ASan:
 *   clang -fsanitize=address -g -Wno-deprecated-declarations -DHAVE_CONFIG_H -I_build_asan -Iinclude \
 *      -I_build_asan/include -Wl,--wrap=malloc -Wl,--wrap=calloc -Wl,--wrap=realloc \
 *      OUT/replay.c _build_asan/libcoap-3.a -lgnutls -lpthread -o OUT/replay_asan
 *
 * Run:   OUT/replay SCENARIO INJECTION
 *
 *  SCENARIO (how the client gets a protected 4.01 + Echo into check_freshness()):
 *   first  first request of a fresh client.  The OSCORE layer itself answers the
 *          4.01 (coap_oscore_decrypt_pdu() -> coap_retransmit_oscore_pdu(),
 *          because association->sent_pdu is set) - check_freshness() is NOT
 *          reached.  Kept to show that.
 *   a      claim (a), request WITHOUT Observe:
 *          1. client sends NON GET /r, token a1b2; the datagram is lost
 *             (nothing but a plain UDP socket listens yet)
 *          2. the server comes up (fresh OSCORE context => B.1.2 pending)
 *          3. the application repeats the request with the SAME token.  The
 *             OSCORE association of that token still exists (client side
 *             associations are only removed by a response), it is "refreshed"
 *             and its sent_pdu becomes NULL
 *          4. server answers 4.01 + Echo; OSCORE layer has no sent_pdu, hands
 *             the 4.01 up; coap_handle_response_get_block() -> check_freshness()
 *   b      claim (b), request WITH Observe:
 *          1. client registers an Observe (CON GET, Observe:0) - works
 *             (4.01/Echo round trip done by the OSCORE layer, 2.05 delivered)
 *          2. the server dies and restarts (instance 1 runs in a child that
 *             is SIGKILLed; instance 2 is a new context, same port/keys)
 *          3. application calls coap_cancel_observe(): GET Observe:1 with the
 *             token of the observation => existing association, sent_pdu NULL
 *          4. restarted server answers 4.01 + Echo -> check_freshness()
 *   a-obs / a-obs1   as `a` but the request carries Observe (empty value /
 *          one byte 0x00): used for the second claim (misplaced parenthesis)
 *
 *  INJECTION (how coap_send_internal() of the re-sent request is made to fail):
 *   none       nothing: control run, exchange completes, exit 0
 *   ssn        the client's OSCORE Sender Sequence Number (start_seq_num that an
 *              application restores from non-volatile memory, 4th parameter of
 *              coap_new_oscore_conf()) is such that the re-send is the first
 *              request that hits OSCORE_SEQ_MAX: oscore_increment_sender_seq()
 *              refuses, "OSCORE: PDU could not be encrypted", COAP_INVALID_MID.
 *              NO allocation failure involved.
 *   malloc K   the K-th allocation after the server has answered 4.01 fails
 *   sweep      fork `malloc K` for K = 1..90 and list the outcomes
 *
 * Exit: crash / sanitizer report / 1 = defect observed, 0 = not observed.
 */
#include "coap3/coap_libcoap_build.h"

#include <stdio.h>
#include <stdlib.h>
#include <string.h>
#include <poll.h>
#include <fcntl.h>
#include <signal.h>
#include <unistd.h>
#include <sys/wait.h>
#include <sys/socket.h>
#include <arpa/inet.h>
#include "oscore/oscore_context.h"

/* ---- allocation failure injection (only armed in `malloc K` mode) ---- */
void *__real_malloc(size_t);
void *__real_calloc(size_t, size_t);
void *__real_realloc(void *, size_t);
static volatile long fail_at = 0;   /* 0 = never */
static volatile long alloc_cnt = 0;
static volatile int armed = 0;
static volatile int fired = 0;

static int
should_fail(void) {
  if (!armed || !fail_at)
    return 0;
  if (++alloc_cnt == fail_at) {
    fired = 1;
    return 1;
  }
  return 0;
}
void *
__wrap_malloc(size_t n) {
  return should_fail() ? NULL : __real_malloc(n);
}
void *
__wrap_calloc(size_t a, size_t b) {
  return should_fail() ? NULL : __real_calloc(a, b);
}
void *
__wrap_realloc(void *p, size_t n) {
  return should_fail() ? NULL : __real_realloc(p, n);
}

/* ---- */
#define PORT 56831

static const char srv_conf[] =
    "master_secret,hex,\"0102030405060708090a0b0c0d0e0f10\"\n"
    "master_salt,hex,\"9e7ca92223786340\"\n"
    "sender_id,hex,\"01\"\n"
    "recipient_id,hex,\"\"\n";
static const char cli_conf[] =
    "master_secret,hex,\"0102030405060708090a0b0c0d0e0f10\"\n"
    "master_salt,hex,\"9e7ca92223786340\"\n"
    "sender_id,hex,\"\"\n"
    "recipient_id,hex,\"01\"\n";

static int got_response = 0;
static int response_code = 0;
static int srv_requests = 0;
static coap_address_t addr;

static void
hnd_get(coap_resource_t *r, coap_session_t *s, const coap_pdu_t *req,
        const coap_string_t *q, coap_pdu_t *rsp) {
  (void)r;
  (void)s;
  (void)req;
  (void)q;
  srv_requests++;
  coap_pdu_set_code(rsp, COAP_RESPONSE_CODE_CONTENT);
  coap_add_data(rsp, 2, (const uint8_t *)"hi");
}

static coap_response_t
hnd_rsp(coap_session_t *s, const coap_pdu_t *sent, const coap_pdu_t *rcvd,
        const coap_mid_t mid) {
  (void)s;
  (void)sent;
  (void)mid;
  got_response++;
  response_code = coap_pdu_get_code(rcvd);
  return COAP_RESPONSE_OK;
}

static void
dump(const char *what, const uint8_t *p, size_t n) {
  size_t i;
  printf("%s (%zu bytes):", what, n);
  for (i = 0; i < n; i++)
    printf(" %02x", p[i]);
  printf("\n");
}

static coap_context_t *
new_server(void) {
  coap_context_t *sctx = coap_new_context(NULL);
  coap_str_const_t cm;
  coap_oscore_conf_t *oc;
  coap_resource_t *res;

  cm.s = (const uint8_t *)srv_conf;
  cm.length = strlen(srv_conf);
  oc = coap_new_oscore_conf(cm, NULL, NULL, 0);
  if (!sctx || !oc || !coap_context_oscore_server(sctx, oc)) {
    printf("server oscore setup failed\n");
    exit(2);
  }
  if (!coap_new_endpoint(sctx, &addr, COAP_PROTO_UDP)) {
    printf("endpoint failed\n");
    exit(2);
  }
  res = coap_resource_init(coap_make_str_const("r"), 0);
  coap_register_request_handler(res, COAP_REQUEST_GET, hnd_get);
  coap_resource_set_get_observable(res, 1);
  coap_add_resource(sctx, res);
  return sctx;
}

static void
wait_readable(coap_context_t *ctx) {
  struct pollfd pfd;
  pfd.fd = coap_context_get_coap_fd(ctx);
  pfd.events = POLLIN;
  poll(&pfd, 1, 1000);
}

static void
show_assoc(coap_session_t *sess) {
  oscore_association_t *a, *tmp;
  HASH_ITER(hh, sess->associations, a, tmp) {
    printf("  client association token=");
    for (size_t i = 0; i < a->token->length; i++)
      printf("%02x", a->token->s[i]);
    printf(" is_observe=%d sent_pdu=%s\n", a->is_observe,
           a->sent_pdu ? "set" : "NULL");
  }
}

static int
run(const char *scen, const char *inj, long k) {
  coap_context_t *sctx = NULL, *cctx;
  coap_session_t *sess;
  coap_oscore_conf_t *oc;
  coap_str_const_t cm;
  coap_pdu_t *pdu;
  uint64_t start_seq = 0;
  uint8_t token[2] = { 0xa1, 0xb2 };
  coap_binary_t tokbin = { sizeof(token), token };
  uint64_t state_token_before = 0;
  int i;
  int ssn = strcmp(inj, "ssn") == 0;
  int scen_first = strcmp(scen, "first") == 0;
  int scen_b = strcmp(scen, "b") == 0;
  int scen_a = strncmp(scen, "a", 1) == 0;
  const char *obs = scen_a && scen[1] == '-' ? scen + 2 : NULL;
  pid_t srv1 = -1;
  int n_before; /* protected requests the client sends before the re-send in question */

  if (!scen_first && !scen_a && !scen_b)
    return 2;
  n_before = scen_first ? 1 : scen_a ? 2 : 3;

  coap_startup();
  coap_set_log_level(getenv("REPLAY_LOG") ? (coap_log_t)atoi(getenv("REPLAY_LOG")) : COAP_LOG_WARN);

  coap_address_init(&addr);
  addr.addr.sin.sin_family = AF_INET;
  addr.addr.sin.sin_port = htons(PORT);
  addr.addr.sin.sin_addr.s_addr = htonl(INADDR_LOOPBACK);
  addr.size = sizeof(struct sockaddr_in);

  /* client */
  cctx = coap_new_context(NULL);
  coap_context_set_block_mode(cctx, COAP_BLOCK_USE_LIBCOAP);
  coap_register_response_handler(cctx, hnd_rsp);
  if (ssn) {
    /*
     * The n_before requests use OSCORE_SEQ_MAX-1-n_before .. OSCORE_SEQ_MAX-2,
     * the re-send with Echo would use OSCORE_SEQ_MAX-1 and
     * oscore_increment_sender_seq() then reports exhaustion.
     */
    start_seq = OSCORE_SEQ_MAX - 1 - n_before;
  }
  cm.s = (const uint8_t *)cli_conf;
  cm.length = strlen(cli_conf);
  oc = coap_new_oscore_conf(cm, NULL, NULL, start_seq);
  sess = coap_new_client_session_oscore(cctx, NULL, &addr, COAP_PROTO_UDP, oc);
  if (!sess) {
    printf("client session failed\n");
    return 2;
  }

  if (scen_a) {
    /* 1. request that gets lost: only a plain UDP socket is listening */
    int bh = socket(AF_INET, SOCK_DGRAM, 0);
    char buf[2048];
    if (bind(bh, (struct sockaddr *)&addr.addr.sin, sizeof(addr.addr.sin)) < 0) {
      perror("bind");
      return 2;
    }
    pdu = coap_new_pdu(COAP_MESSAGE_NON, COAP_REQUEST_CODE_GET, sess);
    coap_add_token(pdu, sizeof(token), token);
    if (obs && strcmp(obs, "obs") == 0)
      coap_add_option(pdu, COAP_OPTION_OBSERVE, 0, NULL);
    else if (obs && strcmp(obs, "obs1") == 0)
      coap_add_option(pdu, COAP_OPTION_OBSERVE, 1, (const uint8_t *)"\0");
    coap_add_option(pdu, COAP_OPTION_URI_PATH, 1, (const uint8_t *)"r");
    if (coap_send(sess, pdu) == COAP_INVALID_MID) {
      printf("coap_send #1 failed\n");
      return 2;
    }
    printf("request #1 sent, lost (%zd bytes swallowed)\n", recv(bh, buf, sizeof(buf), 0));
    close(bh);
    show_assoc(sess);
    /* 2. server comes up */
    sctx = new_server();
    /* 3. same request again, same token */
    pdu = coap_new_pdu(COAP_MESSAGE_NON, COAP_REQUEST_CODE_GET, sess);
    coap_add_token(pdu, sizeof(token), token);
    if (obs && strcmp(obs, "obs") == 0)
      coap_add_option(pdu, COAP_OPTION_OBSERVE, 0, NULL);
    else if (obs && strcmp(obs, "obs1") == 0)
      coap_add_option(pdu, COAP_OPTION_OBSERVE, 1, (const uint8_t *)"\0");
    coap_add_option(pdu, COAP_OPTION_URI_PATH, 1, (const uint8_t *)"r");
    if (coap_send(sess, pdu) == COAP_INVALID_MID) {
      printf("coap_send #2 failed\n");
      return 2;
    }
    printf("request #2 (same token) sent\n");
    show_assoc(sess);
  } else if (scen_b) {
    /*
     * 1. Observe registration against server instance 1.  Instance 1 lives in
     *    a child process so that it can die without saying goodbye (a graceful
     *    coap_free_context() would send a 4.04 notification to the observer).
     */
    int pfd[2];
    char c;
    if (pipe(pfd) < 0)
      return 2;
    srv1 = fork();
    if (srv1 == 0) {
      coap_context_t *s1 = new_server();
      if (write(pfd[1], "r", 1) != 1)
        _exit(2);
      while (1)
        coap_io_process(s1, 50);
    }
    if (read(pfd[0], &c, 1) != 1)
      return 2;
    pdu = coap_new_pdu(COAP_MESSAGE_CON, COAP_REQUEST_CODE_GET, sess);
    coap_add_token(pdu, sizeof(token), token);
    coap_add_option(pdu, COAP_OPTION_OBSERVE, 0, NULL);
    coap_add_option(pdu, COAP_OPTION_URI_PATH, 1, (const uint8_t *)"r");
    if (coap_send(sess, pdu) == COAP_INVALID_MID) {
      printf("coap_send (register) failed\n");
      return 2;
    }
    for (i = 0; i < 20 && !got_response; i++)
      coap_io_process(cctx, 50);
    printf("Observe registered: got_response=%d code=%d.%02d\n", got_response,
           response_code >> 5, response_code & 0x1f);
    if (!got_response)
      return 2;
    got_response = 0;
    coap_io_process(cctx, 50);
    show_assoc(sess);
    /* 2. server dies and restarts */
    kill(srv1, SIGKILL);
    waitpid(srv1, NULL, 0);
    sctx = new_server();
    printf("server killed and restarted\n");
    /* 3. application cancels the observation */
    if (!coap_cancel_observe(sess, &tokbin, COAP_MESSAGE_CON)) {
      printf("coap_cancel_observe failed\n");
      return 2;
    }
    printf("coap_cancel_observe() sent GET Observe:1\n");
    show_assoc(sess);
  } else {
    sctx = new_server();
    pdu = coap_new_pdu(COAP_MESSAGE_CON, COAP_REQUEST_CODE_GET, sess);
    coap_add_token(pdu, sizeof(token), token);
    coap_add_option(pdu, COAP_OPTION_URI_PATH, 1, (const uint8_t *)"r");
    if (coap_send(sess, pdu) == COAP_INVALID_MID) {
      printf("coap_send failed\n");
      return 2;
    }
    show_assoc(sess);
  }

  if (sess->lg_crcv) {
    state_token_before = sess->lg_crcv->state_token;
    printf("lg_crcv exists, state_token=%016llx\n",
           (unsigned long long)state_token_before);
  } else {
    printf("no lg_crcv\n");
  }

  /* server: receives the request, answers 4.01 + Echo (Appendix B.1.2) */
  coap_io_process(sctx, 100);
  wait_readable(cctx);
  printf("server answered; resource handler calls so far: %d (0 => it was the 4.01)\n",
         srv_requests);
  fflush(stdout);

  /* client: receives 4.01 + Echo */
  fail_at = strcmp(inj, "malloc") == 0 ? k : 0;
  alloc_cnt = 0;
  armed = 1;
  coap_io_process(cctx, 100);
  armed = 0;

  printf("client processed the 4.01 (alloc failure fired=%d)\n", fired);
  if (sess->echo)
    dump("session->echo", sess->echo->s, sess->echo->length);
  else
    printf("session->echo = NULL\n");
  if (sess->lg_crcv)
    printf("lg_crcv state_token now %016llx (%s)\n",
           (unsigned long long)sess->lg_crcv->state_token,
           sess->lg_crcv->state_token == state_token_before ? "unchanged" : "updated");
  fflush(stdout);

  /* a remembered Echo that is not the server's 8 byte Echo value is the defect */
  if (sess->echo && sess->echo->length != 8) {
    printf("DEFECT: session->echo is not the Echo value of the 4.01 "
           "(it was taken from the Observe option of the already freed request)\n");
    return 1;
  }

  /* let things finish */
  for (i = 0; i < 6 && !got_response; i++) {
    coap_io_process(sctx, 50);
    coap_io_process(cctx, 50);
  }
  printf("got_response=%d code=%d.%02d server handler calls=%d\n", got_response,
         response_code >> 5, response_code & 0x1f, srv_requests);
  coap_session_release(sess);
  coap_free_context(cctx);
  coap_free_context(sctx);
  coap_cleanup();
  return 0;
}

int
main(int argc, char **argv) {
  const char *scen = argc > 1 ? argv[1] : "a";
  const char *inj = argc > 2 ? argv[2] : "ssn";

  setvbuf(stdout, NULL, _IOLBF, 0);
  if (strcmp(inj, "sweep") == 0) {
    long k;
    int bad = 0;
    for (k = 1; k <= 90; k++) {
      pid_t p = fork();
      int st;
      if (p == 0) {
        int fd = open("/dev/null", O_WRONLY);
        dup2(fd, 1);
        dup2(fd, 2);
        _exit(run(scen, "malloc", k));
      }
      waitpid(p, &st, 0);
      if (WIFSIGNALED(st)) {
        printf("K=%ld: killed by signal %d (%s)\n", k, WTERMSIG(st),
               strsignal(WTERMSIG(st)));
        bad++;
      } else if (WEXITSTATUS(st) != 0) {
        printf("K=%ld: exit %d\n", k, WEXITSTATUS(st));
        bad++;
      }
    }
    printf("sweep: %d of 90 injection points end in a crash / defect exit\n", bad);
    return bad ? 1 : 0;
  }
  if (strcmp(inj, "malloc") == 0)
    return run(scen, inj, argc > 3 ? atol(argv[3]) : 1);
  if (strcmp(inj, "ssn") == 0 || strcmp(inj, "none") == 0)
    return run(scen, inj, 0);
  fprintf(stderr, "usage: %s first|a|a-obs|a-obs1|b none|ssn|malloc K|sweep\n", argv[0]);
  return 2;
}
