/*
 * C18: the GnuTLS back end grows its per-SNI credential cache with
 *     g_context->psk_sni_entry_list = gnutls_realloc(g_context->psk_sni_entry_list, (i+1)*sizeof(psk_sni_entry));
 *     g_context->psk_sni_entry_list[i].sni = gnutls_strdup(name);
 * (post_client_hello_gnutls_psk; the PKI twin does the same with pki_sni_entry_list).  The result is neither tested nor kept apart from
 * the old pointer: when that reallocation fails, the next statement writes through NULL (and the cache built so far is lost).
 *
 * The replay: one process, a DTLS/PSK libcoap server with an SNI callback and a DTLS/PSK libcoap client that sends SNI "good.example".
 * GnuTLS exports its allocator as the variable gnutls_realloc; the replay points it at a function that fails exactly the first call made
 * after the application's SNI callback returned -- which is the cache growth above.
 *
 * build: cc -Wno-deprecated-declarations -I/repo/_build/include -I/repo/include replays/r18.c /repo/_build/libcoap-3.a -lgnutls -lpthread -o /tmp/r18 ; /tmp/r18
 *   before the fix: "FAIL: child died with signal 11"; after: the handshake fails cleanly (or, without the injected failure, succeeds), "OK", exit 0
 */
#include <coap3/coap.h>
#include <gnutls/gnutls.h>

#include <arpa/inet.h>
#include <netinet/in.h>
#include <stdio.h>
#include <stdlib.h>
#include <string.h>
#include <sys/wait.h>
#include <unistd.h>

static const uint8_t the_key[] = "sharedsecret";
static const uint8_t the_hint[] = "hint";
static const uint8_t the_id[] = "client1";
static coap_dtls_spsk_info_t good_info;
static int inject, fail_next, failed, sni_calls, srv_requests, cli_responses;
static uint16_t port;

static void *
my_realloc(void *p, size_t n) {
  if (fail_next) {
    fail_next = 0;
    failed++;
    return NULL;
  }
  return realloc(p, n);
}

static const coap_dtls_spsk_info_t *
sni_cb(const char *sni, coap_session_t *session, void *arg) {
  (void)session;
  (void)arg;
  (void)sni;
  sni_calls++;
  if (inject)
    fail_next = 1;   /* the next gnutls_realloc() is the growth of the SNI cache */
  return &good_info;
}

static void
hnd_get(coap_resource_t *resource, coap_session_t *session, const coap_pdu_t *request,
        const coap_string_t *query, coap_pdu_t *response) {
  (void)resource;
  (void)session;
  (void)request;
  (void)query;
  srv_requests++;
  coap_pdu_set_code(response, COAP_RESPONSE_CODE_CONTENT);
}

static coap_response_t
cli_response(coap_session_t *session, const coap_pdu_t *sent, const coap_pdu_t *received, const coap_mid_t mid) {
  (void)session;
  (void)sent;
  (void)received;
  (void)mid;
  cli_responses++;
  return COAP_RESPONSE_OK;
}

static int
scenario(int with_failure) {
  coap_context_t *srv, *cli;
  coap_dtls_spsk_t spsk;
  coap_dtls_cpsk_t cpsk;
  coap_address_t addr;
  coap_resource_t *r;
  coap_session_t *s;
  coap_pdu_t *pdu;
  char sni_buf[32] = "good.example";
  int i;

  inject = with_failure;
  coap_startup();
  coap_set_log_level(COAP_LOG_ERR);
  coap_dtls_set_log_level(COAP_LOG_EMERG);
  gnutls_realloc = my_realloc;

  good_info.hint.s = the_hint;
  good_info.hint.length = sizeof(the_hint) - 1;
  good_info.key.s = the_key;
  good_info.key.length = sizeof(the_key) - 1;

  srv = coap_new_context(NULL);
  memset(&spsk, 0, sizeof(spsk));
  spsk.version = COAP_DTLS_SPSK_SETUP_VERSION;
  spsk.validate_sni_call_back = sni_cb;
  spsk.psk_info = good_info;
  if (!srv || !coap_context_set_psk2(srv, &spsk))
    return 2;
  coap_address_init(&addr);
  addr.addr.sin.sin_family = AF_INET;
  addr.addr.sin.sin_addr.s_addr = htonl(INADDR_LOOPBACK);
  addr.addr.sin.sin_port = htons(port);
  addr.size = sizeof(struct sockaddr_in);
  if (!coap_new_endpoint(srv, &addr, COAP_PROTO_DTLS))
    return 2;
  r = coap_resource_init(coap_make_str_const("r"), 0);
  coap_register_handler(r, COAP_REQUEST_GET, hnd_get);
  coap_add_resource(srv, r);

  cli = coap_new_context(NULL);
  coap_register_response_handler(cli, cli_response);
  memset(&cpsk, 0, sizeof(cpsk));
  cpsk.version = COAP_DTLS_CPSK_SETUP_VERSION;
  cpsk.client_sni = sni_buf;
  cpsk.psk_info.identity.s = the_id;
  cpsk.psk_info.identity.length = sizeof(the_id) - 1;
  cpsk.psk_info.key.s = the_key;
  cpsk.psk_info.key.length = sizeof(the_key) - 1;
  s = coap_new_client_session_psk2(cli, NULL, &addr, COAP_PROTO_DTLS, &cpsk);
  if (!s)
    return 2;
  pdu = coap_new_pdu(COAP_MESSAGE_CON, COAP_REQUEST_CODE_GET, s);
  coap_add_option(pdu, COAP_OPTION_URI_PATH, 1, (const uint8_t *)"r");
  coap_send(s, pdu);
  for (i = 0; i < 60 && !cli_responses; i++) {
    coap_io_process(cli, 20);
    coap_io_process(srv, 20);
  }
  fprintf(stderr, "  sni callback calls=%d injected failures=%d server requests=%d client responses=%d\n",
          sni_calls, failed, srv_requests, cli_responses);
  coap_session_release(s);
  coap_free_context(cli);
  coap_free_context(srv);
  coap_cleanup();
  if (!with_failure && !cli_responses)
    return 3;            /* the control run has to work */
  if (with_failure && !failed)
    return 4;            /* the failure was not injected: the replay proves nothing */
  return 0;
}

int
main(void) {
  int w, bad = 0;

  port = (uint16_t)(21000 + (getpid() % 20000));
  for (w = 0; w <= 1; w++) {
    pid_t pid = fork();
    int st;

    if (pid == 0)
      _exit(scenario(w));
    waitpid(pid, &st, 0);
    port++;
    if (WIFSIGNALED(st)) {
      printf("FAIL: %s: child died with signal %d\n", w ? "SNI cache growth fails" : "control", WTERMSIG(st));
      bad = 1;
    } else if (WEXITSTATUS(st) != 0) {
      printf("HARNESS PROBLEM: %s: exit %d\n", w ? "SNI cache growth fails" : "control", WEXITSTATUS(st));
      bad = 2;
    } else {
      printf("%s: survived\n", w ? "SNI cache growth fails" : "control (no failure)");
    }
  }
  if (bad)
    return bad;
  printf("OK\n");
  return 0;
}
