#include <coap3/coap.h>
#include <stdio.h>
#include <string.h>
int main(void){
  coap_startup();
  /* C03: option delta 0xE0 0xFE 0xFF => 65548, must be rejected */
  uint8_t msg[] = {0x40,0x01,0x12,0x34, 0xE0,0xFE,0xFF};
  coap_pdu_t *p = coap_pdu_init(0,0,0,100);
  int r = coap_pdu_parse(COAP_PROTO_UDP,msg,sizeof(msg),p);
  printf("C03 parse=%d\n", r);
  if (r){ coap_opt_iterator_t oi; coap_option_iterator_init(p,&oi,COAP_OPT_ALL); coap_opt_t *o; while((o=coap_option_next(&oi))) printf("  option number %u len %u\n", oi.number, coap_opt_length(o)); }
  coap_delete_pdu(p);
  /* C04: update token to 300 bytes keeps options */
  p = coap_pdu_init(COAP_MESSAGE_CON, COAP_REQUEST_CODE_GET, 1, 2000);
  uint8_t tok[300]; memset(tok,0xAB,sizeof tok);
  coap_add_token(p, 2, tok);
  coap_add_option(p, COAP_OPTION_URI_PATH, 3, (const uint8_t*)"abc");
  coap_add_data(p, 2, (const uint8_t*)"hi");
  int u = coap_update_token(p, 300, tok);
  coap_opt_iterator_t oi; int n=0; coap_option_iterator_init(p,&oi,COAP_OPT_ALL); while(coap_option_next(&oi)) n++;
  coap_bin_const_t t = coap_pdu_get_token(p);
  printf("C04 update=%d options after=%d token_len=%zu\n", u, n, t.length);
  coap_delete_pdu(p);
  coap_cleanup();
  return 0; }
