/*
 * C12 (C09): coap_block_build_body(body_data, length, data, offset, total) is called as
 *     lg_srcv->body_data = coap_block_build_body(lg_srcv->body_data, length, data, ...);
 * On its error paths it returns NULL; when the reallocation fails it deletes body_data first, but for `data == NULL` it returns NULL and
 * leaves body_data alone -- the caller then overwrites its only pointer to the body collected so far.  data is NULL whenever a block
 * arrives without a payload, which a peer can send at any time: Block1 NUM 0 with 16 bytes, then Block1 NUM 1 with no payload at all.
 * The partial body (here 16 bytes + header, in general everything received so far) is never freed, not even by coap_free_context().
 *
 * build: cc -Wno-deprecated-declarations -I/repo/_build -I/repo/include -I/repo/_build/include replays/r20.c /repo/_build/libcoap-3.a \
 *           -Wl,--wrap=malloc -Wl,--wrap=free -Wl,--wrap=realloc -Wl,--wrap=calloc -lgnutls -lpthread -o /tmp/r20 ; /tmp/r20
 *   before the fix: "FAIL: 1 block(s) still allocated after coap_free_context()" (the coap_binary_t of the body); after: "OK"
 */
#include "coap3/coap_libcoap_build.h"

#include <arpa/inet.h>
#include <netinet/in.h>
#include <stdio.h>
#include <stdlib.h>
#include <string.h>
#include <sys/socket.h>
#include <unistd.h>

/* ---- allocation ledger (only while armed) ---- */
#define MAXP 4096
static void *ptrs[MAXP];
static size_t sizes[MAXP];
static int armed;
void *__real_malloc(size_t n);
void *__real_calloc(size_t a, size_t b);
void *__real_realloc(void *p, size_t n);
void __real_free(void *p);
static void
note(void *p, size_t n) {
  int i;
  if (!armed || !p)
    return;
  for (i = 0; i < MAXP; i++)
    if (!ptrs[i]) {
      ptrs[i] = p;
      sizes[i] = n;
      return;
    }
}
static void
forget(void *p) {
  int i;
  if (!p)
    return;
  for (i = 0; i < MAXP; i++)
    if (ptrs[i] == p) {
      ptrs[i] = NULL;
      return;
    }
}
void *__wrap_malloc(size_t n) { void *p = __real_malloc(n); note(p, n); return p; }
void *__wrap_calloc(size_t a, size_t b) { void *p = __real_calloc(a, b); note(p, a * b); return p; }
void *__wrap_realloc(void *o, size_t n) { void *p = __real_realloc(o, n); if (p) { forget(o); note(p, n); } return p; }
void __wrap_free(void *p) { forget(p); __real_free(p); }

static int handler_calls;
static void
hnd_put(coap_resource_t *r, coap_session_t *s, const coap_pdu_t *req, const coap_string_t *q, coap_pdu_t *rsp) {
  (void)r;
  (void)s;
  (void)req;
  (void)q;
  handler_calls++;
  coap_pdu_set_code(rsp, COAP_RESPONSE_CODE_CHANGED);
}

int
main(void) {
  coap_context_t *ctx;
  coap_address_t addr;
  coap_resource_t *res;
  uint16_t port = (uint16_t)(20000 + (getpid() % 20000));
  struct sockaddr_in to;
  int fd, i, left = 0;
  /* CON PUT mid 0x1001 token aa, Uri-Path "x", Block1 NUM 0 M=1 SZX 0 (16 byte blocks), 16 bytes of payload */
  uint8_t b0[] = { 0x41, 0x03, 0x10, 0x01, 0xaa, 0xb1, 'x', 0xd1, 0x03, 0x08, 0xff,
                   1, 2, 3, 4, 5, 6, 7, 8, 9, 10, 11, 12, 13, 14, 15, 16 };
  /* CON PUT mid 0x1002 token aa, Uri-Path "x", Block1 NUM 1 M=0 SZX 0, NO payload */
  uint8_t b1[] = { 0x41, 0x03, 0x10, 0x02, 0xaa, 0xb1, 'x', 0xd1, 0x03, 0x10 };

  coap_startup();
  coap_set_log_level(getenv("DBG") ? COAP_LOG_DEBUG : COAP_LOG_ERR);
  armed = 1;
  ctx = coap_new_context(NULL);
  coap_context_set_block_mode(ctx, COAP_BLOCK_USE_LIBCOAP | COAP_BLOCK_SINGLE_BODY);
  coap_address_init(&addr);
  addr.addr.sin.sin_family = AF_INET;
  addr.addr.sin.sin_addr.s_addr = htonl(INADDR_LOOPBACK);
  addr.addr.sin.sin_port = htons(port);
  addr.size = sizeof(struct sockaddr_in);
  if (!coap_new_endpoint(ctx, &addr, COAP_PROTO_UDP))
    return 2;
  res = coap_resource_init(coap_make_str_const("x"), 0);
  coap_register_handler(res, COAP_REQUEST_PUT, hnd_put);
  coap_add_resource(ctx, res);

  fd = socket(AF_INET, SOCK_DGRAM, 0);
  memset(&to, 0, sizeof(to));
  to.sin_family = AF_INET;
  to.sin_addr.s_addr = htonl(INADDR_LOOPBACK);
  to.sin_port = htons(port);
  sendto(fd, b0, sizeof(b0), 0, (struct sockaddr *)&to, sizeof(to));
  coap_io_process(ctx, 200);
  sendto(fd, b1, sizeof(b1), 0, (struct sockaddr *)&to, sizeof(to));
  coap_io_process(ctx, 200);
  coap_io_process(ctx, 50);
  close(fd);
  coap_free_context(ctx);
  coap_cleanup();
  armed = 0;
  for (i = 0; i < MAXP; i++)
    if (ptrs[i]) {
      left++;
      fprintf(stderr, "  still allocated: %p, %zu bytes\n", ptrs[i], sizes[i]);
    }
  fprintf(stderr, "handler calls: %d\n", handler_calls);
  if (left) {
    printf("FAIL: %d block(s) still allocated after coap_free_context()\n", left);
    return 1;
  }
  printf("OK\n");
  return 0;
}
