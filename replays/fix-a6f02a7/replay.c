/*
 * Replay for a6f02a7: handle_request() keeps a pointer to the Observe option
 * across coap_handle_request_put_block(), which rewrites (and re-allocates)
 * the request PDU when the last missing Block1 block of a body arrives.
 *
 * A libcoap server (public API only) exposes an observable resource "x" with
 * a FETCH handler and COAP_BLOCK_USE_LIBCOAP.  A plain UDP peer sends a
 * 2-block FETCH body with Observe:0 (register), blocks out of order:
 *   1) Block1 NUM=1 M=0, token = 8 bytes  A0 61 01 A3 A4 A5 A6 A7
 *   2) Block1 NUM=0 M=1, token = 1 byte   B0
 * When 2) completes the body, the library does
 *   coap_update_token(pdu, <8 byte token of 1)>)  -> token grows by 7 bytes,
 *   PDU buffer goes through realloc() and all options move 7 bytes up,
 * and handle_request() then decodes Observe through the stale pointer.
 *
 * Expected (a6f02a7): Observe:0 => observer registered, final response carries
 * an Observe option, resource has 1 subscriber.  exit 0.
 * Parent: - ASan build: heap-use-after-free in coap_opt_length()/handle_request
 *           (ASan's realloc always moves the block).
 *         - plain build (glibc realloc to the same size stays in place): the
 *           stale pointer now points at token bytes 61 01, which decode as an
 *           option of length 1 with value 1 = Observe "deregister"; no observer
 *           is registered, the response has no Observe option.  exit 1.
 *
 * Build + run (from /tmp/rp/a6f02a7):
 *   plain:
 *     cmake -G Ninja -S . -B _build -DENABLE_DOCS=OFF -DENABLE_TESTS=OFF -DENABLE_EXAMPLES=OFF \
 *           -DCMAKE_BUILD_TYPE=RelWithDebInfo >/dev/null && cmake --build _build --target coap-3
 *     cc -g -I_build -Iinclude -I_build/include OUT/replay.c _build/libcoap-3.a -lgnutls -lpthread -o OUT/replay
 *     OUT/replay; echo "exit=$?"
 *   ASan:
 *     cmake -G Ninja -S . -B _asan -DENABLE_DOCS=OFF -DENABLE_TESTS=OFF -DENABLE_EXAMPLES=OFF \
 *           -DCMAKE_BUILD_TYPE=RelWithDebInfo -DCMAKE_C_COMPILER=clang \
 *           -DCMAKE_C_FLAGS="-fsanitize=address -g" >/dev/null && cmake --build _asan --target coap-3
 *     clang -fsanitize=address -g -I_asan -Iinclude -I_asan/include OUT/replay.c _asan/libcoap-3.a \
 *           -lgnutls -lpthread -o OUT/replay_asan
 *     OUT/replay_asan; echo "exit=$?"
 *   (or simply: sh OUT/replay.sh)
 */
#include "coap3/coap_libcoap_build.h"   /* internal: only to OBSERVE resource->subscribers */

#include <arpa/inet.h>
#include <netinet/in.h>
#include <stdio.h>
#include <string.h>
#include <sys/socket.h>
#include <sys/time.h>
#include <unistd.h>

#define PORT 56830

static int handler_calls;
static int handler_saw_observe0;
static size_t handler_body_len;

static void
hnd_fetch(coap_resource_t *resource, coap_session_t *session,
          const coap_pdu_t *request, const coap_string_t *query,
          coap_pdu_t *response) {
  coap_opt_iterator_t oi;
  coap_opt_t *o;
  size_t len, off, tot;
  const uint8_t *d;
  (void)resource;
  (void)session;
  (void)query;

  handler_calls++;
  o = coap_check_option(request, COAP_OPTION_OBSERVE, &oi);
  if (o && coap_decode_var_bytes(coap_opt_value(o), coap_opt_length(o)) == 0)
    handler_saw_observe0 = 1;
  if (coap_get_data_large(request, &len, &d, &off, &tot))
    handler_body_len = tot;
  coap_pdu_set_code(response, COAP_RESPONSE_CODE_CONTENT);
  coap_add_data(response, 2, (const uint8_t *)"ok");
}

/* Build one FETCH block. Options: Observe(6) len 0, Uri-Path(11) "x",
 * Content-Format(12) = 0 (len 0), Block1(27). */
static size_t
build_block(uint8_t *b, uint16_t mid, const uint8_t *tok, size_t tkl,
            unsigned num, unsigned more, size_t dlen, uint8_t fill) {
  size_t n = 0;
  b[n++] = 0x40 | 0x10 | (uint8_t)tkl;      /* ver 1, NON, TKL */
  b[n++] = 0x05;                            /* FETCH */
  b[n++] = (uint8_t)(mid >> 8);
  b[n++] = (uint8_t)mid;
  memcpy(&b[n], tok, tkl);
  n += tkl;
  b[n++] = 0x60;                            /* Observe: delta 6, len 0 => 0 (register) */
  b[n++] = 0x51;                            /* Uri-Path: delta 5, len 1 */
  b[n++] = 'x';
  b[n++] = 0x10;                            /* Content-Format: delta 1, len 0 => text/plain */
  b[n++] = 0xd1;                            /* Block1: delta 13+2 = 15, len 1 */
  b[n++] = 0x02;
  b[n++] = (uint8_t)((num << 4) | (more << 3) | 0); /* szx 0 = 16 bytes */
  b[n++] = 0xff;
  memset(&b[n], fill, dlen);
  n += dlen;
  return n;
}

static void
run_io(coap_context_t *ctx, int rounds) {
  while (rounds--)
    coap_io_process(ctx, 50);
}

int
main(void) {
  coap_context_t *ctx;
  coap_address_t addr;
  coap_resource_t *r;
  struct sockaddr_in sa;
  struct timeval tv = { 0, 200000 };
  uint8_t buf[512];
  static const uint8_t tok_long[8] = { 0xA0, 0x61, 0x01, 0xA3, 0xA4, 0xA5, 0xA6, 0xA7 };
  static const uint8_t tok_short[1] = { 0xB0 };
  size_t n;
  int fd, fail = 0;
  int final_seen = 0, final_has_observe = 0, final_code = 0;
  unsigned subscribers = 0;
  coap_subscription_t *s;

  coap_startup();
  coap_set_log_level(COAP_LOG_WARN);
  ctx = coap_new_context(NULL);
  if (!ctx)
    return 2;
  coap_context_set_block_mode(ctx, COAP_BLOCK_USE_LIBCOAP);

  coap_address_init(&addr);
  addr.addr.sin.sin_family = AF_INET;
  addr.addr.sin.sin_port = htons(PORT);
  addr.addr.sin.sin_addr.s_addr = htonl(INADDR_LOOPBACK);
  addr.size = sizeof(struct sockaddr_in);
  if (!coap_new_endpoint(ctx, &addr, COAP_PROTO_UDP)) {
    fprintf(stderr, "cannot create endpoint\n");
    return 2;
  }

  r = coap_resource_init(coap_make_str_const("x"), 0);
  coap_register_request_handler(r, COAP_REQUEST_FETCH, hnd_fetch);
  coap_resource_set_get_observable(r, 1);
  coap_add_resource(ctx, r);

  /* the network peer */
  fd = socket(AF_INET, SOCK_DGRAM, 0);
  setsockopt(fd, SOL_SOCKET, SO_RCVTIMEO, &tv, sizeof(tv));
  memset(&sa, 0, sizeof(sa));
  sa.sin_family = AF_INET;
  sa.sin_port = htons(PORT);
  sa.sin_addr.s_addr = htonl(INADDR_LOOPBACK);
  if (connect(fd, (struct sockaddr *)&sa, sizeof(sa)) < 0)
    return 2;

  /* 1) last block first: NUM=1 M=0, 8 byte token, 5 bytes of data */
  n = build_block(buf, 0x1001, tok_long, sizeof(tok_long), 1, 0, 5, 'B');
  send(fd, buf, n, 0);
  run_io(ctx, 3);

  /* 2) missing first block: NUM=0 M=1, 1 byte token, 16 bytes of data */
  n = build_block(buf, 0x1002, tok_short, sizeof(tok_short), 0, 1, 16, 'A');
  send(fd, buf, n, 0);
  run_io(ctx, 3);

  /* collect what the server sent back */
  for (;;) {
    ssize_t len = recv(fd, buf, sizeof(buf), 0);
    coap_pdu_t *p;
    coap_opt_iterator_t oi;
    coap_bin_const_t t;

    if (len <= 0)
      break;
    p = coap_pdu_init(0, 0, 0, 512);
    if (!coap_pdu_parse(COAP_PROTO_UDP, buf, (size_t)len, p)) {
      coap_delete_pdu(p);
      continue;
    }
    t = coap_pdu_get_token(p);
    printf("peer got: code %d.%02d tkl=%zu observe=%s\n",
           coap_pdu_get_code(p) >> 5, coap_pdu_get_code(p) & 0x1f, t.length,
           coap_check_option(p, COAP_OPTION_OBSERVE, &oi) ? "yes" : "no");
    if (t.length == sizeof(tok_long) && memcmp(t.s, tok_long, t.length) == 0 &&
        coap_pdu_get_code(p) != 0) {
      final_seen = 1;
      final_code = coap_pdu_get_code(p);
      final_has_observe = coap_check_option(p, COAP_OPTION_OBSERVE, &oi) != NULL;
    }
    coap_delete_pdu(p);
  }

  LL_FOREACH(r->subscribers, s) subscribers++;

  printf("handler calls=%d body_total=%zu handler_saw_Observe0=%d\n",
         handler_calls, handler_body_len, handler_saw_observe0);
  printf("final response seen=%d code=%d.%02d has_Observe=%d; subscribers on resource=%u\n",
         final_seen, final_code >> 5, final_code & 0x1f, final_has_observe,
         subscribers);

  if (handler_calls != 1 || handler_body_len != 21 || !handler_saw_observe0) {
    printf("UNEXPECTED: scenario did not reach the handler as designed\n");
    fail = 3;
  } else if (!final_seen || !final_has_observe || subscribers != 1) {
    printf("FAIL: request carried Observe:0 (register) but no observer was "
           "registered / no Observe in response -> stale Observe pointer was decoded\n");
    fail = 1;
  } else {
    printf("OK: observer registered as requested\n");
  }

  close(fd);
  coap_free_context(ctx);
  coap_cleanup();
  return fail;
}
