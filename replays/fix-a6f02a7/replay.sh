#!/bin/sh
# Builds libcoap (plain + ASan) from whatever is checked out in /tmp/rp/a6f02a7
# and runs OUT/replay.c against both.  Exit 0 = correct behaviour, non-zero = defect shown.
#   parent (a6f02a7^): plain exit=1 (observer not registered), ASan heap-use-after-free
#   a6f02a7          : both exit 0, clean
cd /tmp/rp/a6f02a7 || exit 2
OPTS="-DENABLE_DOCS=OFF -DENABLE_TESTS=OFF -DENABLE_EXAMPLES=OFF -DCMAKE_BUILD_TYPE=RelWithDebInfo"
cmake -G Ninja -S . -B _build $OPTS >/dev/null 2>&1 && cmake --build _build --target coap-3 >/dev/null || exit 2
cmake -G Ninja -S . -B _asan $OPTS -DCMAKE_C_COMPILER=clang -DCMAKE_C_FLAGS="-fsanitize=address -g" >/dev/null 2>&1 &&
  cmake --build _asan --target coap-3 >/dev/null || exit 2
cc -g -Wno-deprecated-declarations -I_build -Iinclude -I_build/include OUT/replay.c \
   _build/libcoap-3.a -lgnutls -lpthread -o OUT/replay || exit 2
clang -fsanitize=address -g -Wno-deprecated-declarations -I_asan -Iinclude -I_asan/include OUT/replay.c \
   _asan/libcoap-3.a -lgnutls -lpthread -o OUT/replay_asan || exit 2
echo "== plain =="; OUT/replay; r1=$?; echo "exit=$r1"
echo "== asan ==";  OUT/replay_asan 2>&1 | head -12; r2=$?
OUT/replay_asan >/dev/null 2>&1; r2=$?; echo "exit=$r2"
[ $r1 -eq 0 ] && [ $r2 -eq 0 ]
