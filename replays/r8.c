#include <coap3/coap.h>
#include <stdio.h>
#include <stdlib.h>
#include <string.h>
#include <signal.h>
extern void *__real_malloc(size_t);
static long countdown=-1;
void *__wrap_malloc(size_t n){ if(countdown>=0 && countdown--==0) return NULL; return __real_malloc(n); }
static void segv(int s){(void)s; printf("  -> SIGSEGV\n"); fflush(stdout); _exit(0);} 
int main(int argc,char**argv){
  coap_startup(); coap_set_log_level(COAP_LOG_EMERG); signal(SIGSEGV,segv);
  const char *u="coap://[::1]/a%20b/c?x=1&y=2"; coap_uri_t uri; coap_split_uri((const uint8_t*)u,strlen(u),&uri);
  int k=argc>1?atoi(argv[1]):0;
  coap_optlist_t *chain=NULL; countdown=k;
  int r=coap_uri_into_optlist(&uri,NULL,&chain,1); countdown=-1;
  printf("fail allocation #%d -> coap_uri_into_optlist returned %d\n",k,r);
  coap_delete_optlist(chain); return 0; }
