/*
 * C13: the GnuTLS back end calls the application's PSK identity validation callback (validate_id_call_back) from
 * psk_server_callback() with the global lock held and global_lock.in_callback == 0, while its sibling callbacks
 * (validate_ih_call_back, validate_cn_call_back, validate_sni_call_back) are wrapped in coap_lock_callback_ret().
 * A validation callback that re-enters a locking public API function (here coap_session_reference/release) therefore
 * blocks for ever on the mutex its own thread holds (release build; a debug build aborts on "Thread Deadlock").
 *
 * build (thread-safe library: cmake -DENABLE_THREAD_SAFE=ON, build dir $B):
 *   cc -g -I$B -I$B/include -I/repo/include replays/r13.c $B/libcoap-3.a -lgnutls -lpthread -o /tmp/r13 && /tmp/r13
 * exit 0 = handshake completed and the request was served; exit 1 = watchdog: the server thread never came back.
 */
#include <coap3/coap.h>
#include <stdio.h>
#include <string.h>
#include <stdlib.h>
#include <unistd.h>
#include <signal.h>
#include <sys/socket.h>
#include <netinet/in.h>
#include <arpa/inet.h>

static const uint8_t the_key[] = "alicekey";
static int handler_calls, responses, id_cb_calls;

static void
watchdog(int sig) {
  (void)sig;
  printf("DEADLOCK: no progress for 8 s; validate_id_call_back calls=%d, it re-entered the API and never returned\n", id_cb_calls);
  _exit(1);
}

static const coap_bin_const_t *
id_cb(coap_bin_const_t *identity, coap_session_t *session, void *arg) {
  static coap_bin_const_t key = { sizeof(the_key) - 1, the_key };
  (void)identity;
  (void)arg;
  id_cb_calls++;
  /* the application tracks the peer: take and drop a reference through the public API */
  coap_session_reference(session);
  coap_session_release(session);
  return &key;
}

static void
hnd_get(coap_resource_t *r, coap_session_t *s, const coap_pdu_t *q, const coap_string_t *qs, coap_pdu_t *rsp) {
  (void)r; (void)s; (void)q; (void)qs;
  handler_calls++;
  coap_pdu_set_code(rsp, COAP_RESPONSE_CODE_CONTENT);
}

static coap_response_t
cli_response(coap_session_t *s, const coap_pdu_t *sent, const coap_pdu_t *rcv, const coap_mid_t mid) {
  (void)s; (void)sent; (void)rcv; (void)mid;
  responses++;
  return COAP_RESPONSE_OK;
}

int
main(void) {
  coap_context_t *sctx, *cctx;
  coap_dtls_spsk_t spsk;
  coap_dtls_cpsk_t cpsk;
  coap_address_t addr;
  coap_resource_t *res;
  coap_session_t *cs;
  coap_pdu_t *pdu;
  struct sockaddr_in sa;
  socklen_t sl = sizeof(sa);
  int fd, i;

  setvbuf(stdout, NULL, _IONBF, 0);
  signal(SIGALRM, watchdog);
  coap_startup();
  coap_set_log_level(COAP_LOG_WARN);
  printf("thread safe: %d\n", coap_threadsafe_is_supported());
  fd = socket(AF_INET, SOCK_DGRAM, 0);
  memset(&sa, 0, sizeof(sa));
  sa.sin_family = AF_INET;
  sa.sin_addr.s_addr = htonl(INADDR_LOOPBACK);
  bind(fd, (struct sockaddr *)&sa, sizeof(sa));
  getsockname(fd, (struct sockaddr *)&sa, &sl);
  close(fd);
  coap_address_init(&addr);
  addr.addr.sin = sa;
  addr.size = sizeof(struct sockaddr_in);

  sctx = coap_new_context(NULL);
  memset(&spsk, 0, sizeof(spsk));
  spsk.version = COAP_DTLS_SPSK_SETUP_VERSION;
  spsk.validate_id_call_back = id_cb;
  spsk.psk_info.key.s = the_key;
  spsk.psk_info.key.length = sizeof(the_key) - 1;
  if (!sctx || !coap_context_set_psk2(sctx, &spsk) || !coap_new_endpoint(sctx, &addr, COAP_PROTO_DTLS))
    return 2;
  res = coap_resource_init(coap_make_str_const("test"), 0);
  coap_register_request_handler(res, COAP_REQUEST_GET, hnd_get);
  coap_add_resource(sctx, res);

  cctx = coap_new_context(NULL);
  coap_register_response_handler(cctx, cli_response);
  memset(&cpsk, 0, sizeof(cpsk));
  cpsk.version = COAP_DTLS_CPSK_SETUP_VERSION;
  cpsk.psk_info.identity.s = (const uint8_t *)"alice";
  cpsk.psk_info.identity.length = 5;
  cpsk.psk_info.key.s = the_key;
  cpsk.psk_info.key.length = sizeof(the_key) - 1;
  cs = coap_new_client_session_psk2(cctx, NULL, &addr, COAP_PROTO_DTLS, &cpsk);
  if (!cs)
    return 2;
  pdu = coap_new_pdu(COAP_MESSAGE_CON, COAP_REQUEST_CODE_GET, cs);
  coap_add_option(pdu, COAP_OPTION_URI_PATH, 4, (const uint8_t *)"test");
  coap_send(cs, pdu);
  alarm(8);
  for (i = 0; i < 400 && !responses; i++) {
    coap_io_process(sctx, 5);
    coap_io_process(cctx, 5);
  }
  alarm(0);
  printf("validate_id_call_back calls=%d handler calls=%d responses=%d\n", id_cb_calls, handler_calls, responses);
  coap_session_release(cs);
  coap_free_context(cctx);
  coap_free_context(sctx);
  coap_cleanup();
  if (id_cb_calls >= 1 && handler_calls == 1 && responses == 1) {
    printf("OK: the validation callback re-entered the API and returned\n");
    return 0;
  }
  printf("UNEXPECTED\n");
  return 2;
}
