/*
 * C02: a libcoap WebSocket CLIENT reads the server's HTTP response line with coap_ws_split_rd_header(), which returns NULL when the line
 * contains no blank.  coap_ws_rd_http_header_server() and the header loop of the client test that result; the status-line check of the
 * client does not:  `strcmp(http_hdr, "HTTP/1.1") != 0 || atoi(value) != 101`.  A server (or anything on the path of a ws:// connection)
 * that answers with the bare line "HTTP/1.1" makes the client call atoi(NULL).
 *
 * build: cc -Wno-deprecated-declarations -I/repo/_build/include -I/repo/include replays/r26.c /repo/_build/libcoap-3.a -lgnutls -lpthread -o /tmp/r26 ; /tmp/r26
 *   before the fix: "FAIL: the client died with signal 11"; after: the client refuses the response and carries on, "OK"
 */
#include <coap3/coap.h>

#include <arpa/inet.h>
#include <netinet/in.h>
#include <stdio.h>
#include <string.h>
#include <sys/socket.h>
#include <sys/wait.h>
#include <unistd.h>

int
main(void) {
  uint16_t port = (uint16_t)(22000 + (getpid() % 20000));
  struct sockaddr_in sa;
  int lfd = socket(AF_INET, SOCK_STREAM, 0), one = 1, st;
  pid_t pid;

  setsockopt(lfd, SOL_SOCKET, SO_REUSEADDR, &one, sizeof(one));
  memset(&sa, 0, sizeof(sa));
  sa.sin_family = AF_INET;
  sa.sin_addr.s_addr = htonl(INADDR_LOOPBACK);
  sa.sin_port = htons(port);
  if (bind(lfd, (struct sockaddr *)&sa, sizeof(sa)) < 0 || listen(lfd, 1) < 0) {
    perror("bind/listen");
    return 2;
  }
  pid = fork();
  if (pid == 0) {
    coap_context_t *ctx;
    coap_address_t dst;
    coap_session_t *s;
    coap_pdu_t *pdu;
    int i;

    close(lfd);
    coap_startup();
    coap_set_log_level(getenv("DBG") ? COAP_LOG_DEBUG : COAP_LOG_EMERG);
    if (!coap_ws_is_supported())
      _exit(3);
    ctx = coap_new_context(NULL);
    coap_address_init(&dst);
    dst.addr.sin.sin_family = AF_INET;
    dst.addr.sin.sin_addr.s_addr = htonl(INADDR_LOOPBACK);
    dst.addr.sin.sin_port = htons(port);
    dst.size = sizeof(struct sockaddr_in);
    s = coap_new_client_session(ctx, NULL, &dst, COAP_PROTO_WS);
    if (!s)
      _exit(2);
    coap_ws_set_host_request(s, coap_make_str_const("localhost"));
    pdu = coap_new_pdu(COAP_MESSAGE_CON, COAP_REQUEST_CODE_GET, s);
    coap_send(s, pdu);
    for (i = 0; i < 20; i++)
      coap_io_process(ctx, 50);
    coap_free_context(ctx);
    coap_cleanup();
    _exit(0);
  } else {
    int cfd = accept(lfd, NULL, NULL);
    char buf[2048];
    size_t n = 0;
    static const char reply[] = "HTTP/1.1\r\nUpgrade: websocket\r\n\r\n";

    while (n < sizeof(buf) - 1) {
      ssize_t r = read(cfd, buf + n, sizeof(buf) - 1 - n);
      if (r <= 0)
        break;
      n += (size_t)r;
      buf[n] = 0;
      if (strstr(buf, "\r\n\r\n"))
        break;
    }
    (void)!write(cfd, reply, sizeof(reply) - 1);
    waitpid(pid, &st, 0);
    close(cfd);
    close(lfd);
    if (WIFSIGNALED(st)) {
      printf("FAIL: the client died with signal %d\n", WTERMSIG(st));
      return 1;
    }
    if (WEXITSTATUS(st) != 0) {
      printf("HARNESS PROBLEM: client exit %d\n", WEXITSTATUS(st));
      return 2;
    }
    printf("OK\n");
    return 0;
  }
}
