/*
 * Replay for commit 1728e22: coap_retransmit() ignores COAP_PDU_DELAYED for
 * is_mcast (leisure-delayed multicast response) nodes.
 *
 * Build + run (from /tmp/rp/1728e22, library already built in _build):
 *   cc -g -O1 -I_build -Iinclude -I_build/include OUT/replay.c _build/libcoap-3.a \
 *      -lgnutls -lpthread -o OUT/replay && OUT/replay ; echo "exit=$?"
 * ASan variant (library configured in _asan with
 *   -DCMAKE_C_COMPILER=clang -DCMAKE_C_FLAGS="-fsanitize=address -g"):
 *   clang -fsanitize=address -g -I_asan -Iinclude -I_asan/include OUT/replay.c \
 *      _asan/libcoap-3.a -lgnutls -lpthread -o OUT/replay_asan && OUT/replay_asan
 * (OUT/replay.sh does all of that for both commits.)
 *
 * Everything is done through the public API plus datagrams on sockets:
 *  - the application is a UDP server on 0.0.0.0:PORT that joined 224.0.1.187 on lo,
 *    and whose GET handler answers with a Confirmable response
 *    (coap_pdu_set_type(response, COAP_MESSAGE_CON)).
 *  - the application raised NSTART to 2 for new sessions, and later goes back to
 *    the RFC7252 default of 1 with coap_session_set_nstart().
 *  - the peer sends two unicast NON GETs (-> two un-ACKed CON responses,
 *    con_active == 2), then one NON GET to the multicast group from the same
 *    source port (same session).  The response is leisure-delayed in a
 *    node with is_mcast = 1.  When that timer fires coap_retransmit() does
 *    con_active-- (2 -> 1), coap_send_pdu() sees a CON with con_active >= NSTART
 *    and returns COAP_PDU_DELAYED: the node now sits on session->delayqueue with
 *    node->session == NULL.
 *      parent : coap_session_connected(NULL) -> SIGSEGV (ASan: SEGV on address 0x..)
 *      1728e22: node stays on the delay queue; once the peer ACKs the first two
 *               responses it is transmitted; the peer gets 3 responses; exit 0.
 *
 * Only public headers are used.
 */
#include <coap3/coap.h>
#include <arpa/inet.h>
#include <netinet/in.h>
#include <stdio.h>
#include <stdlib.h>
#include <string.h>
#include <sys/socket.h>
#include <unistd.h>
#include <poll.h>
#include <signal.h>

#define PORT 56831
#define GROUP "224.0.1.187"

static coap_session_t *g_session;

static int
event_handler(coap_session_t *session, coap_event_t event) {
  if (event == COAP_EVENT_SERVER_SESSION_NEW) {
    coap_fixed_point_t leisure = {1, 0};   /* 1.0 s: just to make the run short */
    coap_session_set_nstart(session, 2);
    coap_session_set_default_leisure(session, leisure);
    g_session = coap_session_reference(session);
  }
  return 0;
}

static void
hnd_get(coap_resource_t *resource, coap_session_t *session,
        const coap_pdu_t *request, const coap_string_t *query,
        coap_pdu_t *response) {
  (void)resource; (void)session; (void)request; (void)query;
  /* this application wants its answers delivered reliably */
  coap_pdu_set_type(response, COAP_MESSAGE_CON);
  coap_pdu_set_code(response, COAP_RESPONSE_CODE_CONTENT);
  coap_add_data(response, 2, (const uint8_t *)"hi");
}

static void
watchdog(int sig) {
  (void)sig;
  fprintf(stderr, "replay: watchdog fired\n");
  _exit(3);
}

/* NON GET /r, given mid and 1-byte token */
static size_t
mk_get(uint8_t *b, uint16_t mid, uint8_t tok) {
  size_t n = 0;
  b[n++] = 0x51;           /* ver 1, NON, tkl 1 */
  b[n++] = 0x01;           /* GET */
  b[n++] = mid >> 8;
  b[n++] = mid & 0xff;
  b[n++] = tok;
  b[n++] = 0xb1;           /* Uri-Path, len 1 */
  b[n++] = 'r';
  return n;
}

static void
run_io(coap_context_t *ctx, unsigned ms) {
  coap_tick_t start, now;
  coap_ticks(&start);
  do {
    coap_io_process(ctx, 50);
    coap_ticks(&now);
  } while ((now - start) * 1000 / COAP_TICKS_PER_SECOND < ms);
}

/* collect responses on the peer socket; ACK them if requested */
static int
peer_drain(int fd, int do_ack, uint16_t *mids, int *nmids) {
  int got = 0;
  for (;;) {
    uint8_t buf[256];
    struct sockaddr_in from;
    socklen_t fl = sizeof(from);
    ssize_t n = recvfrom(fd, buf, sizeof(buf), MSG_DONTWAIT, (struct sockaddr *)&from, &fl);
    if (n < 4)
      break;
    int type = (buf[0] >> 4) & 3;
    uint16_t mid = (uint16_t)(buf[2] << 8 | buf[3]);
    int dup = 0;
    for (int i = 0; i < *nmids; i++)
      if (mids[i] == mid)
        dup = 1;
    printf("peer: got %s code %d.%02d mid 0x%04x tok 0x%02x%s\n",
           type == 0 ? "CON" : type == 1 ? "NON" : type == 2 ? "ACK" : "RST",
           buf[1] >> 5, buf[1] & 0x1f, mid, (buf[0] & 0xf) ? buf[4] : 0,
           dup ? " (retransmission)" : "");
    if (!dup && *nmids < 16) {
      mids[(*nmids)++] = mid;
      got++;
    }
    if (do_ack && type == 0) {
      uint8_t ack[4] = {0x60, 0x00, buf[2], buf[3]};
      sendto(fd, ack, 4, 0, (struct sockaddr *)&from, fl);
    }
  }
  return got;
}

int
main(void) {
  coap_context_t *ctx;
  coap_address_t addr;
  coap_resource_t *r;
  struct sockaddr_in me, uni, mc;
  struct in_addr lo;
  uint8_t buf[32];
  uint16_t mids[16];
  int nmids = 0;
  int fd, one = 1, total = 0;

  signal(SIGALRM, watchdog);
  alarm(30);
  setvbuf(stdout, NULL, _IONBF, 0);

  coap_startup();
  coap_set_log_level(getenv("REPLAY_DEBUG") ? COAP_LOG_DEBUG : COAP_LOG_WARN);
  ctx = coap_new_context(NULL);
  coap_address_init(&addr);
  addr.addr.sin.sin_family = AF_INET;
  addr.addr.sin.sin_addr.s_addr = INADDR_ANY;
  addr.addr.sin.sin_port = htons(PORT);
  addr.size = sizeof(struct sockaddr_in);
  if (!ctx || !coap_new_endpoint(ctx, &addr, COAP_PROTO_UDP)) {
    fprintf(stderr, "replay: cannot create endpoint\n");
    return 4;
  }
  if (coap_join_mcast_group_intf(ctx, GROUP, "lo") < 0) {
    fprintf(stderr, "replay: cannot join " GROUP " on lo\n");
    return 4;
  }
  coap_register_event_handler(ctx, event_handler);
  r = coap_resource_init(coap_make_str_const("r"), 0);
  coap_register_request_handler(r, COAP_REQUEST_GET, hnd_get);
  coap_add_resource(ctx, r);

  /* the peer */
  fd = socket(AF_INET, SOCK_DGRAM, 0);
  memset(&me, 0, sizeof(me));
  me.sin_family = AF_INET;
  me.sin_addr.s_addr = htonl(INADDR_LOOPBACK);
  if (bind(fd, (struct sockaddr *)&me, sizeof(me)) < 0) {
    perror("bind");
    return 4;
  }
  lo.s_addr = htonl(INADDR_LOOPBACK);
  setsockopt(fd, IPPROTO_IP, IP_MULTICAST_IF, &lo, sizeof(lo));
  setsockopt(fd, IPPROTO_IP, IP_MULTICAST_LOOP, &one, sizeof(one));
  uni = me;
  uni.sin_port = htons(PORT);
  mc = uni;
  inet_pton(AF_INET, GROUP, &mc.sin_addr);

  /* 1. two unicast NON GETs, answered CON, never ACKed for now */
  sendto(fd, buf, mk_get(buf, 0x1001, 0xA1), 0, (struct sockaddr *)&uni, sizeof(uni));
  sendto(fd, buf, mk_get(buf, 0x1002, 0xA2), 0, (struct sockaddr *)&uni, sizeof(uni));
  run_io(ctx, 200);
  total += peer_drain(fd, 0, mids, &nmids);
  if (!g_session || total != 2) {
    fprintf(stderr, "replay: setup failed (session %p, %d responses)\n", (void *)g_session, total);
    return 4;
  }

  /* 2. the application returns to the RFC7252 default NSTART */
  coap_session_set_nstart(g_session, 1);

  /* 3. a multicast NON GET from the same peer address/port */
  if (sendto(fd, buf, mk_get(buf, 0x1003, 0xA3), 0, (struct sockaddr *)&mc, sizeof(mc)) < 0) {
    perror("sendto mcast");
    return 4;
  }
  printf("replay: multicast request sent, waiting for the leisure timer\n");
  /* 4. leisure (<= 1 s) expires in here -> coap_retransmit() on the is_mcast node */
  run_io(ctx, 1500);
  total += peer_drain(fd, 0, mids, &nmids);
  printf("replay: survived the leisure timer, %d responses so far\n", total);

  /* 5. the peer now ACKs what it has; the delayed response must come out */
  for (int i = 0; i < 2; i++) {
    uint8_t ack[4] = {0x60, 0x00, (uint8_t)(mids[i] >> 8), (uint8_t)mids[i]};
    sendto(fd, ack, 4, 0, (struct sockaddr *)&uni, sizeof(uni));
  }
  for (int i = 0; i < 20 && total < 3; i++) {
    run_io(ctx, 200);
    total += peer_drain(fd, 1, mids, &nmids);
  }
  run_io(ctx, 200);
  peer_drain(fd, 1, mids, &nmids);

  coap_session_release(g_session);
  coap_free_context(ctx);
  coap_cleanup();
  close(fd);
  if (total != 3) {
    fprintf(stderr, "replay: FAIL expected 3 distinct responses, got %d\n", total);
    return 1;
  }
  printf("replay: OK, 3 responses received, clean shutdown\n");
  return 0;
}
