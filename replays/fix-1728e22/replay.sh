#!/bin/sh
# Builds libcoap at 1728e22^ (parent) and at 1728e22 (plain + ASan) and runs OUT/replay.c on each.
# Usage: sh OUT/replay.sh        (run from anywhere; leaves the worktree at the parent)
# Expected: parent -> plain exit 139 (SIGSEGV), ASan "SEGV ... coap_session_connected"; 1728e22 -> exit 0 twice.
W=/tmp/rp/1728e22
cd $W || exit 2
cfg() { # dir extra-args...
  d=$1; shift
  [ -f $d/build.ninja ] || cmake -G Ninja -S . -B $d -DENABLE_DOCS=OFF -DENABLE_TESTS=OFF \
     -DENABLE_EXAMPLES=OFF -DCMAKE_BUILD_TYPE=RelWithDebInfo "$@" >/dev/null 2>&1
  cmake --build $d --target coap-3 >/dev/null 2>&1 || { echo "build of $d failed"; exit 2; }
}
for rev in '1728e22^' 1728e22; do
  git checkout -q --detach "$rev" || exit 2
  echo "=================== $rev ($(git rev-parse --short HEAD))"
  cfg _build
  cfg _asan -DCMAKE_C_COMPILER=clang "-DCMAKE_C_FLAGS=-fsanitize=address -g"
  cc -g -O1 -I_build -Iinclude -I_build/include OUT/replay.c _build/libcoap-3.a \
     -lgnutls -lpthread -o OUT/replay || exit 2
  clang -fsanitize=address -g -I_asan -Iinclude -I_asan/include OUT/replay.c _asan/libcoap-3.a \
     -lgnutls -lpthread -o OUT/replay_asan || exit 2
  echo "--- plain"; OUT/replay; echo "exit=$?"
  echo "--- asan";  OUT/replay_asan 2>&1 | head -25; 
done
git checkout -q --detach '1728e22^'
cmake --build _build --target coap-3 >/dev/null 2>&1
