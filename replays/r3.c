#include "coap3/coap_libcoap_build.h"
#include <stdio.h>
#include <string.h>
static int feed(oscore_recipient_ctx_t *r, uint64_t seq){
  cose_encrypt0_t cose; memset(&cose,0,sizeof cose);
  uint8_t b[8]; size_t n = coap_encode_var_safe8(b,sizeof b,seq); if(!n){b[0]=0;n=1;}
  coap_bin_const_t piv={n,b}; cose_encrypt0_set_partial_iv(&cose,&piv);
  return oscore_validate_sender_seq(r,&cose);
}
int main(void){
  coap_startup(); coap_set_log_level(COAP_LOG_EMERG);
  oscore_ctx_t oc; memset(&oc,0,sizeof oc); oc.replay_window_size=32;
  oscore_recipient_ctx_t r; memset(&r,0,sizeof r); r.osc_ctx=&oc; r.initial_state=1;
  /* (a) accept 5 then 3 (in window), emulate the caller's overwrite of last_seq (coap_oscore.c:1054), then replay 5 */
  printf("a: 5->%d ", feed(&r,5)); 
  int ok3 = feed(&r,3); r.last_seq = 3; /* what coap_oscore_decrypt_pdu does after validation */
  printf("3->%d replay 5->%d (must be 0)\n", ok3, feed(&r,5));
  /* (b) forged message while highest seen is 0: validate then roll back */
  memset(&r,0,sizeof r); r.osc_ctx=&oc; r.initial_state=1;
  feed(&r,0); /* genuine seq 0 accepted: last_seq=0 window=1 */
  feed(&r,40); /* forged, passes window check, decrypt fails => roll back */
  oscore_roll_back_seq(&r);
  printf("b: after forged 40 + rollback last_seq=%llu window=%llx (must be 0 / 1)\n",(unsigned long long)r.last_seq,(unsigned long long)r.sliding_window);
  /* (c) jump of 64: shift by width */
  memset(&r,0,sizeof r); r.osc_ctx=&oc; r.initial_state=1;
  feed(&r,1); feed(&r,65);
  printf("c: after 1 then 65 window=%llx (bit 0 only expected)\n",(unsigned long long)r.sliding_window);
  return 0; }
