/* replays/r39.c - R-ALLOC-NULL (object returned without its field) (C18): coap_resource_init() copies the URI path with coap_new_str_const();
 * when that allocation fails it still returns the new resource, with uri_path == NULL.  The application cannot tell; coap_add_resource()
 * (hash of uri_path->s), coap_print_link() and others dereference the field unconditionally.
 *   build: cc -O1 -g -I/repo/_build/include -I/repo/include -Wl,--wrap=malloc r39.c /repo/_build/libcoap-3.a -lgnutls -lpthread -o r39 && ./r39
 *   before the fix: coap_resource_init() returns a resource for the failing 2nd allocation and coap_add_resource() crashes (exit 139);
 *   with the fix: it returns NULL ("clean failure"), exit 0
 */
#include <coap3/coap.h>
#include <stdio.h>
void *__real_malloc(size_t n);
static long fail_at = -1, count = 0;
void *__wrap_malloc(size_t n) { if (fail_at >= 0 && count++ == fail_at) return NULL; return __real_malloc(n); }
int main(void) {
  coap_startup();
  coap_set_log_level(COAP_LOG_EMERG);
  coap_context_t *ctx = coap_new_context(NULL);
  count = 0; fail_at = 1;                      /* 1st malloc: the resource, 2nd: the copy of the path */
  coap_resource_t *r = coap_resource_init(coap_make_str_const("sensors/temp"), 0);
  fail_at = -1;
  if (!r) { printf("clean failure: coap_resource_init() returned NULL\n"); coap_free_context(ctx); coap_cleanup(); return 0; }
  printf("coap_resource_init() returned a resource although the path copy failed; adding it ...\n");
  fflush(stdout);
  coap_add_resource(ctx, r);
  printf("survived?\n");
  coap_free_context(ctx);
  coap_cleanup();
  return 1;
}
