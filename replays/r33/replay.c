/*
 * replay.c - Q-Block2 re-request with block numbers in non-ascending order
 *            (add_block_send() in src/coap_block.c loses an entry and leaves
 *            the last slot of out_blocks[] unwritten).
 *
 * Build (from /tmp/rp/nb2, library built with the cmake line of the task):
 *   cc -g -O0 -DHAVE_CONFIG_H -I_build -Iinclude -I_build/include \
 *      OUT/replay.c _build/libcoap-3.a -lgnutls -lpthread -o OUT/replay
 * Run:
 *   OUT/replay                 # default scenario "5,3"
 *   OUT/replay 7,5,3           # any comma separated list of block numbers
 *   MALLOC_PERTURB_=165 OUT/replay 5,3    # glibc fills fresh malloc memory with 0x5a
 *   valgrind --track-origins=yes --error-exitcode=2 OUT/replay 5,3
 *
 * Exit status: 0 = the server answered with exactly the blocks asked for
 *              1 = defect observed (a requested block missing and/or an
 *                  answer that was not asked for / 5.00)
 *              3 = set-up problem (replay itself did not work)
 *
 * One process, one thread: a libcoap server context on 127.0.0.1 (UDP,
 * ephemeral port) and a plain UDP socket as the client.  Only public API is
 * used to drive the library; nothing in the library is modified.
 */
#include <coap3/coap.h>

#include <arpa/inet.h>
#include <netinet/in.h>
#include <stdio.h>
#include <stdlib.h>
#include <string.h>
#include <sys/socket.h>
#include <unistd.h>
#include <fcntl.h>

#define SZX       2                 /* 64 byte blocks */
#define BLK       (1u << (SZX + 4))
#define NBLOCKS   16
static uint8_t body[NBLOCKS * BLK];

static void
hnd_get(coap_resource_t *resource, coap_session_t *session,
        const coap_pdu_t *request, const coap_string_t *query,
        coap_pdu_t *response) {
  coap_pdu_set_code(response, COAP_RESPONSE_CODE_CONTENT);
  coap_add_data_large_response(resource, session, request, response, query,
                               COAP_MEDIATYPE_APPLICATION_OCTET_STREAM, -1, 0,
                               sizeof(body), body, NULL, NULL);
}

typedef struct {
  int code;          /* response code byte */
  int have_qb2;      /* Q-Block2 option present */
  uint32_t num;
  int m;
  int szx;
  size_t paylen;
  uint8_t first;     /* first payload byte */
} rsp_t;

/* minimal CoAP parser: enough to get code, Q-Block2 and payload */
static int
parse_rsp(const uint8_t *b, size_t n, rsp_t *r) {
  size_t p;
  unsigned opt = 0;
  memset(r, 0, sizeof(*r));
  if (n < 4)
    return 0;
  r->code = b[1];
  p = 4 + (b[0] & 0x0f);
  while (p < n) {
    unsigned d, l;
    if (b[p] == 0xff) {
      p++;
      r->paylen = n - p;
      r->first = r->paylen ? b[p] : 0;
      return 1;
    }
    d = b[p] >> 4;
    l = b[p] & 0x0f;
    p++;
    if (d == 13) d = 13 + b[p++];
    else if (d == 14) { d = 269 + (b[p] << 8) + b[p + 1]; p += 2; }
    if (l == 13) l = 13 + b[p++];
    else if (l == 14) { l = 269 + (b[p] << 8) + b[p + 1]; p += 2; }
    opt += d;
    if (opt == 31) { /* Q-Block2 */
      uint32_t v = 0;
      unsigned k;
      for (k = 0; k < l; k++) v = (v << 8) | b[p + k];
      r->have_qb2 = 1;
      r->num = v >> 4;
      r->m = (v >> 3) & 1;
      r->szx = v & 7;
    }
    p += l;
  }
  return 1;
}

static void
pump(coap_context_t *ctx, int rounds) {
  while (rounds-- > 0)
    coap_io_process(ctx, 50);
}

static void
hexdump(const char *what, const uint8_t *b, size_t n) {
  size_t i;
  printf("%s (%zu bytes):", what, n);
  for (i = 0; i < n; i++) printf(" %02x", b[i]);
  printf("\n");
}

static size_t
put_qblock2(uint8_t *p, int first, uint32_t num, int m) {
  uint32_t v = (num << 4) | ((uint32_t)m << 3) | SZX;
  size_t n = 0, len = v > 0xffff ? 3 : v > 0xff ? 2 : 1, k;
  if (first) {           /* delta 31 - 11 = 20 -> ext 13 + 7 */
    p[n++] = 0xd0 | (uint8_t)len;
    p[n++] = 7;
  } else {               /* repeated option: delta 0 */
    p[n++] = 0x00 | (uint8_t)len;
  }
  for (k = 0; k < len; k++)
    p[n++] = (uint8_t)(v >> (8 * (len - 1 - k)));
  return n;
}

int
main(int argc, char **argv) {
  coap_context_t *ctx;
  coap_address_t addr;
  coap_endpoint_t *ep;
  coap_resource_t *r;
  struct sockaddr_in sa, srv;
  socklen_t sl = sizeof(sa);
  int fd, i, bad = 0;
  uint8_t pkt[128], rx[1500];
  size_t n;
  ssize_t got;
  uint32_t want[16];
  int seen[16];
  int nwant = 0;
  const char *list = argc > 1 ? argv[1] : "5,3";
  int tmp_fd;

  for (i = 0; i < NBLOCKS; i++)
    memset(body + i * BLK, 'A' + i, BLK);

  {
    char *dup = strdup(list), *tok;
    for (tok = strtok(dup, ","); tok && nwant < 16; tok = strtok(NULL, ",")) {
      seen[nwant] = 0;
      want[nwant++] = (uint32_t)atoi(tok);
    }
    free(dup);
  }

  coap_startup();
  coap_set_log_level(getenv("REPLAY_DEBUG") ? COAP_LOG_DEBUG : COAP_LOG_WARN);
  ctx = coap_new_context(NULL);
  if (!ctx) return 3;
  coap_context_set_block_mode(ctx, COAP_BLOCK_USE_LIBCOAP | COAP_BLOCK_TRY_Q_BLOCK);

  /* find a free port with a throw-away socket, then give it to libcoap */
  tmp_fd = socket(AF_INET, SOCK_DGRAM, 0);
  memset(&srv, 0, sizeof(srv));
  srv.sin_family = AF_INET;
  srv.sin_addr.s_addr = htonl(INADDR_LOOPBACK);
  srv.sin_port = 0;
  if (bind(tmp_fd, (struct sockaddr *)&srv, sizeof(srv)) < 0) return 3;
  sl = sizeof(srv);
  getsockname(tmp_fd, (struct sockaddr *)&srv, &sl);
  close(tmp_fd);

  coap_address_init(&addr);
  addr.addr.sin = srv;
  addr.size = sizeof(struct sockaddr_in);
  ep = coap_new_endpoint(ctx, &addr, COAP_PROTO_UDP);
  if (!ep) { fprintf(stderr, "no endpoint\n"); return 3; }

  r = coap_resource_init(coap_make_str_const("big"), 0);
  coap_register_request_handler(r, COAP_REQUEST_GET, hnd_get);
  coap_add_resource(ctx, r);

  fd = socket(AF_INET, SOCK_DGRAM, 0);
  memset(&sa, 0, sizeof(sa));
  sa.sin_family = AF_INET;
  sa.sin_addr.s_addr = htonl(INADDR_LOOPBACK);
  if (bind(fd, (struct sockaddr *)&sa, sizeof(sa)) < 0) return 3;
  if (connect(fd, (struct sockaddr *)&srv, sizeof(srv)) < 0) return 3;
  fcntl(fd, F_SETFL, O_NONBLOCK);

  /* ---- request 1: NON GET /big, Q-Block2 NUM=0 M=1 SZX=2  -> whole body ---- */
  n = 0;
  pkt[n++] = 0x52;            /* ver 1, NON, TKL 2 */
  pkt[n++] = 0x01;            /* GET */
  pkt[n++] = 0x12; pkt[n++] = 0x01; /* MID */
  pkt[n++] = 0xca; pkt[n++] = 0xfe; /* token */
  pkt[n++] = 0xb3; pkt[n++] = 'b'; pkt[n++] = 'i'; pkt[n++] = 'g'; /* Uri-Path */
  n += put_qblock2(pkt + n, 1, 0, 1);
  hexdump("request 1", pkt, n);
  if (send(fd, pkt, n, 0) < 0) return 3;
  pump(ctx, 6);
  i = 0;
  while ((got = recv(fd, rx, sizeof(rx), 0)) > 0) {
    rsp_t rs;
    parse_rsp(rx, (size_t)got, &rs);
    printf("  rsp1[%d] code=%d.%02d Q-Block2 %s NUM=%u M=%d SZX=%d payload=%zu first='%c'\n",
           i, rs.code >> 5, rs.code & 0x1f, rs.have_qb2 ? "yes" : "NO",
           rs.num, rs.m, rs.szx, rs.paylen, rs.first ? rs.first : '?');
    if (!rs.have_qb2) {
      fprintf(stderr, "server did not answer with Q-Block2 - set-up problem\n");
      return 3;
    }
    i++;
  }
  if (i == 0) { fprintf(stderr, "no answer to request 1\n"); return 3; }

  /* ---- request 2: re-request of "missing" blocks, in the order given ---- */
  n = 0;
  pkt[n++] = 0x52;
  pkt[n++] = 0x01;
  pkt[n++] = 0x12; pkt[n++] = 0x02;
  pkt[n++] = 0xca; pkt[n++] = 0xfe;
  pkt[n++] = 0xb3; pkt[n++] = 'b'; pkt[n++] = 'i'; pkt[n++] = 'g';
  for (i = 0; i < nwant; i++)
    n += put_qblock2(pkt + n, i == 0, want[i], 0);
  hexdump("request 2", pkt, n);
  if (send(fd, pkt, n, 0) < 0) return 3;
  pump(ctx, 6);
  i = 0;
  while ((got = recv(fd, rx, sizeof(rx), 0)) > 0) {
    rsp_t rs;
    int k, hit = 0;
    parse_rsp(rx, (size_t)got, &rs);
    printf("  rsp2[%d] code=%d.%02d Q-Block2 %s NUM=%u M=%d SZX=%d payload=%zu first='%c'",
           i, rs.code >> 5, rs.code & 0x1f, rs.have_qb2 ? "yes" : "NO",
           rs.num, rs.m, rs.szx, rs.paylen,
           (rs.first >= 0x20 && rs.first < 0x7f) ? rs.first : '?');
    if (rs.code == 0x45 && rs.have_qb2) {
      for (k = 0; k < nwant; k++) {
        if (want[k] == rs.num) {
          seen[k]++;
          hit = 1;
        }
      }
      if (hit && (rs.paylen != BLK || rs.first != 'A' + rs.num)) {
        printf("  <-- wrong payload for this block");
        bad = 1;
      }
    }
    if (!hit) {
      printf("  <-- NOT ASKED FOR");
      bad = 1;
    }
    printf("\n");
    i++;
  }
  for (i = 0; i < nwant; i++) {
    if (seen[i] == 0) {
      printf("  block %u was asked for but never sent\n", want[i]);
      bad = 1;
    }
  }
  printf("%s\n", bad ? "DEFECT OBSERVED" : "ok: exactly the requested blocks were sent");

  close(fd);
  coap_free_context(ctx);
  coap_cleanup();
  return bad ? 1 : 0;
}
