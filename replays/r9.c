/* C02/C20: match() over-read: prefix filter longer than the last space-separated token of an attribute value.
 * build: cc -I/repo/include -I/repo/_build/include replays/r9.c /repo/_build/libcoap-3.a -lgnutls -lpthread -o /tmp/r9
 * run:   valgrind -q --error-exitcode=9 /tmp/r9   (exit 9 + "Invalid read" at match() before the fix, exit 0 after) */
#include <coap3/coap.h>
#include <stdio.h>
#include <stdlib.h>
#include <string.h>
int main(void) {
  coap_startup(); coap_set_log_level(COAP_LOG_EMERG);
  coap_context_t *ctx = coap_new_context(NULL);
  coap_resource_t *r = coap_resource_init(coap_make_str_const("x"), 0);
  /* libcoap stores its own copy of the value: 4 bytes + the terminator coap_new_str_const() appends */
  coap_add_attr(r, coap_make_str_const("rt"), coap_make_str_const("ab c"), 0);
  coap_add_resource(ctx, r);
  unsigned char buf[256]; size_t len = sizeof(buf);
  /* Uri-Query option bytes of GET /.well-known/core?rt=c%00d* : pattern "c\0d" (3 bytes), prefix match; the last token of the
   * value is "c" (1 byte): memcmp(token, pattern, 3) reads 'c', the terminator, and one byte past the allocation */
  coap_string_t *q = coap_new_string(8); memcpy(q->s, "rt=c\0d*", 7); q->length = 7;
  coap_print_status_t st = coap_print_wellknown(ctx, buf, &len, 0, q);
  printf("status %x, %zu bytes: %.*s\n", st, len, (int)len, buf);
  coap_delete_string(q); coap_free_context(ctx); coap_cleanup();
  return 0;
}
