/*
 * Replay for a59bc15: coap_delete_cache_entry() (public, exported, declared in
 * coap_cache.h) modifies ctx->cache without taking the global lock.
 *
 * Build the library thread-safe + ASan (do this for a59bc15^ and for a59bc15):
 *   cd /tmp/rp/a59bc15
 *   cmake -G Ninja -S . -B _build_asan -DENABLE_DOCS=OFF -DENABLE_TESTS=OFF \
 *     -DENABLE_EXAMPLES=OFF -DCMAKE_BUILD_TYPE=RelWithDebInfo -DENABLE_THREAD_SAFE=ON \
 *     -DCMAKE_C_COMPILER=clang -DCMAKE_C_FLAGS="-fsanitize=address -g -fno-omit-frame-pointer" >/dev/null
 *   cmake --build _build_asan --target coap-3
 * Build + run the replay:
 *   clang -fsanitize=address -g -I_build_asan/include -Iinclude OUT/replay.c \
 *     _build_asan/libcoap-3.a -lgnutls -lpthread -o OUT/replay_asan
 *   ./OUT/replay_asan ; echo "exit=$?"
 * (OUT/replay.sh does all of that for both commits.)
 *
 * Only public API is used (coap3/coap.h).  Schedule:
 *   - E1: cache entry with idle_time 1s and an app-data free callback.
 *   - E2: cache entry with idle_time 0 (never expired by the library; the
 *         application owns its lifetime), added after E1.
 *   - thread A runs coap_io_process() in a loop.  After 1s it runs
 *     coap_expire_cache_entries() under the global lock: HASH_ITER over
 *     ctx->cache with cp=E1, ctmp=E2; E1 is expired so its free callback is
 *     invoked through coap_lock_callback() (global lock stays held).
 *   - while A sits in that callback, thread B (main) calls the public
 *     coap_delete_cache_entry(ctx, E2).
 * Parent:  B is not excluded, unlinks + frees E2 while A is in the middle of
 *          iterating ctx->cache under the lock; A then continues with the
 *          saved ctmp=E2 -> heap-use-after-free in coap_expire_cache_entries
 *          (ASan), and in any case "B finished while A held the lock" => exit 1.
 * Fixed:   B blocks on the global lock until coap_io_process() releases it,
 *          then deletes E2.  Exit 0, ASan clean.
 */
#include <coap3/coap.h>

#include <arpa/inet.h>
#include <pthread.h>
#include <semaphore.h>
#include <stdatomic.h>
#include <stdio.h>
#include <stdlib.h>
#include <string.h>
#include <time.h>

static sem_t sem_in_callback;
static sem_t sem_b_done;
static atomic_int b_done;
static atomic_int stop;
static atomic_int callback_ran;
static atomic_int violation;
static int app_data_e1 = 1;

/* app-data free callback of E1; libcoap calls it with the global lock held */
static void
free_cb(void *data) {
  struct timespec ts;

  (void)data;
  atomic_store(&callback_ran, 1);
  sem_post(&sem_in_callback);
  /* Give the other thread up to 1 second to get its delete through. */
  clock_gettime(CLOCK_REALTIME, &ts);
  ts.tv_sec += 1;
  sem_timedwait(&sem_b_done, &ts);
  if (atomic_load(&b_done)) {
    /* B modified ctx->cache while this thread holds the global lock */
    atomic_store(&violation, 1);
  }
}

static void *
io_thread(void *arg) {
  coap_context_t *ctx = arg;

  while (!atomic_load(&stop)) {
    coap_io_process(ctx, 100);
  }
  return NULL;
}

static coap_cache_entry_t *
make_entry(coap_session_t *session, const char *path, unsigned idle) {
  coap_pdu_t *pdu = coap_new_pdu(COAP_MESSAGE_CON, COAP_REQUEST_CODE_GET, session);
  coap_cache_entry_t *e;

  if (!pdu)
    return NULL;
  coap_add_option(pdu, COAP_OPTION_URI_PATH, strlen(path), (const uint8_t *)path);
  e = coap_new_cache_entry(session, pdu, COAP_CACHE_NOT_RECORD_PDU,
                           COAP_CACHE_NOT_SESSION_BASED, idle);
  coap_delete_pdu(pdu);
  return e;
}

int
main(void) {
  coap_context_t *ctx;
  coap_session_t *session;
  coap_address_t dst;
  coap_cache_entry_t *e1, *e2;
  pthread_t tid;
  struct timespec ts;

  sem_init(&sem_in_callback, 0, 0);
  sem_init(&sem_b_done, 0, 0);

  coap_startup();
  coap_set_log_level(COAP_LOG_WARN);
  ctx = coap_new_context(NULL);
  if (!ctx) {
    fprintf(stderr, "no context\n");
    return 2;
  }
  coap_address_init(&dst);
  dst.addr.sin.sin_family = AF_INET;
  dst.addr.sin.sin_port = htons(5683);
  dst.addr.sin.sin_addr.s_addr = htonl(INADDR_LOOPBACK);
  dst.size = sizeof(struct sockaddr_in);
  session = coap_new_client_session(ctx, NULL, &dst, COAP_PROTO_UDP);
  if (!session) {
    fprintf(stderr, "no session\n");
    return 2;
  }

  e1 = make_entry(session, "a", 1);
  e2 = make_entry(session, "b", 0);
  if (!e1 || !e2) {
    fprintf(stderr, "no cache entries\n");
    return 2;
  }
  coap_cache_set_app_data(e1, &app_data_e1, free_cb);

  pthread_create(&tid, NULL, io_thread, ctx);

  /* wait until thread A is inside E1's free callback (lock held by A) */
  clock_gettime(CLOCK_REALTIME, &ts);
  ts.tv_sec += 10;
  if (sem_timedwait(&sem_in_callback, &ts) != 0) {
    fprintf(stderr, "E1 never expired?\n");
    return 2;
  }

  /* application thread B: delete the entry it owns via the public API */
  coap_delete_cache_entry(ctx, e2);
  atomic_store(&b_done, 1);
  sem_post(&sem_b_done);

  /* let A finish its pass */
  {
    struct timespec d = { 0, 300 * 1000 * 1000 };
    nanosleep(&d, NULL);
  }
  atomic_store(&stop, 1);
  pthread_join(tid, NULL);

  coap_session_release(session);
  coap_free_context(ctx);
  coap_cleanup();

  if (!atomic_load(&callback_ran)) {
    fprintf(stderr, "callback did not run\n");
    return 2;
  }
  if (atomic_load(&violation)) {
    printf("FAIL: coap_delete_cache_entry() modified ctx->cache while another "
           "thread held the global lock inside coap_io_process()\n");
    return 1;
  }
  printf("OK: coap_delete_cache_entry() waited for the global lock\n");
  return 0;
}
