#!/bin/sh
# Usage: OUT/replay.sh            (run from anywhere)
# Builds libcoap (thread-safe, ASan) at a59bc15^ and at a59bc15, runs OUT/replay.c
# against each, and leaves the worktree checked out at a59bc15^.
# Expected: parent -> ASan heap-use-after-free in coap_expire_cache_entries, exit!=0
#           a59bc15 -> "OK: ..." and exit 0.
W=/tmp/rp/a59bc15
cd "$W" || exit 2

build_and_run() {
  rev=$1
  git -C "$W" checkout -q --detach "$rev" || exit 2
  cmake -G Ninja -S . -B _build_asan -DENABLE_DOCS=OFF -DENABLE_TESTS=OFF \
    -DENABLE_EXAMPLES=OFF -DCMAKE_BUILD_TYPE=RelWithDebInfo -DENABLE_THREAD_SAFE=ON \
    -DCMAKE_C_COMPILER=clang \
    -DCMAKE_C_FLAGS="-fsanitize=address -g -fno-omit-frame-pointer" >/dev/null 2>&1 || exit 2
  cmake --build _build_asan --target coap-3 >/dev/null 2>&1 || exit 2
  clang -fsanitize=address -g -I_build_asan/include -Iinclude OUT/replay.c \
    _build_asan/libcoap-3.a -lgnutls -lpthread -o OUT/replay_asan || exit 2
  echo "=== $rev ($(git -C "$W" rev-parse --short HEAD)) ==="
  ./OUT/replay_asan 2>&1 | grep -E "^(OK|FAIL)|ERROR: AddressSanitizer|SUMMARY|#[0-3] "
  ./OUT/replay_asan >/dev/null 2>&1
  rc=$?
  echo "exit=$rc"
  return $rc
}

build_and_run a59bc15;  rc_fix=$?
build_and_run a59bc15^; rc_parent=$?
# worktree is now back at the parent
if [ $rc_parent -ne 0 ] && [ $rc_fix -eq 0 ]; then
  echo "REPLAY CONFIRMED: parent misbehaves (exit=$rc_parent), a59bc15 clean"
  exit 0
fi
echo "REPLAY NOT CONFIRMED: parent exit=$rc_parent fix exit=$rc_fix"
exit 1
