/*
 * C03 (C02): coap_pdu_parse_opt() computes an option's length as uint32_t (up to 65535 + 269) and hands it to
 * coap_pdu_parse_opt_base(coap_pdu_t *, uint16_t len) / coap_pdu_parse_opt_csm(.., uint16_t len), which hold the per-option length limits.
 * The implicit conversion drops bit 16: an option whose length is 65536 + x is judged as one of length x.  An ETag (at most 8 bytes)
 * of 65537 bytes is accepted -- by coap_pdu_parse() on any transport whose messages can be that long (TCP, WS; the datagram parser is
 * handed whatever length it is given) -- and everything behind the parser that relies on the limit (copies of ETag / Request-Tag / Observe
 * values into 8 byte fields) sees a 65537 byte option.
 *
 * build: cc -Wno-deprecated-declarations -I/repo/_build/include -I/repo/include replays/r25.c /repo/_build/libcoap-3.a -lgnutls -lpthread -o /tmp/r25 ; /tmp/r25
 *   before the fix: "FAIL: a message with a 65537 byte ETag was accepted"; after: rejected, "OK"
 */
#include <coap3/coap.h>

#include <stdio.h>
#include <stdlib.h>
#include <string.h>

int
main(void) {
  size_t optlen = 65537, n = 0;
  uint8_t *msg = calloc(1, optlen + 16);
  coap_pdu_t *pdu;
  int ok, ctl;

  coap_startup();
  coap_set_log_level(COAP_LOG_EMERG);
  msg[n++] = 0x40;                       /* ver 1, CON, TKL 0 */
  msg[n++] = 0x01;                       /* GET */
  msg[n++] = 0x12;
  msg[n++] = 0x34;
  msg[n++] = 0x4e;                       /* delta 4 (ETag), length nibble 14 */
  msg[n++] = (uint8_t)((optlen - 269) >> 8);
  msg[n++] = (uint8_t)((optlen - 269) & 0xff);
  n += optlen;                           /* the value */
  pdu = coap_pdu_init(0, 0, 0, n);
  ok = coap_pdu_parse(COAP_PROTO_UDP, msg, n, pdu);
  coap_delete_pdu(pdu);

  /* control: 9 bytes are refused today as well */
  n = 4;
  msg[n++] = 0x49;
  n += 9;
  pdu = coap_pdu_init(0, 0, 0, n);
  ctl = coap_pdu_parse(COAP_PROTO_UDP, msg, n, pdu);
  coap_delete_pdu(pdu);
  free(msg);
  coap_cleanup();
  printf("ETag of 9 bytes: %s; ETag of 65537 bytes: %s\n", ctl ? "accepted" : "rejected", ok ? "accepted" : "rejected");
  if (ok || ctl) {
    printf("FAIL: a message with a %s byte ETag was accepted\n", ok ? "65537" : "9");
    return 1;
  }
  printf("OK\n");
  return 0;
}
