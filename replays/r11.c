/*
 * C08: a Confirmable that coap_dispatch() takes out of the send queue and deletes without lowering session->con_active
 * stays counted for ever: with the count at NSTART everything the application submits afterwards is held in the delay
 * queue and never sent although nothing is in flight.
 *   mode "badcode": the peer acknowledges CON #1 with an ACK whose code class is invalid (1.00)       [remove#1]
 *   mode "non":     the peer sends a NON message that happens to carry the message id of CON #1      [remove#5]
 * In both cases libcoap stops retransmitting CON #1 (the node is removed and deleted), so the exchange is over.
 * Correct: CON #2, submitted while CON #1 was outstanding, is transmitted now.  Defect: it is never transmitted.
 *
 * build: cc -g -I/repo/_build -I/repo/include -I/repo/_build/include replays/r11.c /repo/_build/libcoap-3.a -lgnutls -lpthread -o /tmp/r11
 * run:   /tmp/r11 badcode ; /tmp/r11 non        (exit 1 = defect observed, 0 = correct)
 */
#include "coap3/coap_libcoap_build.h"
/* coap_libcoap_build.h marks the public COAP_API entry points deprecated (for
 * use inside the library); this is an application, so that is just noise. */
#pragma GCC diagnostic ignored "-Wdeprecated-declarations"
#include <stdio.h>
#include <string.h>
#include <unistd.h>
#include <fcntl.h>
#include <arpa/inet.h>
#include <sys/socket.h>

static int peer_fd;
static struct sockaddr_in client_addr;
static socklen_t client_len;

/* drain everything the peer socket has received; record CON mids seen */
static int con_mids[16];
static int n_con;
static int last_non_mid = -1;

static void
peer_drain(void) {
  uint8_t buf[256];
  for (;;) {
    struct sockaddr_in from;
    socklen_t fl = sizeof(from);
    ssize_t n = recvfrom(peer_fd, buf, sizeof(buf), MSG_DONTWAIT,
                         (struct sockaddr *)&from, &fl);
    if (n < 4)
      break;
    client_addr = from;
    client_len = fl;
    int type = (buf[0] >> 4) & 3;
    int mid = (buf[2] << 8) | buf[3];
    printf("  peer <- %s mid=0x%04x code=%d\n",
           type == 0 ? "CON" : type == 1 ? "NON" : type == 2 ? "ACK" : "RST",
           mid, buf[1]);
    if (type == 0) {
      int i, known = 0;
      for (i = 0; i < n_con; i++)
        if (con_mids[i] == mid)
          known = 1;
      if (!known && n_con < 16)
        con_mids[n_con++] = mid;
    } else if (type == 1) {
      last_non_mid = mid;
    }
  }
}

static coap_mid_t
send_get(coap_session_t *s, coap_pdu_type_t type, const char *path, uint8_t tok) {
  coap_pdu_t *p = coap_new_pdu(type, COAP_REQUEST_CODE_GET, s);
  if (!p)
    return COAP_INVALID_MID;
  coap_add_token(p, 1, &tok);
  coap_add_option(p, COAP_OPTION_URI_PATH, strlen(path), (const uint8_t *)path);
  return coap_send(s, p);
}

/* s == NULL: count every node (nodes on session->delayqueue carry no session) */
static int
count_queue(coap_queue_t *q, coap_session_t *s, int con_only) {
  int n = 0;
  for (; q; q = q->next)
    if ((!s || q->session == s) &&
        (!con_only || q->pdu->type == COAP_MESSAGE_CON))
      n++;
  return n;
}

int
main(int argc, char **argv) {
  struct sockaddr_in pa;
  socklen_t pl = sizeof(pa);
  coap_address_t dst;
  coap_context_t *ctx;
  coap_session_t *s;
  int i, rc = 0;
  int non = argc > 1 && strcmp(argv[1], "non") == 0;

  setvbuf(stdout, NULL, _IONBF, 0);
  alarm(20); /* watchdog */
  peer_fd = socket(AF_INET, SOCK_DGRAM, 0);
  memset(&pa, 0, sizeof(pa));
  pa.sin_family = AF_INET;
  pa.sin_addr.s_addr = htonl(INADDR_LOOPBACK);
  if (bind(peer_fd, (struct sockaddr *)&pa, sizeof(pa)) < 0 || getsockname(peer_fd, (struct sockaddr *)&pa, &pl) < 0)
    return 2;
  coap_startup();
  coap_set_log_level(COAP_LOG_WARN);
  ctx = coap_new_context(NULL);
  coap_address_init(&dst);
  dst.size = sizeof(struct sockaddr_in);
  memcpy(&dst.addr.sin, &pa, sizeof(pa));
  s = coap_new_client_session(ctx, NULL, &dst, COAP_PROTO_UDP);
  if (!ctx || !s)
    return 2;
  printf("NSTART = %u, mode %s\n", coap_session_get_nstart(s), non ? "non" : "badcode");
  coap_mid_t m1 = send_get(s, COAP_MESSAGE_CON, "one", 1);
  coap_mid_t m2 = send_get(s, COAP_MESSAGE_CON, "two", 3);
  coap_io_process(ctx, 50);
  usleep(20000);
  peer_drain();
  printf("  mids: CON#1=0x%04x CON#2=0x%04x; con_active=%u sendqueue=%d delayqueue=%d seen by peer=%d\n", m1, m2,
         s->con_active, count_queue(ctx->sendqueue, s, 1), count_queue(s->delayqueue, NULL, 0), n_con);
  if (n_con != 1 || s->con_active != 1 || count_queue(s->delayqueue, NULL, 0) != 1)
    return 2;
  if (non) {
    /* NON 2.05 with token 9 and the message id of CON #1 */
    uint8_t msg[5] = { 0x51, 0x45, (uint8_t)(m1 >> 8), (uint8_t)m1, 9 };
    printf("peer -> NON 2.05 mid=0x%04x\n", m1);
    sendto(peer_fd, msg, 5, 0, (struct sockaddr *)&client_addr, client_len);
  } else {
    /* ACK with code 1.00 (class 1 is not a valid code class) for CON #1 */
    uint8_t msg[5] = { 0x61, 0x20, (uint8_t)(m1 >> 8), (uint8_t)m1, 1 };
    printf("peer -> ACK code 1.00 mid=0x%04x\n", m1);
    sendto(peer_fd, msg, 5, 0, (struct sockaddr *)&client_addr, client_len);
  }
  for (i = 0; i < 5; i++) {
    coap_io_process(ctx, 50);
    usleep(10000);
  }
  peer_drain();
  printf("  after: con_active=%u, CONs in sendqueue=%d, delayqueue=%d, distinct CONs seen by peer=%d\n",
         s->con_active, count_queue(ctx->sendqueue, s, 1), count_queue(s->delayqueue, NULL, 0), n_con);
  if (count_queue(ctx->sendqueue, s, 1) == 0 && count_queue(s->delayqueue, NULL, 0) == 1) {
    printf("DEFECT: nothing is in flight (CON #1 was taken out of the send queue) but con_active is still %u: CON #2 is held for ever\n", s->con_active);
    rc = 1;
  } else if (n_con == 2) {
    printf("OK: CON #2 went out once CON #1 was finished\n");
  } else {
    printf("OK/other: CON #1 still in flight (sendqueue %d)\n", count_queue(ctx->sendqueue, s, 1));
  }
  coap_session_release(s);
  coap_free_context(ctx);
  coap_cleanup();
  close(peer_fd);
  return rc;
}
