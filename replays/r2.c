#include <coap3/coap.h>
#include <stdio.h>
#include <stdlib.h>
#include <string.h>
int main(void){
  coap_startup();
  /* C16 (a): query reconstruction not injective for '&' */
  coap_pdu_t *a = coap_pdu_init(COAP_MESSAGE_CON, COAP_REQUEST_CODE_GET, 1, 200);
  coap_pdu_t *b = coap_pdu_init(COAP_MESSAGE_CON, COAP_REQUEST_CODE_GET, 2, 200);
  coap_add_option(a, COAP_OPTION_URI_QUERY, 3, (const uint8_t*)"x&y");
  coap_add_option(b, COAP_OPTION_URI_QUERY, 1, (const uint8_t*)"x");
  coap_add_option(b, COAP_OPTION_URI_QUERY, 1, (const uint8_t*)"y");
  coap_string_t *qa = coap_get_query(a), *qb = coap_get_query(b);
  printf("C16a query A='%.*s' B='%.*s' equal=%d\n",(int)qa->length,qa->s,(int)qb->length,qb->s, coap_string_equal(qa,qb));
  /* C16 (b): "%4" in an exact-size heap buffer: read one past the end */
  uint8_t *s = malloc(4); memcpy(s,"ab%4",4);
  unsigned char buf[64]; size_t buflen = sizeof buf;
  int n = coap_split_path(s, 4, buf, &buflen);
  printf("C16b split_path segments=%d\n", n);
  free(s);
  coap_delete_string(qa); coap_delete_string(qb); coap_delete_pdu(a); coap_delete_pdu(b);
  coap_cleanup(); return 0; }
