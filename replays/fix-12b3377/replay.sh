#!/bin/sh
# Usage: OUT/replay.sh            (builds whatever is checked out, runs replay natively and under valgrind)
set -e
cd /tmp/rp/12b3377
cmake -G Ninja -S . -B _build -DENABLE_DOCS=OFF -DENABLE_TESTS=OFF -DENABLE_EXAMPLES=OFF -DCMAKE_BUILD_TYPE=RelWithDebInfo >/dev/null 2>&1
cmake --build _build --target coap-3 >/dev/null
cc -g -O0 -I_build -Iinclude -I_build/include OUT/replay.c _build/libcoap-3.a \
   -Wl,--wrap=malloc -Wl,--wrap=calloc -Wl,--wrap=realloc -Wl,--wrap=free \
   -lgnutls -lpthread -o OUT/replay
set +e
echo "== $(git rev-parse --short HEAD): native run"
./OUT/replay; rc1=$?
echo "exit=$rc1"
echo "== $(git rev-parse --short HEAD): valgrind run"
valgrind -q --leak-check=full --show-leak-kinds=definite,indirect --error-exitcode=9 ./OUT/replay; rc2=$?
echo "valgrind exit=$rc2"
[ $rc1 -eq 0 ] && [ $rc2 -eq 0 ]
