/*
 * Replay for commit 12b3377:
 *   coap_handle_response_send_block() leaked the re-request PDU when
 *   coap_add_block() failed (Q-Block1 "4.08 missing blocks" path).
 *
 * Scenario (everything a network peer can legitimately do):
 *   - A libcoap CLIENT (public API only) with COAP_BLOCK_USE_LIBCOAP |
 *     COAP_BLOCK_TRY_Q_BLOCK sends a NON PUT with a 3000 byte body via
 *     coap_add_data_large_request().
 *   - The "server" is a plain UDP socket in a second thread.  It
 *       1. answers the client's Q-Block probe (CON GET /.well-known/core with
 *          Q-Block2) with an ACK 2.05 carrying a Q-Block2 option, so the
 *          client decides the peer supports RFC 9177 and sends the body using
 *          Q-Block1;
 *       2. on the first Q-Block1 PUT block it answers NON 4.08 with
 *          Content-Format 272 (application/missing-blocks+cbor-seq) whose
 *          CBOR payload names block 1000 - a block that lies beyond the end of
 *          the 3000 byte body (3 blocks of 1024).
 *   - In the client coap_handle_response_send_block() duplicates the skeletal
 *     PDU, calls coap_add_block() which returns 0 because len <= start, and
 *     at the parent commit jumps to fail_body without releasing that PDU.
 *
 * Detection: malloc/calloc/realloc/free issued by libcoap-3.a (and this file)
 * are counted through -Wl,--wrap.  After coap_free_context()+coap_cleanup()
 * the number of live allocations must be 0.  (Running under valgrind shows
 * the same leak with the allocation stack, see NOTES.md.)
 *
 * Build + run (from /tmp/rp/12b3377, library built with the default
 * ENABLE_Q_BLOCK=ON):
 *
 *   cmake -G Ninja -S . -B _build -DENABLE_DOCS=OFF -DENABLE_TESTS=OFF \
 *         -DENABLE_EXAMPLES=OFF -DCMAKE_BUILD_TYPE=RelWithDebInfo >/dev/null
 *   cmake --build _build --target coap-3
 *   cc -g -O0 -I_build -Iinclude -I_build/include OUT/replay.c _build/libcoap-3.a \
 *      -Wl,--wrap=malloc -Wl,--wrap=calloc -Wl,--wrap=realloc -Wl,--wrap=free \
 *      -lgnutls -lpthread -o OUT/replay
 *   ./OUT/replay ; echo "exit=$?"
 *   valgrind --leak-check=full --error-exitcode=9 ./OUT/replay
 *
 * Expected: parent (12b3377^): "LEAK: 2 live allocation(s)" exit 1,
 *                              valgrind "definitely lost ... coap_pdu_duplicate_lkd"
 *           12b3377          : "OK: 0 live allocations" exit 0, valgrind clean
 * Exit 2 means the scenario itself did not run as intended (inconclusive).
 */
#include <coap3/coap.h>

#include <arpa/inet.h>
#include <netinet/in.h>
#include <pthread.h>
#include <stdio.h>
#include <stdlib.h>
#include <string.h>
#include <sys/socket.h>
#include <sys/time.h>
#include <unistd.h>

/* ---------- allocation accounting (libcoap-3.a + this file) ---------- */
void *__real_malloc(size_t);
void *__real_calloc(size_t, size_t);
void *__real_realloc(void *, size_t);
void __real_free(void *);

static long live; /* atomically updated */

void *
__wrap_malloc(size_t n) {
  void *p = __real_malloc(n);
  if (p)
    __atomic_add_fetch(&live, 1, __ATOMIC_SEQ_CST);
  return p;
}
void *
__wrap_calloc(size_t a, size_t b) {
  void *p = __real_calloc(a, b);
  if (p)
    __atomic_add_fetch(&live, 1, __ATOMIC_SEQ_CST);
  return p;
}
void *
__wrap_realloc(void *o, size_t n) {
  void *p = __real_realloc(o, n);
  if (!o && p)
    __atomic_add_fetch(&live, 1, __ATOMIC_SEQ_CST);
  else if (o && n == 0 && !p)
    __atomic_sub_fetch(&live, 1, __ATOMIC_SEQ_CST);
  return p;
}
void
__wrap_free(void *p) {
  if (p)
    __atomic_sub_fetch(&live, 1, __ATOMIC_SEQ_CST);
  __real_free(p);
}

/* ---------- fake peer: raw UDP socket ---------- */
static int srv_fd = -1;
static volatile int srv_stop;
static volatile int srv_probe_answered;
static volatile int srv_408_sent;
static volatile int srv_put_blocks_seen;
static volatile int srv_put_after_408;

static int
has_option(const uint8_t *p, size_t len, unsigned want) {
  /* p points just after the token */
  unsigned num = 0;
  size_t i = 0;

  while (i < len && p[i] != 0xFF) {
    unsigned d = p[i] >> 4, l = p[i] & 0x0f;
    i++;
    if (d == 13) {
      d = 13 + p[i++];
    } else if (d == 14) {
      d = 269 + (p[i] << 8) + p[i + 1];
      i += 2;
    }
    if (l == 13) {
      l = 13 + p[i++];
    } else if (l == 14) {
      l = 269 + (p[i] << 8) + p[i + 1];
      i += 2;
    }
    num += d;
    if (num == want)
      return 1;
    i += l;
  }
  return 0;
}

static void *
server_thread(void *arg) {
  uint8_t in[2048], out[128];
  (void)arg;

  while (!srv_stop) {
    struct sockaddr_in from;
    socklen_t fl = sizeof(from);
    ssize_t n = recvfrom(srv_fd, in, sizeof(in), 0, (struct sockaddr *)&from, &fl);
    unsigned type, tkl, code;
    size_t o = 0;

    if (n < 4)
      continue;
    type = (in[0] >> 4) & 3;
    tkl = in[0] & 0x0f;
    code = in[1];
    if (tkl > 8 || (size_t)n < 4 + tkl)
      continue;

    if (code == 0x01 && type == 0 /* CON GET: the Q-Block probe */) {
      static const char wk[] = "</a>;ct=0,</bb>;";  /* 16 bytes */
      out[o++] = 0x60 | tkl;          /* ver 1, ACK */
      out[o++] = 0x45;                /* 2.05 */
      out[o++] = in[2];
      out[o++] = in[3];
      memcpy(&out[o], &in[4], tkl);
      o += tkl;
      out[o++] = 0xC1;                /* Content-Format(12), len 1 */
      out[o++] = 40;                  /* application/link-format */
      out[o++] = 0xD1;                /* delta 13+6 = 19 -> Q-Block2(31), len 1 */
      out[o++] = 0x06;
      out[o++] = 0x08;                /* num 0, M=1, szx 0 */
      out[o++] = 0xFF;
      memcpy(&out[o], wk, 16);
      o += 16;
      sendto(srv_fd, out, o, 0, (struct sockaddr *)&from, fl);
      srv_probe_answered = 1;
    } else if (code == 0x03 /* PUT */ &&
               has_option(&in[4 + tkl], (size_t)n - 4 - tkl, 19 /* Q-Block1 */)) {
      srv_put_blocks_seen++;
      if (srv_408_sent) {
        srv_put_after_408++;
        continue;
      }
      out[o++] = 0x50 | tkl;          /* ver 1, NON */
      out[o++] = 0x88;                /* 4.08 Request Entity Incomplete */
      out[o++] = 0x12;
      out[o++] = 0x34;
      memcpy(&out[o], &in[4], tkl);   /* token of the block just received */
      o += tkl;
      out[o++] = 0xC2;                /* Content-Format(12), len 2 */
      out[o++] = 0x01;                /* 272 = application/missing-blocks+cbor-seq */
      out[o++] = 0x10;
      out[o++] = 0xFF;
      out[o++] = 0x19;                /* CBOR uint16 */
      out[o++] = 0x03;                /* 1000: far beyond the 3 blocks of the body */
      out[o++] = 0xE8;
      sendto(srv_fd, out, o, 0, (struct sockaddr *)&from, fl);
      srv_408_sent = 1;
    }
  }
  return NULL;
}

/* ---------- libcoap client ---------- */
static int got_response;
static int response_code;
static int xmit_fail_events;

static coap_response_t
resp_handler(coap_session_t *s, const coap_pdu_t *sent, const coap_pdu_t *rcvd,
             const coap_mid_t mid) {
  (void)s;
  (void)sent;
  (void)mid;
  got_response = 1;
  response_code = coap_pdu_get_code(rcvd);
  return COAP_RESPONSE_OK;
}

static int
event_handler(coap_session_t *s, const coap_event_t ev) {
  (void)s;
  if (ev == COAP_EVENT_XMIT_BLOCK_FAIL)
    xmit_fail_events++;
  return 0;
}

static uint8_t body[3000];

int
main(void) {
  struct sockaddr_in sa;
  socklen_t sl = sizeof(sa);
  struct timeval tv = { 0, 100000 };
  pthread_t th;
  coap_context_t *ctx;
  coap_session_t *sess;
  coap_address_t dst;
  coap_pdu_t *pdu;
  uint8_t tok[8];
  size_t tokl;
  int i;
  long base, end;

  /* fake server socket */
  srv_fd = socket(AF_INET, SOCK_DGRAM, 0);
  memset(&sa, 0, sizeof(sa));
  sa.sin_family = AF_INET;
  sa.sin_addr.s_addr = htonl(INADDR_LOOPBACK);
  sa.sin_port = 0;
  if (srv_fd < 0 || bind(srv_fd, (struct sockaddr *)&sa, sizeof(sa)) < 0 ||
      getsockname(srv_fd, (struct sockaddr *)&sa, &sl) < 0) {
    perror("server socket");
    return 2;
  }
  setsockopt(srv_fd, SOL_SOCKET, SO_RCVTIMEO, &tv, sizeof(tv));
  pthread_create(&th, NULL, server_thread, NULL);

  base = __atomic_load_n(&live, __ATOMIC_SEQ_CST);

  coap_startup();
  coap_set_log_level(getenv("REPLAY_DEBUG") ? COAP_LOG_DEBUG : COAP_LOG_WARN);
  ctx = coap_new_context(NULL);
  if (!ctx)
    return 2;
  coap_context_set_block_mode(ctx, COAP_BLOCK_USE_LIBCOAP | COAP_BLOCK_TRY_Q_BLOCK);
  coap_register_response_handler(ctx, resp_handler);
  coap_register_event_handler(ctx, event_handler);

  coap_address_init(&dst);
  dst.size = sizeof(struct sockaddr_in);
  dst.addr.sin = sa;
  sess = coap_new_client_session(ctx, NULL, &dst, COAP_PROTO_UDP);
  if (!sess)
    return 2;

  memset(body, 'x', sizeof(body));
  pdu = coap_new_pdu(COAP_MESSAGE_NON, COAP_REQUEST_CODE_PUT, sess);
  if (!pdu)
    return 2;
  coap_session_new_token(sess, &tokl, tok);
  coap_add_token(pdu, tokl, tok);
  coap_add_option(pdu, COAP_OPTION_URI_PATH, 4, (const uint8_t *)"data");
  if (!coap_add_data_large_request(sess, pdu, sizeof(body), body, NULL, NULL)) {
    fprintf(stderr, "coap_add_data_large_request failed\n");
    return 2;
  }
  if (coap_send(sess, pdu) == COAP_INVALID_MID) {
    fprintf(stderr, "coap_send failed\n");
    return 2;
  }

  for (i = 0; i < 30 && !got_response; i++)
    coap_io_process(ctx, 100);

  srv_stop = 1;
  pthread_join(th, NULL);
  close(srv_fd);

  coap_session_release(sess);
  coap_free_context(ctx);
  coap_cleanup();

  end = __atomic_load_n(&live, __ATOMIC_SEQ_CST);

  printf("peer: probe answered=%d, Q-Block1 PUT blocks seen=%d, 4.08 sent=%d, "
         "blocks arriving after the 4.08=%d\n",
         srv_probe_answered, srv_put_blocks_seen, srv_408_sent, srv_put_after_408);
  printf("client: response seen=%d code=%d.%02d, XMIT_BLOCK_FAIL events=%d\n",
         got_response, response_code >> 5, response_code & 0x1f, xmit_fail_events);

  if (!srv_probe_answered || !srv_408_sent || !got_response ||
      response_code != COAP_RESPONSE_CODE(500) || xmit_fail_events != 1) {
    printf("INCONCLUSIVE: the fail_body path of the 4.08 handling was not reached\n");
    return 2;
  }
  if (end - base != 0) {
    printf("LEAK: %ld live allocation(s) made by libcoap remain after "
           "coap_free_context()+coap_cleanup()\n", end - base);
    return 1;
  }
  printf("OK: 0 live allocations after coap_free_context()+coap_cleanup()\n");
  return 0;
}
