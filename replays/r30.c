/* replays/r30.c - R-NULL-BELIEF (C18/C12): coap_delete_resource() of a resource that was never added to a context.
 * coap_delete_resource() / coap_delete_resource_lkd() handle resource->context == NULL explicitly ("Input context is
 * ignored"; no lock, no unlink), then call coap_free_resource(), which dereferences resource->context unconditionally.
 * This is the clean-up path of an application whose set-up failed between coap_resource_init() and coap_add_resource()
 * (for instance because coap_add_attr() could not allocate): the documented way to release the resource crashes.
 *   build: cc -O1 -g -I/repo/_build/include -I/repo/include r30.c /repo/_build/libcoap-3.a -lgnutls -lpthread -o r30
 *   parent of the fix: SIGSEGV in coap_free_resource (exit 139);  with the fix: "ok", exit 0 (valgrind: no leak, no error)
 */
#include <coap3/coap.h>
#include <stdio.h>
int main(void) {
  coap_startup();
  coap_resource_t *r = coap_resource_init(coap_make_str_const("sensors/temp"), 0);
  if (!r) return 2;
  coap_add_attr(r, coap_make_str_const("rt"), coap_make_str_const("\"temperature\""), 0);
  /* set-up abandoned before coap_add_resource(): release what was built */
  int rc = coap_delete_resource(NULL, r);
  printf("ok rc=%d\n", rc);
  coap_cleanup();
  return rc == 1 ? 0 : 1;
}
