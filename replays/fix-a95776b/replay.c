/*
 * Replay for a95776b ("OSCORE Appendix B.2 / Echo re-request paths lowered
 * con_active a second time").
 *
 * Build + run (from /tmp/rp/a95776b, library already built in _build):
 *   cc -g -O1 -I_build -Iinclude -I_build/include OUT/replay.c \
 *      _build/libcoap-3.a -lgnutls -lpthread -o OUT/replay
 *   OUT/replay            # scenario "non"  (the commit's claim), ~6 s
 *   OUT/replay sep        # scenario "sep"  (NSTART=2, CON + separate 4.01+Echo), ~11 s
 *   OUT/replay piggy      # scenario "piggy" (ordinary CON + piggybacked 4.01+Echo;
 *                         #  NOT part of the verdict - shows what a95776b breaks)
 * (a second argument, e.g. "OUT/replay non v", turns on OSCORE logging)
 * Observed: parent  : non -> exit 1, sep -> exit 1, piggy -> exit 0
 *           a95776b : non -> exit 0, sep -> exit 0, piggy -> exit 1 (regression)
 *
 * Topology (one process, one thread, everything over real UDP sockets):
 *
 *   libcoap OSCORE client  <-->  relay (sockets A,B: "the network")  <-->  libcoap OSCORE server
 *
 * The relay only forwards, holds back or drops whole datagrams - what an IP
 * network may do.  Client and server use nothing but the public API; the
 * internal header is used only to READ session->con_active / sendqueue.
 *
 * Scenario "non" (default):
 *   1. client sends NON GET (token T1).  Server (RFC8613 B.1.2 is on by
 *      default) answers NON 4.01 + Echo.  The relay delays that answer.
 *   2. client sends CON GET (token T2) (coap_send() first waits its 5 s
 *      "doing_first" timeout).  The relay drops it, so it stays unacked in the
 *      send queue: con_active == 1 == NSTART.
 *   3. relay delivers the delayed 4.01+Echo for T1.
 *        parent : coap_cancel_all_messages() finds nothing for T1 (NON is
 *                 never queued) but con_active is lowered anyway -> 0 although
 *                 CON T2 is still in flight.
 *        a95776b: con_active stays 1.
 *   4. the Echo re-request / 2.05 for T1 is relayed normally.
 *   5. client sends CON GET (token T3).
 *        parent : goes on the wire at once -> 2 unacknowledged CONs with
 *                 NSTART == 1 (seen by the relay).
 *        a95776b: held in session->delayqueue until T2 is done.
 * Exit status 1 if con_active != #CONs in sendqueue, or if the relay sees
 * more un-ACKed CONs than NSTART.
 */
#include <coap3/coap.h>
#include "coap3/coap_libcoap_build.h"

#include <arpa/inet.h>
#include <poll.h>
#include <stdio.h>
#include <stdlib.h>
#include <string.h>
#include <sys/socket.h>
#include <unistd.h>

static const char conf_client[] =
    "master_secret,hex,\"0102030405060708090a0b0c0d0e0f10\"\n"
    "master_salt,hex,\"9e7ca92223786340\"\n"
    "sender_id,ascii,\"client\"\n"
    "recipient_id,ascii,\"server\"\n";
static const char conf_server[] =
    "master_secret,hex,\"0102030405060708090a0b0c0d0e0f10\"\n"
    "master_salt,hex,\"9e7ca92223786340\"\n"
    "sender_id,ascii,\"server\"\n"
    "recipient_id,ascii,\"client\"\n";

static coap_context_t *ctx_c, *ctx_s;
static coap_session_t *sess;
static int sock_a, sock_b;
static struct sockaddr_in addr_a, addr_b, addr_srv, addr_cli;
static int have_cli;
static int n_resp;
static int served;

typedef struct {
  uint8_t buf[2048];
  ssize_t len;
} dgram_t;

#define TYPE(d) (((d)->buf[0] >> 4) & 3)
#define MID(d)  (((d)->buf[2] << 8) | (d)->buf[3])
static const char *tname[] = { "CON", "NON", "ACK", "RST" };

/* CON mids seen from the client and not yet ACKed back to it */
static int unacked[64], n_unacked, max_unacked;

static int
mk_udp(struct sockaddr_in *a) {
  int s = socket(AF_INET, SOCK_DGRAM, 0);
  socklen_t l = sizeof(*a);
  memset(a, 0, sizeof(*a));
  a->sin_family = AF_INET;
  a->sin_addr.s_addr = htonl(INADDR_LOOPBACK);
  if (s < 0 || bind(s, (struct sockaddr *)a, sizeof(*a)) < 0 ||
      getsockname(s, (struct sockaddr *)a, &l) < 0) {
    perror("udp");
    exit(2);
  }
  return s;
}

static int
rd(int s, dgram_t *d, int from_client) {
  struct pollfd p = { s, POLLIN, 0 };
  struct sockaddr_in from;
  socklen_t fl = sizeof(from);
  if (poll(&p, 1, 100) <= 0)
    return 0;
  d->len = recvfrom(s, d->buf, sizeof(d->buf), 0, (struct sockaddr *)&from, &fl);
  if (d->len < 4)
    return 0;
  if (from_client) {
    addr_cli = from;
    have_cli = 1;
  }
  return 1;
}

/* client -> relay.  Returns 1 if a datagram was taken off the wire */
static int
from_client(dgram_t *d) {
  int i;
  if (!rd(sock_a, d, 1))
    return 0;
  printf("   wire c->s: %s mid=0x%04x len=%zd\n", tname[TYPE(d)], MID(d), d->len);
  if (TYPE(d) == 0) {
    for (i = 0; i < n_unacked; i++)
      if (unacked[i] == MID(d))
        break;
    if (i == n_unacked)
      unacked[n_unacked++] = MID(d);
    if (n_unacked > max_unacked)
      max_unacked = n_unacked;
  }
  return 1;
}
static void
to_server(dgram_t *d) {
  sendto(sock_b, d->buf, d->len, 0, (struct sockaddr *)&addr_srv, sizeof(addr_srv));
}
static int
from_server(dgram_t *d) {
  if (!rd(sock_b, d, 0))
    return 0;
  printf("   wire s->c: %s mid=0x%04x len=%zd\n", tname[TYPE(d)], MID(d), d->len);
  return 1;
}
static void
to_client(dgram_t *d) {
  int i;
  if (TYPE(d) == 2 || TYPE(d) == 3) {
    for (i = 0; i < n_unacked; i++)
      if (unacked[i] == MID(d)) {
        unacked[i] = unacked[--n_unacked];
        break;
      }
  }
  sendto(sock_a, d->buf, d->len, 0, (struct sockaddr *)&addr_cli, sizeof(addr_cli));
}

static void
run(coap_context_t *c) {
  int i;
  for (i = 0; i < 3; i++)
    coap_io_process(c, 30);
}

static void
hnd_get(coap_resource_t *r, coap_session_t *s, const coap_pdu_t *req,
        const coap_string_t *q, coap_pdu_t *resp) {
  (void)r;
  (void)s;
  (void)req;
  (void)q;
  served++;
  coap_pdu_set_code(resp, COAP_RESPONSE_CODE_CONTENT);
  coap_add_data(resp, 2, (const uint8_t *)"ok");
}

static coap_response_t
hnd_resp(coap_session_t *s, const coap_pdu_t *sent, const coap_pdu_t *rcvd,
         const coap_mid_t mid) {
  coap_bin_const_t t = coap_pdu_get_token(rcvd);
  (void)s;
  (void)sent;
  (void)mid;
  n_resp++;
  printf("   app: response %d.%02d token[0]=0x%02x\n",
         COAP_RESPONSE_CLASS(coap_pdu_get_code(rcvd)),
         coap_pdu_get_code(rcvd) & 0x1f, t.length ? t.s[0] : 0);
  return COAP_RESPONSE_OK;
}

static coap_mid_t
request(coap_pdu_type_t type, uint8_t tok) {
  coap_pdu_t *p = coap_new_pdu(type, COAP_REQUEST_CODE_GET, sess);
  coap_add_token(p, 1, &tok);
  coap_add_option(p, COAP_OPTION_URI_PATH, 1, (const uint8_t *)"x");
  return coap_send(sess, p);
}

/* read-only look at library state */
static int
cons_in_sendqueue(void) {
  int n = 0;
  coap_queue_t *q;
  for (q = ctx_c->sendqueue; q; q = q->next)
    if (q->session == sess && q->pdu->type == COAP_MESSAGE_CON)
      n++;
  return n;
}
static int
in_delayqueue(void) {
  int n = 0;
  coap_queue_t *q;
  for (q = sess->delayqueue; q; q = q->next)
    n++;
  return n;
}
static void
show(const char *when) {
  printf("## %s: con_active=%u nstart=%u CONs-in-sendqueue=%d delayqueue=%d "
         "wire-unacked-CONs=%d\n", when, sess->con_active,
         coap_session_get_nstart(sess), cons_in_sendqueue(), in_delayqueue(),
         n_unacked);
}

int
main(int argc, char **argv) {
  int piggy = argc > 1 && strcmp(argv[1], "piggy") == 0;
  int sep = argc > 1 && strcmp(argv[1], "sep") == 0;
  coap_address_t a;
  coap_str_const_t cs;
  coap_resource_t *r;
  dgram_t d, held;
  int bad = 0;
  int tmp;
  struct sockaddr_in sa;

  setvbuf(stdout, NULL, _IONBF, 0);
  coap_startup();
  coap_set_log_level(argc > 2 ? COAP_LOG_OSCORE : COAP_LOG_WARN);

  sock_a = mk_udp(&addr_a);
  sock_b = mk_udp(&addr_b);
  tmp = mk_udp(&sa);          /* pick a free port for the server */
  close(tmp);
  addr_srv = sa;

  /* ---- server ---- */
  ctx_s = coap_new_context(NULL);
  coap_address_init(&a);
  a.size = sizeof(struct sockaddr_in);
  memcpy(&a.addr.sin, &addr_srv, sizeof(addr_srv));
  if (!coap_new_endpoint(ctx_s, &a, COAP_PROTO_UDP)) {
    fprintf(stderr, "endpoint\n");
    return 2;
  }
  cs.s = (const uint8_t *)conf_server;
  cs.length = strlen(conf_server);
  if (!coap_context_oscore_server(ctx_s, coap_new_oscore_conf(cs, NULL, NULL, 0))) {
    fprintf(stderr, "oscore server\n");
    return 2;
  }
  r = coap_resource_init(coap_make_str_const("x"), 0);
  coap_register_request_handler(r, COAP_REQUEST_GET, hnd_get);
  coap_add_resource(ctx_s, r);

  /* ---- client, talks to relay socket A ---- */
  ctx_c = coap_new_context(NULL);
  coap_context_set_block_mode(ctx_c, COAP_BLOCK_USE_LIBCOAP);
  coap_register_response_handler(ctx_c, hnd_resp);
  coap_address_init(&a);
  a.size = sizeof(struct sockaddr_in);
  memcpy(&a.addr.sin, &addr_a, sizeof(addr_a));
  cs.s = (const uint8_t *)conf_client;
  cs.length = strlen(conf_client);
  sess = coap_new_client_session_oscore(ctx_c, NULL, &a, COAP_PROTO_UDP,
                                        coap_new_oscore_conf(cs, NULL, NULL, 0));
  if (!sess) {
    fprintf(stderr, "client session\n");
    return 2;
  }

  if (piggy) {
    /*
     * Ordinary flow: CON request, server answers ACK 4.01+Echo (piggybacked),
     * client re-requests with Echo, server answers ACK 2.05.  Nothing is
     * delayed or dropped.
     */
    int i;
    printf("# piggy: CON GET token 0x11, loss-free network\n");
    request(COAP_MESSAGE_CON, 0x11);
    for (i = 0; i < 6 && n_resp == 0; i++) {
      while (from_client(&d)) {
        to_server(&d);
        run(ctx_s);
      }
      while (from_server(&d)) {
        to_client(&d);
        run(ctx_c);
      }
      show("after round");
    }
    if (n_resp != 1) {
      printf("FAIL: application never got the 2.05 (responses=%d, request "
             "stuck in delayqueue=%d)\n", n_resp, in_delayqueue());
      bad = 1;
    }
    if (sess->con_active != (unsigned)cons_in_sendqueue()) {
      printf("FAIL: con_active=%u but %d CON(s) in sendqueue\n",
             sess->con_active, cons_in_sendqueue());
      bad = 1;
    }
    goto done;
  }

  if (sep) {
    /*
     * The commit message's literal case: NSTART raised to 2 through the
     * public API, request is CON, and the peer answers with a SEPARATE
     * Confirmable 4.01+Echo without an empty ACK first (RFC7252 5.2.2 allows
     * that).  The libcoap server always piggybacks this answer, so the relay
     * plays such a peer by changing the two unprotected outer header fields
     * (type ACK->CON, fresh MID) - OSCORE does not cover them.
     */
    coap_session_set_nstart(sess, 2);
    printf("# s1. CON GET token 0x11; the 4.01+Echo is held by the network\n");
    request(COAP_MESSAGE_CON, 0x11);
    if (!from_client(&d))
      return 2;
    to_server(&d);
    run(ctx_s);
    if (!from_server(&held))
      return 2;
    show("after s1");
    printf("# s2. CON GET token 0x22 (after coap_send's ~5 s wait); lost by the network\n");
    request(COAP_MESSAGE_CON, 0x22);
    while (from_client(&d))
      ;
    show("after s2");
    if (sess->con_active != 2 || cons_in_sendqueue() != 2) {
      printf("unexpected state, scenario not set up\n");
      return 2;
    }
    printf("# s3. 4.01+Echo for 0x11 arrives as separate CON mid=0x7777\n");
    {
      /* the separate response also answers request mid MID(&held) (RFC7252
         5.2.2: client stops retransmitting it), so it is no longer in flight */
      int i;
      for (i = 0; i < n_unacked; i++)
        if (unacked[i] == MID(&held)) {
          unacked[i] = unacked[--n_unacked];
          break;
        }
    }
    held.buf[0] &= ~0x30;  /* type = CON */
    held.buf[2] = 0x77;
    held.buf[3] = 0x77;
    to_client(&held);
    coap_io_process(ctx_c, 30);
    while (from_client(&d))   /* ACK for 0x7777 and the Echo re-request (CON) */
      ;
    show("after s3");
    if (sess->con_active != (unsigned)cons_in_sendqueue()) {
      printf("FAIL: con_active=%u but %d Confirmable(s) in the send queue\n",
             sess->con_active, cons_in_sendqueue());
      bad = 1;
    }
    printf("# s4. CON GET token 0x33 (again ~5 s wait) with two CONs already in flight\n");
    request(COAP_MESSAGE_CON, 0x33);
    while (from_client(&d))
      ;
    show("after s4");
    if (max_unacked > (int)coap_session_get_nstart(sess)) {
      printf("FAIL: %d unacknowledged Confirmables on the wire, NSTART is %u\n",
             max_unacked, coap_session_get_nstart(sess));
      bad = 1;
    }
    goto done;
  }

  printf("# 1. NON GET token 0x11; server's 4.01+Echo is delayed by the network\n");
  request(COAP_MESSAGE_NON, 0x11);
  if (!from_client(&d))
    return 2;
  to_server(&d);
  run(ctx_s);
  if (!from_server(&held))
    return 2;
  show("after step 1");

  printf("# 2. CON GET token 0x22 (coap_send waits ~5 s for the first response); "
         "the network loses it\n");
  request(COAP_MESSAGE_CON, 0x22);
  if (!from_client(&d) || TYPE(&d) != 0)
    return 2;
  show("after step 2");
  if (sess->con_active != 1 || cons_in_sendqueue() != 1) {
    printf("unexpected state, scenario not set up\n");
    return 2;
  }

  printf("# 3. delayed NON 4.01+Echo for token 0x11 reaches the client\n");
  to_client(&held);
  coap_io_process(ctx_c, 30);
  show("after step 3");
  if (sess->con_active != (unsigned)cons_in_sendqueue()) {
    printf("FAIL: con_active=%u but %d Confirmable(s) still in the send queue\n",
           sess->con_active, cons_in_sendqueue());
    bad = 1;
  }

  printf("# 4. Echo re-request for 0x11 and its 2.05 are relayed normally\n");
  if (!from_client(&d) || TYPE(&d) != 1)
    return 2;
  to_server(&d);
  run(ctx_s);
  if (!from_server(&d))
    return 2;
  to_client(&d);
  coap_io_process(ctx_c, 30);
  show("after step 4");
  if (n_resp != 1 || served != 1)
    printf("note: responses=%d served=%d\n", n_resp, served);

  printf("# 5. CON GET token 0x33 while CON 0x22 is still unacknowledged\n");
  request(COAP_MESSAGE_CON, 0x33);
  while (from_client(&d))
    ;
  show("after step 5");
  if (max_unacked > (int)coap_session_get_nstart(sess)) {
    printf("FAIL: %d unacknowledged Confirmables on the wire, NSTART is %u\n",
           max_unacked, coap_session_get_nstart(sess));
    bad = 1;
  }
  if (sess->con_active != (unsigned)cons_in_sendqueue()) {
    printf("FAIL: con_active=%u but %d Confirmable(s) in the send queue\n",
           sess->con_active, cons_in_sendqueue());
    bad = 1;
  }

done:
  coap_session_release(sess);
  coap_free_context(ctx_c);
  coap_free_context(ctx_s);
  coap_cleanup();
  printf(bad ? "RESULT: MISBEHAVIOUR\n" : "RESULT: OK\n");
  return bad;
}
