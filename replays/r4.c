#include <coap3/coap.h>
#include <stdio.h>
#include <string.h>
#include <unistd.h>
#include <fcntl.h>
#include <arpa/inet.h>
#include <sys/socket.h>
static int hits=0;
static void hnd(coap_resource_t *r, coap_session_t *s, const coap_pdu_t *q, const coap_string_t *qs, coap_pdu_t *resp){ (void)r;(void)s;(void)q;(void)qs; hits++; coap_pdu_set_code(resp, COAP_RESPONSE_CODE_CONTENT); }
static void pump(coap_context_t *c,int n){ for(int i=0;i<n;i++) coap_io_process(c,20); }
static int run(const int *cuts, int ncuts){
  coap_context_t *ctx = coap_new_context(NULL);
  coap_address_t a; coap_address_init(&a); a.addr.sin.sin_family=AF_INET; a.addr.sin.sin_addr.s_addr=htonl(INADDR_LOOPBACK); a.addr.sin.sin_port=htons(0); a.size=sizeof(struct sockaddr_in);
  coap_endpoint_t *ep = coap_new_endpoint(ctx,&a,COAP_PROTO_TCP);
  if(!ep){printf("no endpoint\n");return -1;}
  coap_resource_t *r = coap_resource_init(coap_make_str_const("t"),0); coap_register_request_handler(r,COAP_REQUEST_GET,hnd); coap_add_resource(ctx,r);
  /* find port */
  struct sockaddr_in sin; socklen_t sl=sizeof sin; 
  /* endpoint socket fd is internal; bind to fixed port instead */
  coap_free_endpoint(ep);
  a.addr.sin.sin_port=htons(45683); ep = coap_new_endpoint(ctx,&a,COAP_PROTO_TCP); if(!ep){printf("no endpoint2\n");return -1;}
  int fd=socket(AF_INET,SOCK_STREAM,0); memset(&sin,0,sizeof sin); sin.sin_family=AF_INET; sin.sin_addr.s_addr=htonl(INADDR_LOOPBACK); sin.sin_port=htons(45683);
  int one=1; setsockopt(fd,IPPROTO_TCP,1/*TCP_NODELAY*/,&one,sizeof one);
  if(connect(fd,(struct sockaddr*)&sin,sizeof sin)<0){perror("connect");return -1;}
  fcntl(fd,F_SETFL,O_NONBLOCK);
  pump(ctx,5);
  uint8_t in[256]; ssize_t n=read(fd,in,sizeof in); (void)n;           /* server CSM */
  uint8_t csm[]={0x00,0xE1}; write(fd,csm,2); pump(ctx,5);
  uint8_t msg[]={0xD1,0x02,0x01,0x42, 0xB1,'t', 0xFF,1,2,3,4,5,6,7,8,9,10,11,12};
  size_t off=0; hits=0;
  for(int i=0;i<=ncuts;i++){ size_t end = i<ncuts ? (size_t)cuts[i] : sizeof msg; write(fd,msg+off,end-off); off=end; pump(ctx,3); }
  pump(ctx,5);
  n=read(fd,in,sizeof in);
  printf("cuts:"); for(int i=0;i<ncuts;i++) printf(" %d",cuts[i]); printf(" -> handler calls=%d, reply bytes=%zd", hits, n); if(n>0){printf(" [");for(ssize_t i=0;i<n&&i<8;i++)printf("%02x ",in[i]);printf("]");} printf("\n");
  close(fd); coap_free_context(ctx); return hits; }
int main(void){ coap_startup(); coap_set_log_level(COAP_LOG_EMERG);
  int none[1]={0}; run(none,0);
  int c1[]={1}; run(c1,1);
  int c2[]={1,2}; run(c2,2);
  int c3[]={2}; run(c3,1);
  coap_cleanup(); return 0; }
