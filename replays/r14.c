/*
 * C18: coap_new_cache_entry() leaks the PDU copy it made (COAP_CACHE_RECORD_PDU) when the following cache-key
 * allocation fails: the error path frees the entry record raw.
 * build: cc -g -I/repo/_build/include -I/repo/include replays/r14.c /repo/_build/libcoap-3.a -Wl,--wrap=malloc -lgnutls -lpthread -o /tmp/r14
 * run:   for k in 1 2 3 4; do valgrind -q --leak-check=full --error-exitcode=9 /tmp/r14 $k; echo "k=$k exit=$?"; done
 *        (before the fix: k=4 - the cache key allocation - "definitely lost" coap_pdu_init <- coap_new_cache_entry_lkd; after: clean)
 */
#include <coap3/coap.h>
#include <stdio.h>
#include <stdlib.h>
extern void *__real_malloc(size_t n);
static int armed, countdown;
void *__wrap_malloc(size_t n) {
  if (armed && --countdown == 0) { armed = 0; return NULL; }
  return __real_malloc(n);
}
int main(int argc, char **argv) {
  int k = argc > 1 ? atoi(argv[1]) : 4;
  coap_startup(); coap_set_log_level(COAP_LOG_EMERG);
  coap_context_t *ctx = coap_new_context(NULL);
  coap_address_t a; coap_address_init(&a); a.addr.sin.sin_family = AF_INET; a.addr.sin.sin_addr.s_addr = htonl(0x7f000001); a.addr.sin.sin_port = htons(5683); a.size = sizeof(struct sockaddr_in);
  coap_session_t *s = coap_new_client_session(ctx, NULL, &a, COAP_PROTO_UDP);
  coap_pdu_t *pdu = coap_new_pdu(COAP_MESSAGE_CON, COAP_REQUEST_CODE_GET, s);
  coap_add_option(pdu, COAP_OPTION_URI_PATH, 4, (const uint8_t *)"test");
  countdown = k; armed = 1;
  coap_cache_entry_t *e = coap_new_cache_entry(s, pdu, COAP_CACHE_RECORD_PDU, COAP_CACHE_NOT_SESSION_BASED, 0);
  armed = 0;
  printf("k=%d: entry %s\n", k, e ? "created" : "NULL (allocation failure reported)");
  coap_delete_pdu(pdu);
  coap_session_release(s);
  coap_free_context(ctx);
  coap_cleanup();
  return 0;
}
