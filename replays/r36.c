/* replays/r36.c - R-PERSIST (the copy loop runs to the end of the old file) (C17): coap_op_dyn_resource_added() and
 * coap_op_resource_deleted() copy the records to keep into <file>.tmp in a loop; when the write of a kept record failed they left the
 * loop with `break`, went on (appended the new entry), flushed and renamed: the good file was replaced by one that lacks every record
 * behind the failure.  One fwrite() is made to fail (transient error) while the 4th dynamic resource is being added.
 *   build: cc -O1 -g -DHAVE_CONFIG_H -I/repo/_build -I/repo/_build/include -I/repo/include -Wl,--wrap=fwrite r36.c /repo/_build/libcoap-3.a -lgnutls -lpthread -o r36 && ./r36
 *   before the fix: "file lost records: a=1 b=0 c=0 d=1" exit 1;  with the fix: the call reports failure and the file still holds a, b, c: exit 0
 */
#include "coap3/coap_libcoap_build.h"
#include <stdio.h>
#include <string.h>
#include <unistd.h>
size_t __real_fwrite(const void *p, size_t s, size_t n, FILE *f);
static long fail_at = -1, calls = 0;
size_t __wrap_fwrite(const void *p, size_t s, size_t n, FILE *f) {
  if (fail_at >= 0 && calls++ == fail_at) return 0;
  return __real_fwrite(p, s, n, f);
}
static int has(const char *file, const char *needle) {
  FILE *f = fopen(file, "r"); char buf[4096]; size_t n; int r = 0;
  if (!f) return 0;
  n = fread(buf, 1, sizeof buf, f); fclose(f);
  for (size_t i = 0; i + strlen(needle) <= n; i++) if (!memcmp(buf + i, needle, strlen(needle))) r = 1;
  return r;
}
int main(void) {
  const char *file = "/tmp/r36/dyn.save";
  coap_startup();
  coap_set_log_level(COAP_LOG_EMERG);
  unlink(file);
  coap_context_t *ctx = coap_new_context(NULL);
  if (!coap_persist_startup(ctx, file, NULL, NULL, 0)) { printf("persist not available\n"); return 2; }
  coap_address_t dst; coap_address_init(&dst);
  dst.addr.sin.sin_family = AF_INET; dst.addr.sin.sin_port = htons(5683); dst.addr.sin.sin_addr.s_addr = htonl(0x7f000001);
  coap_session_t *s = coap_new_client_session(ctx, NULL, &dst, COAP_PROTO_UDP);
  uint8_t pkt[] = {0x40, 0x03, 0x12, 0x34, 0xb1, 'x'};
  coap_bin_const_t raw = { sizeof pkt, pkt };
  const char *names[] = {"res-aaaa", "res-bbbb", "res-cccc", "res-dddd"};
  for (int i = 0; i < 3; i++) {
    coap_str_const_t n = { strlen(names[i]), (const uint8_t *)names[i] };
    if (!ctx->dyn_resource_added(s, &n, &raw, ctx->observe_user_data)) { printf("set-up write %d failed\n", i); return 2; }
  }
  /* 4th resource: while a, b, c are copied across, the 7th fwrite (inside the record of b) fails once */
  coap_str_const_t n = { strlen(names[3]), (const uint8_t *)names[3] };
  calls = 0; fail_at = 6;
  int r = ctx->dyn_resource_added(s, &n, &raw, ctx->observe_user_data);
  fail_at = -1;
  int a = has(file, names[0]), b = has(file, names[1]), c = has(file, names[2]), d = has(file, names[3]);
  printf("call returned %d; file holds a=%d b=%d c=%d d=%d\n", r, a, b, c, d);
  int bad = !(a && b && c);          /* whatever the call reports, the old records must survive */
  if (bad) printf("file lost records: a=%d b=%d c=%d d=%d\n", a, b, c, d);
  coap_session_release(s);
  coap_free_context(ctx);
  coap_cleanup();
  return bad ? 1 : 0;
}
