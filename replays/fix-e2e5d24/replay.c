/*
 * Replay for e2e5d24: coap_handle_request_put_block() dereferences
 * lg_srcv->last_token which is NULL after a failed coap_new_bin_const().
 *
 * Build + run (from /tmp/rp/e2e5d24, library built in _build as per the task):
 *   cc -g -O0 -Wno-deprecated-declarations -I_build -Iinclude -I_build/include OUT/replay.c _build/libcoap-3.a \
 *      -Wl,--wrap=malloc -lgnutls -lpthread -o OUT/replay
 *   OUT/replay            # fault-injected scenario (default)
 *   OUT/replay nofault    # same packets, no allocation failure (control)
 *   OUT/replay inorder    # ordinary in-order transfer, no failure (control)
 * or simply:  sh OUT/replay.sh
 *
 * Scenario (server side is pure public API; the peer is a raw UDP socket):
 *   - server context, block mode COAP_BLOCK_USE_LIBCOAP|COAP_BLOCK_SINGLE_BODY,
 *     UDP endpoint on 127.0.0.1, one resource "t" with a PUT handler.
 *   - peer sends a 2-block Block1 PUT (szx=0, 16 byte blocks) in REVERSE order:
 *       1. block NUM=1 M=0  (the "last" block, arrives first)
 *          -> library goes through the "Last chunk - but not all in" branch
 *             and does lg_srcv->last_token = coap_new_bin_const(token).
 *             The wrapped malloc() makes exactly this allocation fail
 *             (returns NULL once), so last_token stays NULL.
 *       2. block NUM=0 M=1  (completes the body)
 *          -> "random order completion" branch:
 *             coap_update_token(response, lg_srcv->last_token->length, ...)
 *             => NULL dereference on the parent commit (SIGSEGV).
 *   On e2e5d24 the NULL test skips the token rewrite, the assembled 32 byte
 *   body is delivered to the PUT handler and the program exits 0.
 *
 * Exit status: 0 = handler got the full 32 byte body, no crash.
 *              139/SIGSEGV (or 1) = misbehaviour.
 */
#include "coap3/coap_libcoap_build.h" /* internal: only to OBSERVE lg_srcv->last_token */
#include <arpa/inet.h>
#include <netinet/in.h>
#include <sys/socket.h>
#include <stdio.h>
#include <stdlib.h>
#include <string.h>
#include <unistd.h>
#include <poll.h>

/* ---- allocation fault injection ---------------------------------------- */
void *__real_malloc(size_t);
static volatile int fail_armed = 0;      /* fail next malloc of fail_size */
static volatile size_t fail_size = 0;
static volatile int fail_hits = 0;

void *
__wrap_malloc(size_t n) {
  if (fail_armed && n == fail_size) {
    fail_armed = 0;
    fail_hits++;
    return NULL;
  }
  return __real_malloc(n);
}

/* ---- server ------------------------------------------------------------ */
static int handler_calls = 0;
static size_t handler_body_len = 0;
static int handler_body_ok = 0;

static void
hnd_put(coap_resource_t *resource, coap_session_t *session,
        const coap_pdu_t *request, const coap_string_t *query,
        coap_pdu_t *response) {
  size_t len = 0, off = 0, total = 0;
  const uint8_t *data = NULL;
  (void)resource;
  (void)session;
  (void)query;
  handler_calls++;
  if (coap_get_data_large(request, &len, &data, &off, &total)) {
    size_t i;
    handler_body_len = len;
    handler_body_ok = (len == 32 && off == 0);
    for (i = 0; handler_body_ok && i < 32; i++)
      if (data[i] != (uint8_t)(i < 16 ? 'A' : 'B'))
        handler_body_ok = 0;
  }
  coap_pdu_set_code(response, COAP_RESPONSE_CODE_CHANGED);
}

#define TOKEN_LEN 8  /* coap_new_bin_const(8) -> coap_new_string(8) -> malloc(16+8+1 = 25) */

static size_t
build_block(uint8_t *buf, uint16_t mid, unsigned num, unsigned m, uint8_t fill) {
  size_t n = 0;
  unsigned i;
  buf[n++] = 0x40 | TOKEN_LEN;      /* ver 1, CON, TKL */
  buf[n++] = 0x03;                  /* PUT */
  buf[n++] = mid >> 8;
  buf[n++] = mid & 0xff;
  for (i = 0; i < TOKEN_LEN; i++)
    buf[n++] = 0xA0 + i;            /* same token for both blocks */
  buf[n++] = 0xB1;                  /* Uri-Path (11), len 1 */
  buf[n++] = 't';
  buf[n++] = 0xD1;                  /* delta 13+3 = 16 -> Block1 (27), len 1 */
  buf[n++] = 0x03;
  buf[n++] = (uint8_t)((num << 4) | (m << 3) | 0); /* szx 0 = 16 bytes */
  buf[n++] = 0xFF;
  for (i = 0; i < 16; i++)
    buf[n++] = fill;
  return n;
}

static void
pump(coap_context_t *ctx, int fd, const char *what) {
  int i;
  for (i = 0; i < 5; i++)
    coap_io_process(ctx, 50);
  for (;;) {
    struct pollfd p = { fd, POLLIN, 0 };
    uint8_t rb[256];
    ssize_t r;
    if (poll(&p, 1, 50) <= 0)
      break;
    r = recv(fd, rb, sizeof(rb), 0);
    if (r >= 4)
      printf("  peer got reply after %s: type=%u code=%u.%02u len=%zd\n", what,
             (rb[0] >> 4) & 3, rb[1] >> 5, rb[1] & 0x1f, r);
  }
}

int
main(int argc, char **argv) {
  int inject = !(argc > 1);
  coap_context_t *ctx;
  coap_address_t addr;
  coap_endpoint_t *ep;
  coap_resource_t *r;
  struct sockaddr_in sin;
  int fd;
  uint8_t pkt[128];
  size_t n;
  uint16_t port = (uint16_t)(20000 + (getpid() % 20000));

  setvbuf(stdout, NULL, _IONBF, 0);
  coap_startup();
  coap_set_log_level(COAP_LOG_WARN);
  ctx = coap_new_context(NULL);
  if (!ctx)
    return 2;
  coap_context_set_block_mode(ctx, COAP_BLOCK_USE_LIBCOAP | COAP_BLOCK_SINGLE_BODY);

  coap_address_init(&addr);
  addr.addr.sin.sin_family = AF_INET;
  addr.addr.sin.sin_addr.s_addr = htonl(INADDR_LOOPBACK);
  addr.addr.sin.sin_port = htons(port);
  addr.size = sizeof(struct sockaddr_in);
  ep = coap_new_endpoint(ctx, &addr, COAP_PROTO_UDP);
  if (!ep)
    return 2;
  r = coap_resource_init(coap_make_str_const("t"), 0);
  coap_register_request_handler(r, COAP_REQUEST_PUT, hnd_put);
  coap_add_resource(ctx, r);

  fd = socket(AF_INET, SOCK_DGRAM, 0);
  memset(&sin, 0, sizeof(sin));
  sin.sin_family = AF_INET;
  sin.sin_addr.s_addr = htonl(INADDR_LOOPBACK);
  sin.sin_port = htons(port);
  if (connect(fd, (struct sockaddr *)&sin, sizeof(sin)) < 0)
    return 2;

  if (argc > 1 && strcmp(argv[1], "inorder") == 0) {
    /* control: the ordinary in-order transfer, no fault */
    n = build_block(pkt, 0x1001, 0, 1, 'A');
    send(fd, pkt, n, 0);
    pump(ctx, fd, "block NUM=0 M=1");
    n = build_block(pkt, 0x1002, 1, 0, 'B');
    send(fd, pkt, n, 0);
    pump(ctx, fd, "block NUM=1 M=0");
    printf("handler calls=%d body_len=%zu body_ok=%d\n",
           handler_calls, handler_body_len, handler_body_ok);
    printf("SURVIVED (inorder mode only checks for the crash)\n");
    close(fd);
    coap_free_context(ctx);
    coap_cleanup();
    return 0;
  }

  /* 1. last block first: NUM=1, M=0 */
  n = build_block(pkt, 0x1001, 1, 0, 'B');
  send(fd, pkt, n, 0);
  if (inject) {
    fail_size = sizeof(coap_string_t) + TOKEN_LEN + 1;
    fail_armed = 1;
  }
  pump(ctx, fd, "block NUM=1 M=0");
  fail_armed = 0;
  {
    /* observation only (internal structs): state left behind by step 1 */
    coap_session_t *s, *tmp;
    SESSIONS_ITER(ep->sessions, s, tmp) {
      if (s->lg_srcv)
        printf("  observed: lg_srcv=%p no_more_seen=%u last_token=%p\n",
               (void *)s->lg_srcv, s->lg_srcv->no_more_seen,
               (void *)s->lg_srcv->last_token);
    }
  }
  printf("injected malloc failures: %d, handler calls so far: %d\n",
         fail_hits, handler_calls);
  if (inject && fail_hits != 1) {
    printf("HARNESS: expected allocation was not hit\n");
    return 3;
  }

  /* 2. first block second: NUM=0, M=1 -> body complete, random order path */
  n = build_block(pkt, 0x1002, 0, 1, 'A');
  send(fd, pkt, n, 0);
  pump(ctx, fd, "block NUM=0 M=1");

  printf("handler calls=%d body_len=%zu body_ok=%d\n",
         handler_calls, handler_body_len, handler_body_ok);
  close(fd);
  coap_free_context(ctx);
  coap_cleanup();
  if (handler_calls == 1 && handler_body_ok) {
    printf("OK: assembled body delivered, no crash\n");
    return 0;
  }
  printf("FAIL: body not delivered correctly\n");
  return 1;
}
