#!/bin/sh
# Usage: sh OUT/replay.sh        (run from /tmp/rp/e2e5d24; uses whatever source is checked out)
# Rebuilds libcoap-3.a from the checked-out source, builds OUT/replay and runs the
# three modes. Exit status = status of the default (fault-injected) mode.
cd "$(dirname "$0")/.." || exit 2
[ -f _build/build.ninja ] || cmake -G Ninja -S . -B _build -DENABLE_DOCS=OFF -DENABLE_TESTS=OFF \
   -DENABLE_EXAMPLES=OFF -DCMAKE_BUILD_TYPE=RelWithDebInfo >/dev/null
cmake --build _build --target coap-3 >/dev/null || exit 2
cc -g -O0 -Wno-deprecated-declarations -I_build -Iinclude -I_build/include OUT/replay.c \
   _build/libcoap-3.a -Wl,--wrap=malloc -lgnutls -lpthread -o OUT/replay || exit 2
echo "== source at $(git rev-parse --short HEAD)"
echo "== mode: nofault (reverse order, no allocation failure)"; OUT/replay nofault; echo "exit=$?"
echo "== mode: inorder (no Size1, no allocation failure)";      OUT/replay inorder; echo "exit=$?"
echo "== mode: default (reverse order + failed coap_new_bin_const)"; OUT/replay; rc=$?; echo "exit=$rc"
exit $rc
