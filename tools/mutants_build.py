#!/usr/bin/env python3
"""Developer tool: shows that the text-edit mutants are *realistic* changes -- each one still compiles and leaves the repository's own test
suite green.  Usage: VERIF_REPO=<git worktree of /repo with a configured _build> tools/mutants_build.py [Cxx ...]
For every mutant: apply, `cmake --build _build --target testdriver`, run ./testdriver, undo.  Result lines: BUILD-FAIL / TESTS-FAIL / OK.
Writes mutants/BUILD_STATUS.json (id -> status) when run over everything."""
import sys, os, subprocess, importlib.util, json, re
VERIF = os.path.dirname(os.path.dirname(os.path.abspath(__file__)))
REPO = os.environ['VERIF_REPO']
assert REPO != '/repo'

def load(prop):
    p = os.path.join(VERIF, 'mutants', prop + '.py')
    spec = importlib.util.spec_from_file_location('m_' + prop, p)
    m = importlib.util.module_from_spec(spec); spec.loader.exec_module(m)
    return m.MUTANTS

def main():
    props = sys.argv[1:] or sorted(f[:-3] for f in os.listdir(os.path.join(VERIF, 'mutants')) if f.endswith('.py') and f.startswith('C'))
    out = {}
    for prop in props:
        for mid, file, old, new, rule in load(prop):
            path = os.path.join(REPO, file)
            s = open(path).read()
            if s.count(old) != 1:
                out[prop + ':' + mid] = 'SKIPPED'; print(prop, mid, 'SKIPPED', flush=True); continue
            try:
                open(path, 'w').write(s.replace(old, new))
                b = subprocess.run(['cmake', '--build', os.path.join(REPO, '_build'), '--target', 'testdriver'], capture_output=True, text=True)
                if b.returncode != 0:
                    st = 'BUILD-FAIL'
                    err = [l for l in (b.stdout + b.stderr).splitlines() if 'error' in l][:2]
                else:
                    try:
                        t = subprocess.run(['./testdriver'], cwd=os.path.join(REPO, '_build'), capture_output=True, text=True, timeout=60)
                    except subprocess.TimeoutExpired:
                        out[prop + ':' + mid] = 'TESTS-HANG'; print(prop, mid, 'TESTS-HANG', flush=True); continue
                    m = re.search(r'asserts\s+(\d+)\s+(\d+)\s+(\d+)\s+(\d+)', t.stdout)
                    tm = re.search(r'tests\s+(\d+)\s+(\d+)\s+(\d+)\s+(\d+)', t.stdout)
                    ok = t.returncode == 0 and tm and tm.group(4) == '0'
                    st = 'OK' if ok else 'TESTS-FAIL'
                    err = [] if ok else [tm.group(0) if tm else 'rc=%d' % t.returncode]
            finally:
                subprocess.run(['git', '-C', REPO, 'checkout', '--', file], check=True)
            out[prop + ':' + mid] = st
            print(prop, mid, st, *err, flush=True)
    if len(sys.argv) == 1:
        json.dump(out, open(os.path.join(VERIF, 'mutants', 'BUILD_STATUS.json'), 'w'), indent=1, sort_keys=True)
    bad = [k for k, v in out.items() if v != 'OK']
    print('%d mutants, %d not OK: %s' % (len(out), len(bad), bad))
if __name__ == '__main__':
    main()
