#!/usr/bin/env python3
"""gen_seed_prompts.py <dir> : write <dir>/prompt_Cxx.txt for every property.
A prompt holds ONLY the property text, the worktree path and the one-line descriptions of the changes earlier
exercises already produced (DESIGN.md 7b, so that a new agent picks something else) - nothing about the checks."""
import json, re, os, sys
out = sys.argv[1]
os.makedirs(out, exist_ok=True)
props = {}
for l in open('/verif/properties.jsonl'):
    d = json.loads(l); props[d['id']] = d
earlier = {}
for l in open('/verif/DESIGN.md'):
    m = re.match(r'\| (C\d\d)([a-z]?-[^ |/]+)[^|]*\| (.*?) \| ', l)
    if m:
        earlier.setdefault(m.group(1), []).append(m.group(3).replace('\\|', '|'))
    m2 = re.match(r'\| C\d\d[a-z]?-[^ |]+ / (C\d\d)[a-z]?-', l)
    if m and m2:
        earlier.setdefault(m2.group(1), []).append(m.group(3).replace('\\|', '|'))
HEAD = """You are working in a scratch git worktree of the C library libcoap (obgm/libcoap, a CoAP implementation) at: WORKTREE
Work ONLY inside that directory (do not look at or touch /repo, /verif or any other directory; scratch files under WORKTREE are fine). No network.

Build and test it like this (offline, takes about a minute the first time):
  cd WORKTREE && cmake -G Ninja -S . -B _build -DENABLE_DOCS=OFF -DENABLE_TESTS=ON -DCMAKE_BUILD_TYPE=RelWithDebInfo >/dev/null && cmake --build _build --target testdriver >/dev/null && ./_build/testdriver | tail -5
The existing test suite is the CUnit binary _build/testdriver (176 tests, all pass). The static library is _build/libcoap-3.a, public headers are in include/ and _build/include/ (plus _build/coap_config.h for internal headers; compile internal-API demos with -DHAVE_CONFIG_H -I_build -I_build/include -Iinclude; link with -lgnutls -lpthread as the testdriver link line in _build/build.ninja shows).

Here is a semantic property this library is supposed to satisfy:
"""
TAIL = """YOUR TASK: produce ONE realistic source change to the library (a plausible bug a maintainer could introduce: an off-by-one, a dropped or misplaced check/release/unlock, a wrong variable, a reordered pair of statements, a changed condition, a missing case, two sites that each look fine alone ...) that BREAKS this property, while
  (1) the library still compiles without new warnings-as-errors,
  (2) the existing test suite (./_build/testdriver) still passes all 176 tests,
  (3) the breakage is NOT exposed by ordinary use at once: it should need something specific to manifest - a particular interleaving or segmentation, a crash/fault (e.g. a failing allocation) at a particular point, a multi-step sequence of operations, an unusual but legal input, a boundary value, or two cooperating sites that each look fine alone.
Keep the change small (ideally 1-15 changed lines, only under src/ or include/ or CMakeLists.txt). Do not touch tests/.

Then write a DEMONSTRATION: a small stand-alone C program (or shell script driving one) that links against _build/libcoap-3.a and FAILS (non-zero exit, with a clear message) on the changed library and PASSES (exit 0) on the unchanged library. It may use internal headers (#include "coap3/coap_libcoap_build.h" or "coap3/coap_internal.h" with -I_build) and may wrap malloc with -Wl,--wrap=malloc if it needs allocation failures. Verify both outcomes yourself by actually running it against both builds (keep your change as OUT/patch.diff and switch with `git apply OUT/patch.diff` / `git checkout -- src include CMakeLists.txt`; do NOT use git stash; rebuild libcoap-3.a each time with `cmake --build _build --target coap-3`).

DELIVERABLES, all under WORKTREE/OUT/ :
  - patch.diff : output of `git diff` for your source change only (relative to the worktree HEAD; must apply with `git apply`)
  - demo.c (and/or demo.sh) : the demonstration, with the exact build+run command in a comment at the top (one command line starting with `cc ` and ending with `&& ./OUT/demo`, to be run from WORKTREE; do not append `; echo exit=$?`)
  - NOTES.md : first line a one-sentence title of the change; then 5-15 lines: what the change is, why it breaks the property, what specific circumstance is needed for it to manifest, the exact commands you ran and their observed results on the changed and on the unchanged library (including the testdriver summary line with the change applied). If you notice something in the UNCHANGED library that already looks like a defect, add a last paragraph "ASIDE:" describing it.
When you are done leave the worktree with your source change REVERTED (git checkout -- src include CMakeLists.txt) so only OUT/ and _build remain. Reply with a 5-line summary.
"""
for pid, d in props.items():
    a = d['anchors']
    mech = '; '.join('%s @ %s' % (m['name'], m['where']) for m in a.get('mechanism', []))
    body = '\n%s: %s\n\nSTATEMENT: %s\n\nQUANTIFIER: %s\n\nWHY TESTS CANNOT SETTLE IT: %s\n\nRELEVANT FILES: %s\nMECHANISMS: %s\n\n' % (
        pid, d['title'], d['statement'], d['quantifier']['text'], d['why_tests_cant'], ', '.join(a['files']), mech)
    note = ''
    if earlier.get(pid):
        note = '\nNOTE: earlier exercises already produced these changes for the same property:\n' + ''.join('  - "%s"\n' % e for e in earlier[pid]) + \
            'Do NOT repeat them or near variants: pick a DIFFERENT function / mechanism and a different kind of mistake (a missing release or unlock on an error path, a reordered pair of statements, a stale value reused, a skipped state update, a wrong field, an inverted or weakened condition, a missing case, two sites that disagree ...). Prefer code in the RELEVANT FILES (or code they call) that the earlier changes did not touch; a different clause of the STATEMENT than the earlier changes attacked is best.\n\n'
    wt = os.path.join(out, pid)
    p = (HEAD + body + note + TAIL).replace('WORKTREE', wt)
    open(os.path.join(out, 'prompt_%s.txt' % pid), 'w').write(p)
    print(pid, len(earlier.get(pid, [])), end='; ')
print()
