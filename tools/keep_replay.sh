#!/bin/sh
# usage: tools/keep_replay.sh <sha> : archive a replay produced in /tmp/rp/<sha>/OUT and drop the scratch worktree
sha=$1
d=/verif/replays/fix-$sha
mkdir -p $d
for f in /tmp/rp/$sha/OUT/*; do case "$f" in *.c|*.sh|*.md|*.txt) cp "$f" $d/;; esac; done
git -C /repo worktree remove --force /tmp/rp/$sha
ls $d
