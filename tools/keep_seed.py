#!/usr/bin/env python3
"""keep_seed.py <Cxx> <seed-name> <detected-by: comma list of 'Cxx:R-RULE' or 'none'> : confirm in the scratch worktree, then store under /verif/seeded/<name>/"""
import sys, os, json, subprocess, shutil
pid, name, det = sys.argv[1], sys.argv[2], sys.argv[3]
wt = sys.argv[4] if len(sys.argv) > 4 else '/tmp/seed/' + pid
cached = os.path.join(os.path.dirname(wt.rstrip('/')), 'confirm_%s.json' % pid)
if os.environ.get('USE_CACHED_CONFIRM') and os.path.exists(cached):
    d = json.load(open(cached))      # written by a parallel run of confirm_seed.py on the same worktree
else:
    r = subprocess.run([sys.executable, os.path.join(os.path.dirname(__file__), 'confirm_seed.py'), pid, wt], capture_output=True, text=True)
    d = json.loads(r.stdout)
if not d['confirmed']:
    print('NOT CONFIRMED', json.dumps(d, indent=1)); sys.exit(1)
dst = os.path.join('/verif/seeded', name)
os.makedirs(dst, exist_ok=True)
for f in os.listdir(os.path.join(wt, 'OUT')):
    if f.endswith(('.diff', '.c', '.sh', '.md')):
        shutil.copy(os.path.join(wt, 'OUT', f), os.path.join(dst, f))
notes = open(os.path.join(wt, 'OUT', 'NOTES.md')).read() if os.path.exists(os.path.join(wt, 'OUT', 'NOTES.md')) else ''
meta = {'property': pid, 'breaks': notes.strip().split('\n\n')[0][:600], 'needs_to_manifest': 'see NOTES.md',
        'confirmed_by': {'worktree_base': subprocess.run(['git', '-C', wt, 'rev-parse', '--short', 'HEAD'], capture_output=True, text=True).stdout.strip(),
                         'ran': ['git apply OUT/patch.diff', 'cmake --build _build --target coap-3 testdriver', './_build/testdriver', d['demo_cmd'], 'git checkout -- .; rebuild; ' + d['demo_cmd']],
                         'tests_with_change': ' '.join(d['tests_with_change']), 'demo_with_change_exit': d['demo_with_change_exit'],
                         'demo_without_change_exit': d['demo_without_change_exit'], 'demo_with_change_tail': d['demo_with_change_tail'][-200:]},
        'detected_by': [x for x in det.split(',') if x != 'none']}
json.dump(meta, open(os.path.join(dst, 'meta.json'), 'w'), indent=1)
print('kept', dst, meta['detected_by'])
