#!/usr/bin/env python3
"""Checker self-test by mutation (developer tool, not a registered check).
mutants/<prop>.py defines MUTANTS = [(id, file, old, new, expected rule | None = documented miss | 'SILENT' = behaviour-preserving, must not be reported), ...]: exact-text edits of
/repo (must match exactly once).  Each is applied to /repo's working tree, the property's check is run
(expects exit 1 and the rule id in the output), and the edit is undone with git checkout.  An edit that no
longer applies is reported as skipped."""
import sys, os, subprocess, importlib.util, json
VERIF = os.path.dirname(os.path.dirname(os.path.abspath(__file__)))
REPO = os.environ.get('VERIF_REPO', '/repo')

def load(prop):
    p = os.path.join(VERIF, 'mutants', prop + '.py')
    spec = importlib.util.spec_from_file_location('m_' + prop, p)
    m = importlib.util.module_from_spec(spec); spec.loader.exec_module(m)
    return m.MUTANTS

def main():
    props = sys.argv[1:] or sorted(f[:-3] for f in os.listdir(os.path.join(VERIF, 'mutants')) if f.endswith('.py'))
    only = os.environ.get('MUTANT')
    res = []
    assert subprocess.run(['git', '-C', REPO, 'status', '--porcelain', '--untracked-files=no'], capture_output=True, text=True).stdout.strip() == '', '/repo not clean'
    for prop in props:
        for mid, file, old, new, rule in load(prop):
            if only and only != mid: continue
            if os.environ.get('MUTANT_PREFIX') and not mid.startswith(os.environ['MUTANT_PREFIX']): continue
            path = os.path.join(REPO, file)
            s = open(path).read()
            if s.count(old) != 1:
                res.append((prop, mid, 'SKIPPED (pattern matches %d times)' % s.count(old))); print(res[-1]); continue
            try:
                open(path, 'w').write(s.replace(old, new))
                r = subprocess.run([sys.executable, os.path.join(VERIF, 'check.py'), prop, '--no-fixtures'], capture_output=True, text=True, cwd=VERIF)
                lines = [l for l in r.stdout.splitlines() if l.startswith('  R-') or l.startswith('ANALYSIS')]
                if rule == 'SILENT':      # behaviour-preserving edit: the check must stay quiet
                    res.append((prop, mid, 'CAUGHT (silent, as required)' if r.returncode == 0 else 'FALSE ALARM (exit %d)' % r.returncode, lines[:3]))
                elif rule is None:        # documented miss: a real break outside what the rules decide
                    res.append((prop, mid, 'CAUGHT (documented miss, exit %d)' % r.returncode if r.returncode in (0, 1) else 'BROKEN (exit %d)' % r.returncode, lines[:1]))
                else:
                    ok = r.returncode == 1 and any(rule in l for l in lines)
                    res.append((prop, mid, 'CAUGHT' if ok else 'MISSED (exit %d)' % r.returncode, lines[:3]))
            finally:
                subprocess.run(['git', '-C', REPO, 'checkout', '--', file], check=True)
            print(res[-1])
    missed = [r for r in res if not r[2].startswith('CAUGHT')]
    print('%d mutants, %d not caught' % (len(res), len(missed)))
    return 1 if missed else 0
if __name__ == '__main__':
    sys.exit(main())
