#!/usr/bin/env python3
"""Parallel version of tools/mutants.py (developer tool): mutants_par.py [-j N] [Cxx ...] - each worker owns a scratch worktree of /repo's HEAD.
Same verdicts: expected rule | None = documented miss | 'SILENT' = must stay quiet; an edit whose pattern no longer matches is SKIPPED."""
import sys, os, subprocess, importlib.util, tempfile, shutil, queue
from concurrent.futures import ThreadPoolExecutor
V = os.path.dirname(os.path.dirname(os.path.abspath(__file__)))
args = sys.argv[1:]
J = 6
if args and args[0] == '-j':
    J = int(args[1]); args = args[2:]
props = args or sorted(f[:-3] for f in os.listdir(os.path.join(V, 'mutants')) if f.endswith('.py'))
prefix = os.environ.get('MUTANT_PREFIX')


def load(prop):
    spec = importlib.util.spec_from_file_location('m_' + prop, os.path.join(V, 'mutants', prop + '.py'))
    m = importlib.util.module_from_spec(spec); spec.loader.exec_module(m)
    return m.MUTANTS


jobs = [(p,) + tuple(m) for p in props for m in load(p) if not prefix or m[0].startswith(prefix)]
base = tempfile.mkdtemp(prefix='mutants-')
wts = queue.Queue()
for i in range(J):
    w = os.path.join(base, 'w%d' % i)
    subprocess.run(['git', '-C', '/repo', 'worktree', 'add', '-q', '--detach', w, 'HEAD'], check=True)
    wts.put(w)


def one(job):
    prop, mid, file, old, new, rule = job
    w = wts.get()
    try:
        path = os.path.join(w, file)
        s = open(path).read()
        if s.count(old) != 1:
            return (prop, mid, 'SKIPPED (pattern matches %d times)' % s.count(old))
        open(path, 'w').write(s.replace(old, new))
        env = dict(os.environ, VERIF_REPO=w, VERIF_EVIDENCE_DIR=os.path.join(w, '.ev'))
        r = subprocess.run([sys.executable, os.path.join(V, 'check.py'), prop, '--no-fixtures'], capture_output=True, text=True, env=env)
        lines = [l for l in r.stdout.splitlines() if (l.startswith('  R-') and ' instances=' not in l) or l.startswith('ANALYSIS')]
        if rule == 'SILENT':
            return (prop, mid, 'CAUGHT (silent, as required)' if r.returncode == 0 else 'FALSE ALARM (exit %d)' % r.returncode, [l[:160] for l in lines[:2]])
        if rule is None:
            return (prop, mid, 'CAUGHT (documented miss, exit %d)' % r.returncode if r.returncode in (0, 1) else 'BROKEN (exit %d)' % r.returncode)
        ok = r.returncode == 1 and any(rule in l for l in r.stdout.splitlines() if l.startswith('  R-'))
        return (prop, mid, 'CAUGHT' if ok else 'MISSED (exit %d)' % r.returncode, [l[:160] for l in lines[:2]])
    finally:
        subprocess.run(['git', '-C', w, 'checkout', '--', '.'])
        wts.put(w)


res = []
try:
    with ThreadPoolExecutor(J) as ex:
        for r in ex.map(one, jobs):
            res.append(r); print(r, flush=True)
finally:
    while not wts.empty():
        subprocess.run(['git', '-C', '/repo', 'worktree', 'remove', '--force', wts.get()])
    shutil.rmtree(base, ignore_errors=True)
bad = [r for r in res if not r[2].startswith('CAUGHT')]
print('%d mutants, %d not caught' % (len(res), len(bad)))
sys.exit(1 if bad else 0)
