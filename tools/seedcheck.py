#!/usr/bin/env python3
"""Regression over the kept seeded changes (developer tool, not a registered check): for every /verif/seeded/<name>/ apply
patch.diff to /repo's working tree, run the checks named in meta.json:detected_by, expect exit 1 and the rule id in the
output, undo with git checkout.  usage: tools/seedcheck.py [name-substring]"""
import sys, os, json, subprocess
V = os.path.dirname(os.path.dirname(os.path.abspath(__file__)))
sel = sys.argv[1] if len(sys.argv) > 1 else ''
assert subprocess.run(['git', '-C', '/repo', 'status', '--porcelain', '--untracked-files=no'], capture_output=True, text=True).stdout.strip() == '', '/repo not clean'
bad = 0
for name in sorted(os.listdir(os.path.join(V, 'seeded'))):
    d = os.path.join(V, 'seeded', name)
    if sel not in name or not os.path.exists(os.path.join(d, 'meta.json')):
        continue
    meta = json.load(open(os.path.join(d, 'meta.json')))
    if subprocess.run(['git', '-C', '/repo', 'apply', os.path.join(d, 'patch.diff')]).returncode != 0:
        print(name, 'PATCH DOES NOT APPLY'); bad += 1; continue
    try:
        if not meta['detected_by']:
            print(name, 'not claimed (documented miss)')
        for det in meta['detected_by']:
            prop, rule = det.split(':')
            r = subprocess.run([sys.executable, os.path.join(V, 'check.py'), prop, '--no-fixtures'], capture_output=True, text=True)
            ok = r.returncode == 1 and ('  ' + rule + ' ') in r.stdout and 'VIOLATION property=' + prop in r.stdout
            print(name, det, 'CAUGHT' if ok else 'MISSED (exit %d)' % r.returncode)
            bad += 0 if ok else 1
    finally:
        subprocess.run(['git', '-C', '/repo', 'checkout', '--', '.'])
print('%d problems' % bad)
sys.exit(1 if bad else 0)
