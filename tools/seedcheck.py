#!/usr/bin/env python3
"""Regression over the kept seeded changes (developer tool, not a registered check): for every /verif/seeded/<name>/ apply
patch.diff to a scratch worktree of /repo's HEAD, run the checks named in meta.json:detected_by there (VERIF_REPO), expect
exit 1 and the rule id in the output.  usage: tools/seedcheck.py [-j N] [name-substring]
Uses N scratch worktrees under $TMPDIR (removed at the end); evidence of these runs goes to a scratch directory."""
import sys, os, json, subprocess, tempfile, shutil
from concurrent.futures import ThreadPoolExecutor
import queue
V = os.path.dirname(os.path.dirname(os.path.abspath(__file__)))
args = sys.argv[1:]
J = 6
if args and args[0] == '-j':
    J = int(args[1]); args = args[2:]
sel = args[0] if args else ''
base = tempfile.mkdtemp(prefix='seedcheck-')
wts = queue.Queue()
for i in range(J):
    w = os.path.join(base, 'w%d' % i)
    subprocess.run(['git', '-C', '/repo', 'worktree', 'add', '-q', '--detach', w, 'HEAD'], check=True)
    wts.put(w)
def one(name):
    d = os.path.join(V, 'seeded', name)
    meta = json.load(open(os.path.join(d, 'meta.json')))
    w = wts.get()
    out, bad = [], 0
    try:
        if subprocess.run(['git', '-C', w, 'apply', os.path.join(d, 'patch.diff')], capture_output=True).returncode != 0:
            return ['%s PATCH DOES NOT APPLY' % name], 1
        if not meta['detected_by']:
            out.append('%s not claimed (documented miss)' % name)
        env = dict(os.environ, VERIF_REPO=w, VERIF_EVIDENCE_DIR=os.path.join(w, '.ev'))
        for det in meta['detected_by']:
            prop, rule = det.split(':')
            r = subprocess.run([sys.executable, os.path.join(V, 'check.py'), prop, '--no-fixtures'], capture_output=True, text=True, env=env)
            ok = r.returncode == 1 and ('  ' + rule + ' ') in r.stdout and 'VIOLATION property=' + prop in r.stdout
            out.append('%s %s %s' % (name, det, 'CAUGHT' if ok else 'MISSED (exit %d)' % r.returncode))
            bad += 0 if ok else 1
    finally:
        subprocess.run(['git', '-C', w, 'checkout', '--', '.'])
        wts.put(w)
    return out, bad
names = [n for n in sorted(os.listdir(os.path.join(V, 'seeded'))) if sel in n and os.path.exists(os.path.join(V, 'seeded', n, 'meta.json'))]
bad = 0
try:
    with ThreadPoolExecutor(J) as ex:
        for out, b in ex.map(one, names):
            print('\n'.join(out), flush=True); bad += b
finally:
    while not wts.empty():
        subprocess.run(['git', '-C', '/repo', 'worktree', 'remove', '--force', wts.get()])
    shutil.rmtree(base, ignore_errors=True)
print('%d problems over %d seeds' % (bad, len(names)))
sys.exit(1 if bad else 0)
