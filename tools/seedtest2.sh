#!/bin/sh
# usage: tools/seedtest2.sh <patch> <prop>... : like seedtest.sh but on the scratch worktree $W (default /tmp/mw2, at /repo's HEAD), so that /repo stays untouched
W=${W:-/tmp/mw2}
p=$1; shift
git -C $W apply "$p" || { echo "PATCH DOES NOT APPLY"; exit 3; }
for prop in "$@"; do
  VERIF_REPO=$W python3 /verif/check.py $prop --no-fixtures > /tmp/seedtest2.out 2>&1; rc=$?
  echo "--- $prop exit=$rc"; grep -E "^  R-[A-Z-]+ [a-z_]|^ANALYSIS" /tmp/seedtest2.out | cut -c1-260 | head -5
done
git -C $W checkout -- .
