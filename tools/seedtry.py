#!/usr/bin/env python3
"""seedtry.py <batch-dir> [Cxx[:Cyy,Czz] ...] : for each <batch-dir>/<Cxx>/OUT/patch.diff apply the patch to a scratch worktree of /repo's
HEAD and run the property's own check (plus the listed extra ones) there; prints exit code and reported rule lines.  Developer tool."""
import sys, os, subprocess, tempfile, shutil
from concurrent.futures import ThreadPoolExecutor
V = os.path.dirname(os.path.dirname(os.path.abspath(__file__)))
batch = sys.argv[1]
sel = {}
for a in sys.argv[2:]:
    p, _, ex = a.partition(':')
    sel[p] = [x for x in ex.split(',') if x]
names = sorted(d for d in os.listdir(batch) if os.path.exists(os.path.join(batch, d, 'OUT', 'patch.diff')) and (not sel or d in sel))
base = tempfile.mkdtemp(prefix='seedtry-')
def one(pid):
    w = os.path.join(base, pid)
    subprocess.run(['git', '-C', '/repo', 'worktree', 'add', '-q', '--detach', w, 'HEAD'], check=True)
    out = []
    try:
        r = subprocess.run(['git', '-C', w, 'apply', os.path.join(batch, pid, 'OUT', 'patch.diff')], capture_output=True, text=True)
        if r.returncode:
            return ['%s PATCH DOES NOT APPLY to /repo HEAD: %s' % (pid, r.stderr.strip()[:200])]
        env = dict(os.environ, VERIF_REPO=w, VERIF_EVIDENCE_DIR=os.path.join(w, '.ev'))
        for prop in [pid[:3]] + sel.get(pid, []):
            r = subprocess.run([sys.executable, os.path.join(V, 'check.py'), prop, '--no-fixtures'], capture_output=True, text=True, env=env)
            out.append('--- %s under %s: exit=%d' % (pid, prop, r.returncode))
            for l in r.stdout.splitlines():
                if (l.startswith('  R-') and not l.startswith('  R-') is False and ' instances=' not in l) or l.startswith('ANALYSIS') or 'Traceback' in l:
                    out.append('    ' + l[:300].replace(w, ''))
            if r.returncode == 2:
                out.append('    ' + (r.stdout + r.stderr)[-400:])
    finally:
        subprocess.run(['git', '-C', '/repo', 'worktree', 'remove', '--force', w])
    return out
try:
    with ThreadPoolExecutor(8) as ex:
        for o in ex.map(one, names):
            print('\n'.join(o), flush=True)
finally:
    shutil.rmtree(base, ignore_errors=True)
