#!/bin/sh
# usage: tools/seedtest.sh <patch> <prop>... : apply patch to /repo, run the checks, undo
p=$1; shift
git -C /repo apply "$p" || { echo "PATCH DOES NOT APPLY"; exit 3; }
for prop in "$@"; do
  python3 /verif/check.py $prop --no-fixtures > /tmp/seedtest.out 2>&1; rc=$?
  echo "--- $prop exit=$rc"; grep -E "^  R-[A-Z-]+ [a-z_]|^ANALYSIS" /tmp/seedtest.out | cut -c1-260 | head -5
done
git -C /repo checkout -- .
