#!/usr/bin/env python3
"""Confirm a seeded change in its scratch worktree: usage confirm_seed.py <Cxx> [worktree]
 - patch applies; library + testdriver build; 176 tests pass WITH the change;
 - the demonstration fails with the change and passes without it.
The demo's build command is taken from the comment at the top of demo.c (lines from 'cc ' up to the run command)."""
import sys, os, re, subprocess, json
pid = sys.argv[1]
wt = sys.argv[2] if len(sys.argv) > 2 else '/tmp/seed/' + pid
out = os.path.join(wt, 'OUT')
def sh(cmd, **kw):
    return subprocess.run(cmd, shell=True, cwd=wt, stdout=subprocess.PIPE, stderr=subprocess.STDOUT, text=True, **kw)
def demo_cmd():
    if os.path.exists(os.path.join(out, 'demo.sh')):
        return 'sh OUT/demo.sh'
    src = open(os.path.join(out, 'demo.c')).read()
    head = src.split('*/')[0]
    lines = [re.sub(r'^\s*\*\s?', '', l).rstrip() for l in head.splitlines()]
    cmd = []
    on = False
    for l in lines:
        s = l.strip()
        if not on and re.match(r'^(cd\s+\S+\s*&&\s*)?(cc|gcc|clang)\s', s):
            on = True
        if on:
            if not s:
                break
            cmd.append(s.rstrip('\\').strip())
            if not s.endswith('\\') and not s.endswith('&&') and 'demo' in s and (s.startswith('./') or '&& ./' in s or s.startswith('&&')):
                break
    return ' '.join(cmd)
res = {'id': pid}
cmd = demo_cmd()
import re as _re
cmd = _re.sub(r"\s*;\s*echo\s+\"?exit=\$\?\"?\s*$", "", cmd) if cmd else cmd
res['demo_cmd'] = cmd
assert sh('git checkout -- src include CMakeLists.txt').returncode == 0
r = sh('git apply --check OUT/patch.diff'); res['applies'] = r.returncode == 0
sh('git apply OUT/patch.diff')
r = sh('cmake --build _build --target coap-3 testdriver 2>&1 | tail -3'); res['builds'] = 'FAILED' not in r.stdout and 'error' not in r.stdout.lower()
r = sh('./_build/testdriver | grep -E "^ +tests"'); res['tests_with_change'] = r.stdout.split()
r = sh(cmd, timeout=600); res['demo_with_change_exit'] = r.returncode; res['demo_with_change_tail'] = r.stdout[-300:]
sh('git checkout -- src include CMakeLists.txt')
sh('cmake --build _build --target coap-3 2>&1 | tail -1')
r = sh(cmd, timeout=600); res['demo_without_change_exit'] = r.returncode; res['demo_without_change_tail'] = r.stdout[-200:]
res['confirmed'] = bool(res['applies'] and res['builds'] and res['tests_with_change'][1:5] == ['176', '176', '176', '0'] and res['demo_with_change_exit'] != 0 and res['demo_without_change_exit'] == 0)
print(json.dumps(res, indent=1))
