"""property id -> function(run) running that property's rules and finishing the evidence"""
import os
from core.report import Run

ASSUME_COMMON = [
    "clang 14's parser and CFG construction are faithful to the C source",
    "the cmake configure step run by the check reproduces the shipped configuration (flags, generated headers)",
    "tracked objects are not aliased through memory other than the direct copies the solver follows",
    "indirect calls resolve to the functions stored in that field inside the library; application callbacks are opaque",
    "libc/GnuTLS behave as their prototypes say",
    "typestate reasoning is sequential (the lock rules of C13 are what justifies that for library state)",
]


def c17(run):
    from rules import r_file
    P = run.prog('rel')
    r_file.run(run, P)
    run.min_instances('R-FILE-MODE', 14)
    run.min_instances('R-PERSIST', 6)
    run.assumptions = ASSUME_COMMON + ["fopen mode strings are literals (a non-literal mode is counted and not judged)"]
    return run.finish(
        "Static FILE* typestate over every path of every library function that calls fopen (persistence code of "
        "coap_subscribe.c): decides the structural clauses 'a stream is only read/written if its open mode allows it' and, per "
        "updater, 'only the .tmp copy is written, the real file is never opened truncating, rename() is reached only after a "
        "flush/close of the .tmp stream whose tested result is success'. These are necessary for 'old or new complete state "
        "after a crash'; restart behaviour and Observe counter values are NOT decided.")


def c13(run):
    from rules import r_lock, r_cfgts
    Prel = run.prog('rel')
    Pts = run.prog('ts')
    r_cfgts.run(run, Prel, Pts, run.generated())
    r_lock.run(run, Pts)
    run.assumptions = ASSUME_COMMON + [
        "paths after a failed re-lock (state F; only possible while coap_cleanup() runs concurrently) carry no obligations",
        "address-taken library functions (layer tables, persistence call-outs, TLS back-end callbacks) are entered with the lock held",
        "data races on the deliberately unlocked accessors and progress under all schedules are NOT decided"]
    return run.finish(
        "Lock discipline decided statically: (R-CFG-TS) the advertised capability matches the compiled mechanism; (R-LOCK-BAL) lock "
        "typestate {U,L,F} balanced on every path of every function in every calling context reached from the public API; (R-LOCK-CALL) "
        "the project's own precondition marker and every function that transitively reaches it are only entered with the lock held, and no "
        "library code calls a locking COAP_API wrapper while locked; (R-LOCK-CB) in_callback increments balance and application callbacks "
        "run with in_callback>0 or unlocked; (R-LOCK-WAIT) no unbounded wait while locked. Necessary for 'serialised and never deadlocks'.")


def c18(run):
    from rules import r_allocnull
    P = run.prog('rel')
    r_allocnull.run(run, P)
    run.min_instances('R-ALLOC-NULL', 150)
    from rules import r_ownpdu
    r_ownpdu.run(run, P)
    run.assumptions = ASSUME_COMMON + ["every allocation funnels through coap_malloc_type/coap_realloc_type/malloc/calloc/realloc/strdup",
                                       "'the next operation succeeds' is NOT decided"]
    return run.finish(
        "Library-wide: every value returned by a computed may-fail constructor is NULL-tested on every path before it is dereferenced or "
        "handed to a callee that dereferences it (R-ALLOC-NULL); PDUs are consumed exactly once on every path including error paths "
        "(R-OWN-PDU). Necessary for 'allocation failure is survived without crash or leak'.")


def c12(run):
    from rules import r_session
    P = run.prog('rel')
    r_session.run_ref_tmp(run, P)
    r_session.run_ref_hold(run, P)
    r_session.run_sess_evt(run, P)
    from rules import r_ownlocal
    r_ownlocal.run(run, P)
    run.min_instances('R-OWN-LOCAL', 30)
    run.min_instances('R-REF-TMP', 8)
    run.min_instances('R-REF-HOLD', 6)
    run.min_instances('R-SESS-EVT', 5)
    run.assumptions = ASSUME_COMMON + ["peer<->session bijection (hash equality) and reclamation timing are NOT decided"]
    return run.finish(
        "Reference discipline of sessions decided on every path: temporary references are released in the same function (R-REF-TMP); objects "
        "holding a session reference (computed: queue nodes, subscriptions, async entries) release it before they are freed or cleared "
        "(R-REF-HOLD); a server session is never freed without SERVER_SESSION_DEL and NEW is raised once (R-SESS-EVT); function-local owners "
        "of strings/binaries/optlists/cache keys are disposed of on every path (R-OWN-LOCAL). Necessary for 'live while referenced, everything released'.")


PROPS = {
    'C12': c12,
    'C18': c18,
    'C13': c13,
    'C17': c17,
}
