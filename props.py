"""property id -> function(run) running that property's rules and finishing the evidence"""
import os
from core.report import Run

ASSUME_COMMON = [
    "clang 14's parser and CFG construction are faithful to the C source",
    "the cmake configure step run by the check reproduces the shipped configuration (flags, generated headers)",
    "tracked objects are not aliased through memory other than the direct copies the solver follows",
    "indirect calls resolve to the functions stored in that field inside the library; application callbacks are opaque",
    "libc/GnuTLS behave as their prototypes say",
    "typestate reasoning is sequential (the lock rules of C13 are what justifies that for library state)",
]


def c17(run):
    from rules import r_file
    P = run.prog('rel')
    r_file.run(run, P)
    run.min_instances('R-FILE-MODE', 14)
    run.min_instances('R-PERSIST', 6)
    run.assumptions = ASSUME_COMMON + ["fopen mode strings are literals (a non-literal mode is counted and not judged)"]
    return run.finish(
        "Static FILE* typestate over every path of every library function that calls fopen (persistence code of "
        "coap_subscribe.c): decides the structural clauses 'a stream is only read/written if its open mode allows it' and, per "
        "updater, 'only the .tmp copy is written, the real file is never opened truncating, rename() is reached only after a "
        "flush/close of the .tmp stream whose tested result is success'. These are necessary for 'old or new complete state "
        "after a crash'; restart behaviour and Observe counter values are NOT decided.")


PROPS = {
    'C17': c17,
}
