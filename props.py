"""property id -> function(run) running that property's rules and finishing the evidence"""
import os
from core.report import Run

OSCORE_UNITS = ('coap_oscore.c', 'oscore.c', 'oscore_cbor.c', 'oscore_context.c', 'oscore_cose.c', 'oscore_crypto.c')

ASSUME_COMMON = [
    "clang 14's parser and CFG construction are faithful to the C source",
    "the cmake configure step run by the check reproduces the shipped configuration (flags, generated headers)",
    "tracked objects are not aliased through memory other than the direct copies the solver follows",
    "indirect calls resolve to the functions stored in that field inside the library; application callbacks are opaque",
    "libc/GnuTLS behave as their prototypes say",
    "typestate reasoning is sequential (the lock rules of C13 are what justifies that for library state)",
]


def c17(run):
    from rules import r_file
    P = run.prog('rel')
    r_file.run(run, P)
    r_file.run_restore_key(run, P)
    r_file.run_copy_through(run, P)
    r_file.run_no_remove(run, P)
    r_file.run_raw_packet(run, P)
    r_file.run_load_order(run, P)
    r_file.run_track_order(run, P)
    from rules import r_misc12
    r_misc12.run_observe_codes_agree(run, P)
    r_misc12.run_copy_loop_exits(run, P)
    from rules import r_nullbelief
    run.require_count(r_nullbelief.run_installed(run, P) >= 1 or run.cfg != 'base', 'R-NULL-BELIEF (installed call-out): no installed call-out with a must-dereference summary found')
    from rules import r_cmpbound as _cb
    _cb.run_identity(run, P)
    run.min_instances('R-FILE-MODE', 14)
    run.min_instances('R-PERSIST', 6)
    run.assumptions = ASSUME_COMMON + ["fopen mode strings are literals (a non-literal mode is counted and not judged)"]
    return run.finish(
        "Static FILE* typestate over every path of every library function that calls fopen (persistence code of "
        "coap_subscribe.c): decides the structural clauses 'a stream is only read/written if its open mode allows it' and, per "
        "updater, 'only the .tmp copy is written, the real file is never opened truncating, rename() is reached only after a "
        "flush/close of the .tmp stream whose tested result is success'. These are necessary for 'old or new complete state "
        "after a crash'; restart behaviour and Observe counter values are NOT decided. A record that is only copied into the new file is written back with exactly the variables the read call of that loop filled (R-PERSIST copy-through). No remove()/unlink() is applied to the destination of a function's rename() (one atomic step). The raw request recorded for a dynamically created resource spans header and body (raw packet). No loader that creates resources is reachable after a loader that looks resources up (load order). The Observe counter is not stepped after it was handed to the tracking call-out (recorded value).")


def c13(run):
    from rules import r_lock, r_cfgts
    Prel = run.prog('rel')
    Pts = run.prog('ts')
    r_cfgts.run(run, Prel, Pts, run.generated())
    r_lock.run(run, Pts)
    from rules import r_lockimpl
    r_lockimpl.run(run, Pts)
    r_lockimpl.run_init_once(run, Pts)
    from rules import r_misc12
    r_misc12.run_sockets_nonblocking(run, Pts)
    run.assumptions = ASSUME_COMMON + [
        "paths after a failed re-lock (state F; only possible while coap_cleanup() runs concurrently) carry no obligations",
        "address-taken library functions (layer tables, persistence call-outs, TLS back-end callbacks) are entered with the lock held",
        "data races on the deliberately unlocked accessors and progress under all schedules are NOT decided"]
    return run.finish(
        "Lock discipline decided statically: (R-CFG-TS) the advertised capability matches the compiled mechanism; (R-LOCK-BAL) lock "
        "typestate {U,L,F} balanced on every path of every function in every calling context reached from the public API; (R-LOCK-CALL) "
        "the project's own precondition marker and every function that transitively reaches it are only entered with the lock held, and no "
        "library code calls a locking COAP_API wrapper while locked; (R-LOCK-CB) in_callback increments balance and application callbacks "
        "run with in_callback>0 or unlocked; (R-LOCK-WAIT) no unbounded wait while locked; (R-LOCK-OWNER) the lock object's owner id and nesting counters are only written by the thread that owns the mutex (inside the two primitives: not after the mutex release, not before the acquisition). Necessary for 'serialised and never deadlocks'. The global lock's mutex is (re)initialised only behind the once-guard of coap_startup() (initialised once).")


def c18(run):
    from rules import r_allocnull
    P = run.prog('rel')
    r_allocnull.run(run, P)
    run.min_instances('R-ALLOC-NULL', 150)
    from rules import r_ownpdu
    Apdu = r_ownpdu.run(run, P)
    from rules import r_shallow
    r_shallow.run(run, P)
    from rules import r_ownlocal, r_holder
    A = r_ownlocal.run(run, P)      # strings / binaries / optlists / cache keys created in a function: released on every path, error paths included
    r_holder.run(run, P, set(A.spec.creators) | set(Apdu.spec.creators))
    from rules import r_uaf
    r_uaf.run(run, P)
    from rules import r_realloc
    r_realloc.run(run, P)
    from rules import r_consume
    r_consume.run(run, P)
    r_consume.run_handback(run, P)
    from rules import r_ownraw
    r_ownraw.run(run, P)
    from rules import r_dangfield
    r_dangfield.run(run, P)
    from rules import r_misc12
    r_misc12.run_linked_destroyed(run, P)
    r_misc12.run_destroy_uninitialised(run, P)
    from rules import r_nullbelief
    _md = r_nullbelief.run(run, P)
    r_nullbelief.run_installed(run, P, _md)
    run.min_instances('R-NULL-BELIEF', 100)
    from rules import r_relonce
    r_relonce.run(run, P)                # a body handed to coap_add_data_large_*() is released exactly once, also when a later allocation fails
    from rules import r_noexit
    r_noexit.run(run, P)
    run.assumptions = ASSUME_COMMON + ["every allocation funnels through coap_malloc_type/coap_realloc_type/malloc/calloc/realloc/strdup",
                                       "'the next operation succeeds' is NOT decided"]
    return run.finish(
        "Library-wide: every value returned by a computed may-fail constructor is NULL-tested on every path before it is dereferenced or "
        "handed to a callee that dereferences it (R-ALLOC-NULL); PDUs are consumed exactly once on every path including error paths "
        "(R-OWN-PDU); after a shallow struct copy no destructor that frees a still-aliased owned field of the copy is called before that field was "
        "given its own buffer (R-SHALLOW-ALIAS); a record allocated in a function is not released with the raw allocator call while fields of it still "
        "hold objects created on that path (R-HOLDER-LEAK); strings, binaries, option lists and cache keys created in a function are released, stored, returned or handed "
        "on on every path, error paths included (R-OWN-LOCAL); a local pointer handed to a (computed, must-free) destructor is not used again before it is "
        "re-assigned (R-USE-AFTER-DESTROY). Necessary for 'allocation failure is survived without crash or leak'. The result of a reallocating call is never stored into the pointer that was passed as the old block, and no field of the owning parameter object is changed ahead of a reallocation that fails (R-REALLOC-COMMIT); GnuTLS's allocators (function-pointer variables) are may-fail constructors too. A function that takes over an object it is handed agrees over all its failure returns on who owns it afterwards (R-CONSUME-AGREE); no library function calls exit/abort (R-NO-EXIT: the out-of-memory arm of the bundled uthash's HASH_ADD does, at six sites, which are known findings). A record field handed to a may-delete-and-return helper is assigned again on every path after the call (hand-back); scratch buffers are released on every path (R-OWN-RAW). The body's release callback is stored in the transfer record before the first failure exit that relies on the record to run it (R-RELEASE-ONCE under C18). A record field handed to a destructor is assigned again (or its holder disposed of) on every path (R-DANGLING-FIELD).")


def c12(run):
    from rules import r_session
    P = run.prog('rel')
    r_session.run_ref_tmp(run, P)
    r_session.run_rel_owed(run, P)
    from rules import r_expiry
    r_expiry.run(run, P)
    r_expiry.run_free_candidates(run, P)
    r_session.run_ref_hold(run, P)
    r_session.run_ref_stale(run, P)
    r_session.run_sess_evt(run, P)
    r_session.run_teardown(run, P)
    r_session.run_hashed(run, P)
    r_session.run_touch(run, P)
    r_session.run_key_zero(run, P)
    from rules import r_finderkey
    r_finderkey.run(run, P)
    from rules import r_consume
    r_consume.run(run, P)
    from rules import r_ownraw
    r_ownraw.run(run, P)
    from rules import r_ownlocal
    r_ownlocal.run(run, P)
    run.min_instances('R-OWN-LOCAL', 30)
    run.min_instances('R-REF-TMP', 8)
    run.min_instances('R-REF-HOLD', 6)
    run.min_instances('R-SESS-EVT', 5)
    run.assumptions = ASSUME_COMMON + ["peer<->session bijection (hash equality) and reclamation timing are NOT decided"]
    return run.finish(
        "Reference discipline of sessions decided on every path: temporary references are released in the same function (R-REF-TMP); objects "
        "holding a session reference (computed: queue nodes, subscriptions, async entries) release it before they are freed or cleared "
        "(R-REF-HOLD); a server session is never freed without SERVER_SESSION_DEL and NEW is raised once (R-SESS-EVT); function-local owners "
        "of strings/binaries/optlists/cache keys are disposed of on every path (R-OWN-LOCAL). Necessary for 'live while referenced, everything released'. After a holder's session reference was released the field is overwritten or the holder freed raw on every path (R-REF-HOLD stale); a session made in a function is freed there only after it was added to a session table (R-SESS-HASHED). A function that takes over an object it is handed agrees over all its failure returns on who owns the object afterwards (R-CONSUME-AGREE). Scratch buffers (raw allocations the function itself frees) are released on every path (R-OWN-RAW); a session found by the hash look-up is returned only after last_rx_tx was refreshed (idle accounting). The record that files and finds sessions by its bytes is zeroed as a whole before its fields are set, in its constructor and for every local look-up key (R-SESS-KEY). Per-session finders (computed: coap_find_observer, coap_find_observer_cache_key, coap_find_async_lkd) return only elements whose session field equals the session they were asked for (R-FINDER-KEY). Nothing dereferences a holder's session pointer between the release of its reference and the overwrite / free (R-REF-HOLD stale, use).")


CODEC_UNITS = ('coap_pdu.c', 'coap_option.c')


def _codec_funcs(P):
    return set(f['name'] for f in P.lib_funcs() if f['unit'] in CODEC_UNITS)


def c01(run):
    from rules import r_codec, r_width, r_fixup
    P = run.prog('rel')
    r_codec.run(run, P)
    r_codec.run_toklen(run, P)
    r_codec.run_tokext(run, P)
    r_codec.run_tokbias(run, P)
    r_codec.run_tokmax(run, P)
    r_codec.run_marker(run, P)
    r_width.run_a(run, P)
    r_fixup.run_stale(run, P, only=_codec_funcs(P))
    r_fixup.run_pairing(run, P)
    r_fixup.run_atomic(run, P)
    r_fixup.run_maxopt(run, P)
    r_fixup.run_rebase(run, P)
    r_fixup.run_capacity(run, P)
    from rules import r_loststore
    run.require_count(r_loststore.run(run, P, units=('coap_pdu.c',)) >= 1 or run.cfg != 'base', 'R-LOST-STORE: no store followed by a resetting callee found in coap_pdu.c')
    run.require_count(r_loststore.run_maintained(run, P, units=('coap_pdu.c',)) >= 1 or run.cfg != 'base', 'R-LOST-STORE (maintained field): no field copy between two objects found in coap_pdu.c')
    from rules import r_width as _rw
    _rw.run_f(run, P)
    _rw.run_g(run, P)
    _rw.run_h(run, P)
    from rules import r_stalecopy
    r_stalecopy.run_scalar(run, P)       # no stale copy of the running option number across an appending call
    run.min_instances('R-CODEC-TAB', 30)
    run.min_instances('R-FIXUP', 8)
    run.assumptions = ASSUME_COMMON + ["equality of parse(serialise(m)) with m over the message space and insertion-order stability are NOT decided"]
    r_codec.run_option_limits(run, P)    # what the builder may emit (an empty If-Match) the parser accepts: both follow the RFC length table
    return run.finish(
        "Writer/reader table agreement decided statically: the thresholds, arm offsets and nibble splits of every option/TCP-length/token-length "
        "encoder and decoder equal the RFC 7252/8323/8974 tables and each other, the decoder's option-number bound as folded by the compiler equals the "
        "builder's (R-CODEC-TAB); no store passes through a narrowing explicit cast that can lose bits (R-WIDTH); the builder never uses a buffer "
        "pointer across a reallocation and moves payload pointer and size together (R-FIXUP). Necessary conditions of the round trip. Every ordering comparison against the extended-token bias macros cuts the application token lengths exactly at 13 / 269 (R-CODEC-TAB 7, by enumeration over all token lengths). The largest token the library accepts is the RFC 8974 maximum as the compiler folded it (8); a stored payload marker is followed by payload of known non-zero length (9); an editor advances used_size only after coap_opt_encode() succeeded (R-FIXUP). After a removal max_opt comes from the options that remain; coap_pdu_resize() re-bases data against the old token pointer; the stream frame size adds the token-extension bytes. coap_pdu_check_resize() answers non-zero only with alloc_size >= size known or after growing to a size known >= size (capacity contract); the decoder's option-number bound separates exactly the numbers above 65535, whatever its spelling (enumerated); no right shift discards every bit of an explicitly narrowed value (R-WIDTH f). A value implicitly narrowed into a local of the codec units fits whenever the interval analysis can bound it (R-WIDTH g).")


def c03(run):
    from rules import r_codec, r_width, r_parsegate
    P = run.prog('rel')
    r_width.run_b(run, P)
    r_width.run_d(run, P)
    r_width.run_g(run, P)
    r_width.run_h(run, P)
    from rules import r_lenread
    r_lenread.run_pair_advance(run, P)
    r_codec.run(run, P)
    r_codec.run_toklen(run, P)
    r_codec.run_tokext(run, P)
    r_codec.run_tokbias(run, P)
    r_codec.run_tokmax(run, P)
    r_codec.run_marker(run, P)
    r_codec.run_option_limits(run, P)
    from rules import r_misc12 as _m12
    _m12.run_marker_whole_byte(run, P)
    _m12.run_token_skip_agrees(run, P)
    _m12.run_short_unit_parsed(run, P)
    r_parsegate.run(run, P)
    r_parsegate.run_outputs(run, P)
    r_parsegate.run_verdict(run, P)
    from rules import r_misc12
    r_misc12.run_value_fits_rest(run, P)
    run.min_instances('R-WIDTH', 4)
    run.min_instances('R-PARSE-GATE', 15)
    run.assumptions = ASSUME_COMMON + ["agreement with an independent decoder on all inputs is NOT decided; the per-option length limits are compared with the RFC tables frozen in rules/r_codec.py (26 option numbers)"]
    return run.finish(
        "Decoder strictness decided structurally: option-number arithmetic cannot wrap unnoticed (interval analysis of every assignment to the "
        "16-bit delta / running number with wrap-guard or range-guard discharge, R-WIDTH); decoder tables agree with the encoder's and the RFCs "
        "(R-CODEC-TAB); every reject condition of the frozen table (nibble 15, TKL 15, token longer than message, marker without payload, "
        "non-empty Empty, option-number overflow, runt) exists and every path through its rejecting arm returns 0, and coap_dispatch is reached only "
        "after successful parser calls (R-PARSE-GATE). The per-option length limits extracted from the decoder's switch equal the RFC tables row by row (R-CODEC-TAB 11: 26 option numbers). The accept flag a decoding function collects over several checks is never raised again once it is 0 (R-PARSE-GATE verdict); token-length thresholds cut at 13 / 269 (R-CODEC-TAB 7). A stored payload marker is followed by payload of known non-zero length (R-CODEC-TAB 9). An argument implicitly narrowed to an 8-/16-bit parameter in the decoding units is proven to fit (R-WIDTH d: the per-option limits see the full option length). The option-number bound of next_option_safe() is decided by enumeration over boundary pairs, and its overflow-safe spelling `delta > MAX - *max_opt` is recognised by the wrap guard and the reject table. A value implicitly narrowed into a local of the codec units fits whenever it can be bounded (R-WIDTH g: the decoded extended token length).")


def c04(run):
    from rules import r_width, r_fixup
    P = run.prog('rel')
    r_width.run_a(run, P)
    r_fixup.run_stale(run, P, only=_codec_funcs(P))
    r_fixup.run_pairing(run, P)
    r_fixup.run_atomic(run, P)
    r_fixup.run_maxopt(run, P)
    r_fixup.run_rebase(run, P)
    r_fixup.run_capacity(run, P)
    from rules import r_loststore
    run.require_count(r_loststore.run(run, P, units=('coap_pdu.c',)) >= 1 or run.cfg != 'base', 'R-LOST-STORE: no store followed by a resetting callee found in coap_pdu.c')
    run.require_count(r_loststore.run_maintained(run, P, units=('coap_pdu.c',)) >= 1 or run.cfg != 'base', 'R-LOST-STORE (maintained field): no field copy between two objects found in coap_pdu.c')
    from rules import r_width as _rw
    _rw.run_f(run, P)
    _rw.run_g(run, P)
    _rw.run_h(run, P)
    from rules import r_stalecopy
    r_stalecopy.run_scalar(run, P)
    from rules import r_codec
    r_codec.run(run, P)
    r_codec.run_toklen(run, P)
    r_codec.run_tokext(run, P)
    r_codec.run_tokbias(run, P)
    r_codec.run_tokmax(run, P)
    r_codec.run_marker(run, P)
    run.min_instances('R-FIXUP', 8)
    run.assumptions = ASSUME_COMMON + ["equality with the list model after arbitrary edit sequences is NOT decided"]
    return run.finish(
        "In-place editors (coap_update_token, coap_remove_option, coap_insert_option, coap_update_option and the codec units): every adjustment of "
        "used_size is matched by the same adjustment of a non-NULL payload pointer and equals the memmove distance, no pointer into the buffer is used "
        "after a call that may reallocate it (R-FIXUP), and no length is stored through a narrowing explicit cast that can truncate it (R-WIDTH). Token-length thresholds are applied so that they cut the application token lengths at 13 / 269 (R-CODEC-TAB 7). An editor advances used_size only after coap_opt_encode() succeeded (R-FIXUP, bytes before bookkeeping). After a removal max_opt is recomputed from the options that remain (R-FIXUP max_opt). coap_pdu_check_resize() answers non-zero only with the capacity known (capacity contract); no right shift discards every bit of an explicitly narrowed value (R-WIDTH f: the high delta byte written by coap_remove_option()). Implicit narrowing into a codec local fits when boundable (R-WIDTH g).")


def c05(run):
    from rules import r_stream
    P = run.prog('rel')
    r_stream.run_adv(run, P)
    r_stream.run_phase(run, P)
    r_stream.run_cursor(run, P)
    r_stream.run_needed_len(run, P)
    r_stream.run_unit_complete(run, P)
    r_stream.run_phase_local(run, P)
    r_stream.run_empty_unit(run, P)
    r_stream.run_buffered_examined(run, P)
    from rules import r_misc12
    r_misc12.run_terminator_last(run, P)
    r_misc12.run_short_unit_parsed(run, P)
    r_stream.run_buffer_param(run, P)
    from rules import r_width as _rw5
    _rw5.run_h(run, P)                   # the declared length of a stream message is computed without wrapping before it is compared with the limits
    r_stream.run_cap(run, P)
    r_stream.run_cap_own(run, P)
    run.min_instances('R-STREAM-ADV', 4)
    run.min_instances('R-STREAM-CAP', 4)
    run.assumptions = ASSUME_COMMON + ["equality of the delivered message sequence over all segmentations is NOT decided (needs a relational domain); "
                                       "indices that are persistent reader state are only checked for transfer accounting, not for bounds"]
    return run.finish(
        "Stream readers (TCP three-state reader, WebSocket frame and handshake readers): every transfer of n bytes to buffer+counter is followed by "
        "an advance of that counter by the same n or a reset, on every path (R-STREAM-ADV); a length declared by the peer reaches an allocation/copy/"
        "read size only after the non-exceeding arm of a comparison with a maximum, the exceeding arm reaches a closing call, and a full handshake "
        "line buffer is rejected (R-STREAM-CAP). Necessary for 'same messages however the stream is cut' and 'over-long closes the session'. The receive limit, once our own maximum is set, is computed without any session field the peer can set (R-STREAM-CAP own limit; peer-settable fields computed from the assignments of decoded option values). A position is never SET to the size of the piece just stored unless it is known 0, and the local that is compared as needed length with a progress counter is not increased after that comparison let the function carry on (R-STREAM-ADV). The header is handed to the size function with a length only under a condition that mentions every variable of that length (unit complete). A local that a reader assigns in its header phase and stores into the session record is not read on a path that skipped that phase (phase-local value). A message created with nothing left to read is dispatched before the reader returns (empty unit). The size a layer read asks the lower layer for is bounded by the capacity of the buffer it was handed, on every path of that call (R-STREAM-CAP, the caller's buffer).")


def c16(run):
    from rules import r_lenread, r_uriclass, r_allocnull
    P = run.prog('rel')
    r_lenread.run(run, P)
    r_lenread.run_outcap(run, P)
    r_lenread.run_accum_guard(run, P)
    r_uriclass.run(run, P)
    r_uriclass.run_hexcase(run, P)
    r_uriclass.run_dot_root(run, P)
    r_uriclass.run_default_ports(run, P)
    from rules import r_cmpbound as _cb
    _cb.run_identity(run, P)
    from rules import r_codec
    r_codec.run_opt_cursor(run, P)
    from rules import r_sizefill
    r_sizefill.run(run, P, units=('coap_uri.c',))
    r_sizefill.run_separator(run, P, units=('coap_uri.c',))
    uri_funcs = set(f['name'] for f in P.lib_funcs() if f['unit'] == 'coap_uri.c')
    r_allocnull.run(run, P, only=uri_funcs)
    run.min_instances('R-LEN-READ', 12)
    run.min_instances('R-URI-CLASS', 2)
    run.assumptions = ASSUME_COMMON + ["agreement with RFC 3986 on all strings, dot-segment resolution and the single-length two-cursor scanner "
                                       "coap_split_uri_sub are NOT decided"]
    from rules import r_misc12
    r_misc12.run_scan_cursor(run, P)
    return run.finish(
        "URI helpers: every look-ahead read of the length-delimited scanners (check_segment, dots, strnchr, coap_replace_percents, "
        "coap_host_is_unix_domain) is proven inside the delimited bytes by a cursor/remaining-length analysis, and decode_segment is only called "
        "after a tested check_segment on the same arguments (R-LEN-READ); the unescaped character classes, evaluated for all 256 byte values on "
        "the extracted expression, exclude the separators the reconstruction writes and '%' (R-URI-CLASS, necessary for injectivity); optlist "
        "constructors are NULL-checked (R-ALLOC-NULL). The measuring and the filling loop of the reconstruction agree for all 256 byte values (R-SIZE-FILL); a port number cannot leave its digit loop through the value guard without being rejected by the range check (R-LEN-READ accumulator guard). Equality tests against hex letters come in both cases (R-URI-CLASS hex case). The position from which a `..` segment may delete is behind the last element the caller's chain already held (dot-dot stops at the root). Every scheme is compared, in coap_uri_into_optlist(), with its own default port of coap_uri_scheme[] (default ports agree). A cursor over encoded options is advanced by coap_opt_size() only (R-CODEC-TAB 10).")


def c15(run):
    from rules import r_replay, r_shift
    P = run.prog('rel')
    r_shift.run(run, P, units=('oscore.c', 'oscore_cbor.c'))
    r_replay.run_own(run, P)
    r_replay.run_rb(run, P)
    r_replay.run_must(run, P)
    from rules import r_ssn
    r_ssn.run(run, P)
    r_ssn.run_echo_piv(run, P)
    r_ssn.run_ctx_siblings(run, P)
    from rules import r_width
    r_width.run_e(run, P)
    from rules import r_oscsplit
    r_oscsplit.run_flag_reach(run, P)    # the flag that decides 'new Partial IV or the request's nonce' is set before it is tested: notifications never reuse the request nonce
    run.min_instances('R-RANGE', 4)
    run.min_instances('R-REPLAY-OWN', 8)
    run.min_instances('R-REPLAY-RB', 5)
    run.assumptions = ASSUME_COMMON + ["acceptance over histories and the numeric side of the sender-sequence watermark (ssn_freq >= 1, start-up rounding) are NOT decided"]
    from rules import r_width as _rw
    _rw.run_d(run, P, units=OSCORE_UNITS, widths=(8, 16, 32), min_src=64)    # the Partial IV / nonce is built from all 64 bits of the sender sequence number
    return run.finish(
        "Anti-replay state discipline: shift counts derived from sequence numbers / CBOR are proven below the operand width (R-RANGE); the "
        "replay fields are written only by the window functions and the constructor (R-REPLAY-OWN); everything the validation modifies is "
        "snapshotted and restored on every path of the roll-back, and every failure exit between validation and authentication rolls back "
        "(R-REPLAY-RB); every accepted request passed a successful validation (R-REPLAY-MUST); the sender sequence number is only stepped by +1, "
        "advanced exactly once between its use as partial IV and the successful return, and compared with the persisted watermark such that the "
        "skipping arm implies used+1 <= next_seq while the other arm advances next_seq and hands it to the save callback (R-SSN-ORDER). Seven genuine defects of the current tree are "
        "listed in known_findings.txt and re-observed on every run. A freshly built Echo challenge is protected with its own Partial IV on every path (R-SSN-ORDER Echo). Every setting the configuration constructor takes from coap_oscore_conf_t is assigned by the copying (Appendix B.2) constructor (constructors agree). A stored difference of 64-bit counters (the distance behind the newest sequence number) keeps its width until a comparison has judged it (R-WIDTH e). A steering flag of the protect function is reached at its test by an assignment other than its initialiser (R-OSC-SPLIT flags: notifications get their own Partial IV).")


def c08(run):
    from rules import r_cnt
    P = run.prog('rel')
    r_cnt.run(run, P)
    r_cnt.run_dequeue(run, P)
    r_cnt.run_counted_queued(run, P)
    r_cnt.run_reset_drains(run, P)
    r_cnt.run_flush_order(run, P)
    r_cnt.run_scan_head(run, P)
    r_cnt.run_park_reasons(run, P)
    from rules import r_misc12
    r_misc12.run_no_callout_in_window(run, P)
    r_misc12.run_counter_decrement(run, P)
    r_misc12.run_inserted_detached(run, P)   # a held message that is released enters the retransmit queue with no stale link to the delay queue
    from rules import r_delayq
    r_delayq.run(run, P)                 # if the session fails, each held Confirmable is reported by a NACK
    from rules import r_midzero
    r_midzero.run(run, P)
    from rules import r_ownnode
    r_ownnode.run_queue_key(run, P)       # the node an ACK/RST retires is the one of that session and message id
    run.min_instances('R-CNT-CON', 8)
    run.assumptions = ASSUME_COMMON + ["the in-flight bound under all ACK/RST orders and losses and the FIFO order of held messages are NOT decided"]
    return run.finish(
        "Accounting discipline of session->con_active on every path: only ++/--/=0 write it; every decrement happens with a send-queue node in "
        "hand (reached through a coap_queue_t* or with one known non-NULL); every increment is reached only on the below-the-limit arm of a "
        "comparison with NSTART, and the two functions that first transmit an unreliable Confirmable count it; conversely a node that "
        "coap_remove_from_queue() hands out and that is then deleted has been un-counted on that path (or was no Confirmable / the count is 0). "
        "Necessary for the NSTART bound and for held messages going out when earlier exchanges finish. A flush of the delay queue that is controlled by a test of con_active is dominated by the decrement under the same test (h). No test of a coap_mid_t typed value separates id 0 from the other ids (R-MID-ZERO). The unlink-with-predecessor scan that drains a session's messages starts behind a head known not to belong to the session (i).")


def c06(run):
    from rules import r_ownnode
    P = run.prog('rel')
    r_ownnode.run(run, P)
    r_ownnode.run_retrans(run, P)
    r_ownnode.run_waitack(run, P)
    r_ownnode.run_queue_key(run, P)
    from rules import r_misc12
    r_misc12.run_timeout_drawn(run, P)
    r_misc12.run_unlink_before_callout(run, P)
    r_misc12.run_min_update(run, P)
    r_misc12.run_delta_inherited(run, P)
    r_misc12.run_inserted_detached(run, P)
    r_misc12.run_one_nack_per_disconnect(run, P)
    from rules import r_cnt
    r_cnt.run_counted_queued(run, P)     # a counted Confirmable is queued for retransmission (or un-counted): it cannot vanish without an outcome
    from rules import r_timer
    r_timer.run(run, P)
    r_timer.run_base(run, P)
    r_cnt.run_flush_order(run, P)        # a held Confirmable is released when the slot in front of it is freed
    r_cnt.run_reset_drains(run, P)       # a reset of the in-flight count only together with draining the queue: otherwise the give-up path skips the flush
    from rules import r_midzero
    r_midzero.run(run, P)
    run.min_instances('R-OWN-NODE', 8)
    run.min_instances('R-RETRANS', 2)
    run.assumptions = ASSUME_COMMON + ["timing (T, 2T, 4T; reported wait <= earliest deadline), byte-identical retransmission and behaviour under loss patterns are NOT decided",
                                       "a (session, mid) pair occurs at most once in the send queue"]
    return run.finish(
        "Send-queue node typestate on every path of every function handling coap_queue_t*: a node has exactly one owner (held / in the send "
        "queue / in a delay queue / deleted), is never deleted while linked in a delay queue, never used after deletion and never lost "
        "(R-OWN-NODE) - so after its single outcome a message cannot be sent again; in coap_retransmit the retransmission is gated by "
        "retransmit_cnt < max_retransmit with exactly one increment, and a given-up Confirmable is NACKed exactly once before deletion (R-RETRANS). Whoever arms the context's timerfd has recorded the deadline it arms it for (R-TIMER-REC). No test of a coap_mid_t typed value separates id 0 from the other ids (R-MID-ZERO). The base time of the send queue is set only with the queue known empty, or advanced by the adjuster that takes the same delta off the queued deadlines (queue base). A reset of con_active is followed by draining the session's queued messages (g).")


REPLY_FUNCS = ('handle_request', 'coap_dispatch', 'check_token_size', 'hnd_get_wellknown_lkd', 'coap_new_error_response', 'coap_send_ack_lkd',
               'coap_send_rst_lkd', 'coap_send_message_type_lkd', 'coap_send_error_lkd', 'coap_send_internal', 'coap_send_lkd', 'coap_send')


def c10(run):
    from rules import r_ownpdu, r_reply
    P = run.prog('rel')
    for fn in REPLY_FUNCS[:3]:
        run.require(P.has(fn), 'anchor function %s() of C10 not found' % fn)
    r_ownpdu.run(run, P, only=set(REPLY_FUNCS))
    r_reply.run(run, P)
    r_reply.run_ack_con(run, P)
    r_reply.run_resolve_order(run, P)
    r_reply.run_helper_verdict(run, P)
    r_reply.run_handler_bound(run, P)
    from rules import r_restart
    r_restart.run(run, P)
    from rules import r_uriclass
    r_uriclass.run(run, P)               # the look-up key handle_request builds from the Uri-Path options is injective: the handler registered for a path runs for that path only
    from rules import r_suppress
    r_suppress.run(run, P)
    from rules import r_ownnode
    r_ownnode.run_waitack(run, P)        # a queued Non-confirmable reply is flagged for exactly one (delayed) transmission
    from rules import r_pairargs
    r_pairargs.run(run, P)               # the token echoed in a reply is copied with the length of the token it is copied from
    r_pairargs.run_token_identity(run, P)
    run.min_instances('R-OWN-PDU', 5)
    run.min_instances('R-REPLY-ONCE', 5)
    run.assumptions = ASSUME_COMMON + ["the reply code table over the product of request features is NOT decided (a rule pinning the resp = 4.xx assignments would be a frozen "
                                       "fragment firing on behaviour-preserving edits); handler selection is NOT decided; of the suppression rules only the internal agreement of "
                                       "the decision table (flag <-> class, No-Response bit <-> class) is decided, not when suppression applies"]
    from rules import r_fixup as _rf
    _rf.run_pairing(run, P)              # the handler sees the request's payload: the in-place edit of a received Block2 option moves size and payload pointer together
    return run.finish(
        "At most one direct reply per request datagram, decided structurally: the response object of handle_request and the error replies of "
        "coap_dispatch / check_token_size are linear (created once, sent or deleted exactly once on every path, never used after being handed to "
        "coap_send_internal; R-OWN-PDU), and no path of coap_dispatch / handle_request passes two emission points other than the Empty-ACK-then-"
        "response pattern (R-REPLY-ONCE). Suppression table: every per-resource multicast suppression flag is paired with the response class its public "
        "name states, on the arm its polarity (ENA/DIS) demands, and leads to a drop; the flags are distinct bits; the No-Response bitmap is indexed "
        "with class-1 (R-SUPPRESS-TAB). A token is copied into a reply with the length of the bytes it is copied from (R-PAIR-ARGS, library-wide). The unknown-resource handler is selected only after the request path was compared with the well-known URI or the HANDLE_WELLKNOWN_CORE flag found set (resolution order). A static helper that the dispatcher calls in a condition and that emits a reply returns 0 on every path that passed the emission (helper verdict). A scan that is restarted inside its own loop sets its loop-carried locals back to their initial values (R-RESTART-STATE: last_number of the repeated-option check). The look-up key built from Uri-Path is injective (R-URI-CLASS); token identity is decided on actual_token (R-PAIR-ARGS).")


def c09(run):
    from rules import r_relonce
    P = run.prog('rel')
    r_relonce.run(run, P)
    from rules import r_cmpbound
    n = r_cmpbound.run(run, P, units=('coap_block.c',))
    run.require(n >= (15 if run.cfg == 'base' else 1), 'R-CMP-BOUND: fewer than 15 (base) / 1 (reduced configurations) key comparisons found in coap_block.c')
    from rules import r_bodydone
    r_bodydone.run(run, P)
    r_bodydone.run_token_restore(run, P)
    r_bodydone.run_crcv_complement(run, P)
    from rules import r_blkmore
    r_blkmore.run(run, P)
    r_blkmore.run_size_sync(run, P)
    r_blkmore.run_size_field(run, P)
    from rules import r_freshlabel
    r_freshlabel.run(run, P)
    from rules import r_elemshift
    from rules import r_misc12 as _m12
    if run.cfg == 'base' or P.has('handle_response'):   # a server-only configuration has no response side
        _m12.run_filter_field_recorded(run, P)   # a duplicated final response of a block-wise upload is filtered: at most one delivery per transfer
    run.require_count(_m12.run_null_not_wildcard(run, P) >= 1 or run.cfg != 'base', 'R-CMP-BOUND (absent component): no comparison of two optional key strings found in coap_block.c')
    r_elemshift.run(run, P)              # the sorted list of requested Q-Block2 numbers (and the received-block ranges) are edited by whole elements, in the direction the count says
    run.min_instances('R-RELEASE-ONCE', 5)
    run.assumptions = ASSUME_COMMON + ["body integrity, tiling, at-most-once delivery, token hiding and size fitting (arithmetic over runtime lengths and schedules) are NOT decided",
                                       "paths on which taking the global lock fails carry no obligations"]
    return run.finish(
        "Two clauses of C09 are decided. (1) transfers are told apart by their full keys: every byte comparison of a token, Request-Tag, query or path in "
        "coap_block.c is reached only with the compared length known to be within (for equality look-ups: equal to) the length of both operands, so a "
        "look-up cannot match a state whose key differs in length or was compared over the wrong length (R-CMP-BOUND). (2) 'the sender's release callback runs exactly once'. For every function taking a release_func parameter, on "
        "every path with release_func not known NULL the callback is called exactly once, handed to a callee with the same obligation, or stored "
        "into an lg_xmit that is linked into session->lg_xmit or deleted; coap_block_delete_lg_xmit calls it exactly once (R-RELEASE-ONCE). A reassembled request body is handed to the application from a block with the More bit set only on paths that found the record's no_more_seen flag set (R-BODY-COMPLETE; the Q-Block1 arm violates this and is a known finding). When a response handler expires a transfer record and hands the response up, the application's token is back in the received PDU (or was compared) on every path (application token clause). Every More bit computed for a body being sent equals `length - offset > bytes in this block` (R-BLK-MORE, enumerated), and in the function that selects its own block size the record's requested chunk_size is read only after the record was re-synchronised (one block size). A label counter (a field whose only writers are ++: the context's ETag counter) is stepped before its value is taken (R-FRESH-LABEL). The predicate that decides whether the receive record is made at send time is tested with the opposite polarity where the record is made late (record exists); the record's size field follows every change of the selected size (size field).")


def c20(run):
    from rules import r_outbound
    P = run.prog('rel')
    from rules import r_attrflags
    r_attrflags.run(run, P)
    from rules import r_blkmore
    r_blkmore.run(run, P)
    r_blkmore.run_size_field(run, P)
    r_outbound.run(run, P)
    from rules import r_cmpbound
    n = r_cmpbound.run(run, P, only={'match', 'coap_print_wellknown_lkd', 'coap_find_attr'})
    run.require(n >= 4, 'R-CMP-BOUND: fewer than 4 comparisons found in the query-filter code (match, coap_print_wellknown_lkd, coap_find_attr)')
    run.require_count(any(fn == 'coap_find_attr' for fn, _l in r_cmpbound.FINDERS) or run.cfg != 'base', 'R-CMP-BOUND (finder exact): the name comparison of coap_find_attr() was not judged')
    run.min_instances('R-OUT-BOUND', 10)
    run.assumptions = ASSUME_COMMON + ["window / total / truncation-flag exactness are NOT decided; of the filter semantics only 'a token is compared over its own length' is"]
    from rules import r_misc12
    r_misc12.run_unsigned_sub(run, P)
    r_misc12.run_literal_length(run, P)   # the listing's fixed pieces (";obs", ";osc", ...) are copied with their own length
    return run.finish(
        "Two clauses of C20 are decided: the listing is never written behind the window the caller supplied. Every store through the output cursor "
        "of coap_print_link / coap_print_wellknown_lkd happens on a path that holds cursor < end for the current cursor value, and the space handed "
        "down to coap_print_link is end - cursor of the current cursor (R-OUT-BOUND). Filter: every comparison of the query pattern with an attribute value, "
        "a space-separated token of it or a path is bounded by, and an exact match is decided against, the length of the string actually compared "
        "(R-CMP-BOUND). The copy decision for an attribute string is taken from the release flag of that string (R-ATTR-FLAGS). Every More bit libcoap computes for a body it sends (the block-wise GET of the listing included) equals `length - offset > bytes in this block` for all small lengths, offsets and block sizes (R-BLK-MORE).")


def c19(run):
    from rules import r_route
    P = run.prog('rel')
    r_route.run(run, P)
    r_route.run_psk(run, P)
    r_route.run_event_reset(run, P)
    r_route.run_sni_cache(run, P)
    r_route.run_establishers(run, P)
    from rules import r_expiry
    from rules import r_misc12 as _m12
    _m12.run_in_progress_not_failure(run, P)
    _m12.run_one_nack_per_disconnect(run, P)   # each queued Confirmable request is reported by exactly one NACK when the session goes
    _m12.run_sibling_deadline_tests(run, P)   # the (D)TLS retransmission timer is asked the same question for client and server sessions
    r_expiry.run(run, P)                 # half-open sessions are cleared down when they are old, not while their handshake is in progress
    from rules import r_delayq
    r_delayq.run(run, P)
    from rules import r_cnt
    r_cnt.run(run, P)                    # the flush of what was queued during the handshake (coap_session_connected) counts a Confirmable only on the arm that sends it
    run.min_instances('R-ROUTE', 8)
    run.assumptions = ASSUME_COMMON + ["credential acceptance happens inside GnuTLS (gnutls_handshake returns GNUTLS_E_SUCCESS only for credentials both sides accept)",
                                       "handshake schedules and NACK-once for queued requests are NOT decided"]
    return run.finish(
        "Routing/gating decided structurally: cleartext datagram processing (coap_handle_dgram) is entered only for UDP sessions or from the TLS "
        "back end inside 'established' with a positive record-read result; the established flag is set only on the GNUTLS_E_SUCCESS arm of "
        "gnutls_handshake's result and do_gnutls_handshake returns 1 only there; coap_session_connected and record I/O in the back end happen only "
        "after that; coap_send_pdu transmits only with session->state == ESTABLISHED (R-ROUTE). Credential verdict: in the PSK callbacks the result of "
        "the application's identity / hint validation callback is never replaced before it is acted on, and a success return is only reached with it "
        "known non-NULL (R-PSK-VERDICT). Where the identity / hint callback is known installed a success return is reached only after it was called; a node taken off a delay queue is deleted only after its PDU went to the transport or, being Confirmable, to coap_handle_nack (R-DELAYQ-NACK). Every back-end function that acts on session->dtls_event assigned the idle value to it earlier in the same call (stale event). The loop that sends what was queued during the handshake raises con_active only on the arm that is below NSTART and sends the message (R-CNT-CON a-d): a count raised for a message that stays queued blocks everything behind it for good. A cached server name is compared as a whole string (SNI cache).")


def c14(run):
    from rules import r_oscsplit
    P = run.prog('rel')
    r_oscsplit.run(run, P)
    from rules import r_oscrole
    r_oscrole.run(run, P)
    r_oscrole.run_assoc_source(run, P)
    from rules import r_misc12
    r_misc12.run_weak_lookup(run, P)
    r_misc12.run_rekey_complete(run, P)
    run.require_count(r_misc12.run_store_then_zeroed(run, P) >= 10 or run.cfg != 'base', 'R-LOST-STORE (stored, then zeroed): fewer than 10 zeroing memset() calls found')
    r_oscsplit.run_flag_reach(run, P)
    r_oscsplit.run_match_acc(run, P)
    r_oscsplit.run_outer_discard(run, P)
    from rules import r_saverestore
    r_saverestore.run(run, P)
    from rules import r_oscflags
    r_oscflags.run(run, P)
    from rules import r_osccbor
    r_osccbor.run(run, P)
    from rules import r_width
    # a 64-bit quantity (the sender sequence number = Partial IV) is not implicitly narrowed on its way into an encoder (expected count zero; fixtures/C14_width_call64.c)
    r_width.run_d(run, P, units=OSCORE_UNITS, widths=(8, 16, 32), min_src=64)
    run.min_instances('R-OSC-SPLIT', 7)
    run.assumptions = ASSUME_COMMON + ["byte equality with an independent RFC 8613 implementation (COSE object, AAD, nonce, AES-CCM output) and the round trip are NOT decided"]
    return run.finish(
        "Four clauses of C14 are decided: (1) outer/inner option split - case-label dataflow in coap_oscore_new_pdu_encrypted_lkd against RFC 8613 "
        "Figure 5: only class U (+Hop-Limit, E&U duplicates, the OSCORE option) options reach the returned outer PDU, everything the code does not "
        "name goes into the PDU handed to cose_encrypt0_set_plaintext; (2) tamper rejection - every accepting return of coap_oscore_decrypt_pdu is "
        "reached only with the result of cose_encrypt0_decrypt known > 0 (R-OSC-SPLIT); (3) the association that carries the request's AAD, "
        "nonce and partial IV to the response is filled, refreshed and read back field-for-field from the COSE object's fields of the same role "
        "(R-OSC-ROLE, roles computed from the two record types); (4) every local flag that steers an RFC 8613 step in the protect / unprotect "
        "functions can have its non-initial value where it is tested (reaching definitions). The option decoder examines all eight bits of the flag byte (R-OSC-FLAGS). The CBOR head writer produces the RFC 8949 form at the boundary values of every form (R-OSC-CBOR). While the iterator walks the received PDU every class E option number is on the discard arm (outer discard). With the exchange's association found, the recipient context is not taken from the session (association is the source). A field parked for the duration of a call is restored on every path that overwrote it (R-SAVE-RESTORE: session->oscore_encryption). In the OSCORE units no 64-bit variable or field (the sender sequence number that becomes the Partial IV and the nonce) is implicitly converted to a narrower parameter unless the interval analysis proves it fits (R-WIDTH d).")


def c02(run):
    from rules import r_range, r_shift, r_stream, r_parsegate, r_fixup
    P = run.prog('rel')
    r_range.run(run, P)
    r_range.run_cbor(run, P)
    r_range.run_cbor_reader(run, P)
    r_range.run_token_ext(run, P)
    from rules import r_dangfield
    r_dangfield.run(run, P)
    from rules import r_nullbelief
    _md = r_nullbelief.run(run, P)
    r_nullbelief.run_installed(run, P, _md)
    from rules import r_elemshift
    r_elemshift.run(run, P)
    from rules import r_misc12
    r_misc12.run_unsigned_sub(run, P)
    run.min_instances('R-NULL-BELIEF', 100)
    from rules import r_uaf
    r_uaf.run(run, P)                    # nothing is used after it was handed to a destructor or handed over with its release callback
    r_lenread_ = __import__('rules.r_lenread', fromlist=['x'])
    r_lenread_.run_pair_advance(run, P)
    from rules import r_codec
    r_codec.run_tokext(run, P)            # the stream reader frames messages with coap_pdu_parse_size(): its token-extension sums agree with the decoder's
    r_shift.run(run, P, units=('oscore.c', 'oscore_cbor.c'))
    r_stream.run_cap(run, P)
    r_stream.run_cap_own(run, P)
    r_stream.run_adv(run, P)
    r_stream.run_phase(run, P)
    r_stream.run_cursor(run, P)
    r_stream.run_needed_len(run, P)
    r_stream.run_unit_complete(run, P)
    r_stream.run_phase_local(run, P)
    r_stream.run_empty_unit(run, P)
    r_stream.run_buffered_examined(run, P)
    from rules import r_misc12
    r_misc12.run_terminator_last(run, P)
    r_misc12.run_short_unit_parsed(run, P)
    r_stream.run_buffer_param(run, P)
    from rules import r_width as _rw5
    _rw5.run_h(run, P)                   # the declared length of a stream message is computed without wrapping before it is compared with the limits
    r_parsegate.run(run, P)
    r_fixup.run_stale(run, P)
    r_parsegate.run_verdict(run, P)      # a rejection recorded for one option is not overwritten by the verdict on the next
    r_fixup.run_pairing(run, P)          # the in-place editors also run on RECEIVED requests (coap_option_check_critical() re-encodes Block2): payload pointer and size move together
    from rules import r_cmpbound
    r_cmpbound.run(run, P)
    run.min_instances('R-CMP-BOUND', 40)
    from rules import r_countcap
    r_countcap.run(run, P)
    from rules import r_stalecopy
    r_stalecopy.run(run, P)
    from rules import r_writecap
    r_writecap.run(run, P)
    from rules import r_sizefill
    r_sizefill.run(run, P)
    r_sizefill.run_separator(run, P)
    from rules import r_allocnull
    r_allocnull.run_nullret(run, P)
    from rules import r_pairargs
    r_pairargs.run(run, P)
    r_pairargs.run_token_identity(run, P)
    run.min_instances('R-RANGE', 12)
    run.min_instances('R-STREAM-CAP', 4)
    run.min_instances('R-PARSE-GATE', 15)
    run.min_instances('R-FIXUP', 25)
    run.assumptions = ASSUME_COMMON + [
        "absence of every out-of-bounds / use-after-free / UB for all byte strings and histories, termination and 'still answers afterwards' are NOT decided",
        "indices that are persistent reader state (hdr_ofs, http_ofs, data_ofs, partial_read) need a relational invariant and are declined (counted in stats)",
        "CBOR reader functions that only local files / configuration reach (persist loader, oscore conf) are not judged; the CBOR writers' assert-only capacity checks are not judged (the one wire-reachable overflow, compose_info, was repaired and is covered by replays/r10.c only)"]
    return run.finish(
        "Necessary conditions of memory safety on the receive surface, decided structurally: every index into a fixed-size array and every copy "
        "size into a fixed-size destination that derives from received bytes is proven in range by interval analysis, using the decoder's own "
        "option-length table (extracted from coap_pdu_parse_opt_base) as the bound; CBOR-declared sizes are compared with the remaining length; "
        "shift counts from the wire are below the operand width (R-RANGE); peer-declared message/frame lengths are capped and over-long input "
        "closes the session (R-STREAM-CAP); the protocol layer is only entered after successful parsing and every malformed-input condition "
        "leads to rejection (R-PARSE-GATE); no pointer into a PDU buffer is used after a call that may reallocate it, library-wide (R-FIXUP); every "
        "memcmp/strncmp over a length-delimited string is bounded by that string's own length (R-CMP-BOUND); a persistent element count that bounds a "
        "fixed-size array (block reassembly tracker) only grows behind one common capacity guard (R-COUNT-CAP); a local copy of an owned pointer "
        "field is not used after a call that is handed the owning object and may free that field (R-STALE-COPY). A function that was given the capacity of the buffer it fills compares against it before every variable-size copy (R-WRITE-CAP, NDEBUG build); the measuring and the filling pass of the two-pass string builders count and store the same number of bytes for every byte value (R-SIZE-FILL); a call that is handed X.length is handed X.s (R-PAIR-ARGS); the receive limit, once our own maximum is set, uses no peer-settable session field (R-STREAM-CAP own limit). Header fields (code, type) of a PDU parameter are wire-derived for R-RANGE, and the interval engine knows the unsigned range idiom (size_t)v - K1 < K; a stream position is never set to the size of the piece just stored and a needed header length is final when compared with what has arrived (R-STREAM-ADV). Separators of the query reconstruction are decided by segment count (R-SIZE-FILL separators); a maybe-NULL call result does not reach a dereferencing libc routine untested (R-NULL-RET); token[K] extension bytes are read only where the length is known > K (R-RANGE). After a record field was handed to a destructor every path assigns the field again or disposes of its holder (R-DANGLING-FIELD; array slots and locals declined, teardown helpers computed). Token identity is decided on actual_token, for every token length (R-PAIR-ARGS token identity).")


def c07(run):
    from rules import r_response
    P = run.prog('rel')
    r_response.run(run, P)
    from rules import r_width
    r_width.run_c(run, P)        # the 'none yet' sentinels of the duplicate filter (last_con_mid / last_ack_mid) stay outside the mid space
    r_response.run_async_pending(run, P)
    from rules import r_misc12 as _m12
    _m12.run_filter_field_recorded(run, P)
    _m12.run_rst_for_any_type(run, P)
    _m12.run_one_nack_per_disconnect(run, P)   # a request that ends with the session is reported by exactly one NACK
    _m12.run_counter_decrement(run, P)   # a wrapped in-flight count parks the request for ever: neither response nor NACK
    from rules import r_pairargs
    r_pairargs.run_token_identity(run, P)    # the request a response retires is found by its token, whatever the token's length
    from rules import r_ownnode
    r_ownnode.run_queue_key(run, P)      # an ACK / RST / duplicate retires only the request of its own session and message id: no other request loses its retransmission
    from rules import r_midzero
    r_midzero.run(run, P)                # the request that happens to get message id 0 is queued, retransmitted and concluded like any other ("never neither")
    from rules import r_cnt
    r_cnt.run_dequeue(run, P)            # a request retired by ACK / RST gives its NSTART slot back: otherwise every later request is parked for ever ("never neither")
    run.min_instances('R-RESP', 4)
    run.assumptions = ASSUME_COMMON + ["exactly-once conclusion over all patterns of loss / duplication / delay, the NACK side (coap_retransmit give-up, decided under C06) and the "
                                       "server's separate-response machinery are NOT decided; returns of handle_response() that never reach the handler (token-size / Q-Block "
                                       "probing, the Block2 path that acknowledges inside its callee, the failed re-lock exit) carry no obligation"]
    return run.finish(
        "Four clauses the statement of C07 names and that are visible in the shape of handle_response() on every path: the duplicate filter (handler never "
        "reached on the arm rcvd->mid == session->last_con_mid, that arm answers exactly once and returns, last_con_mid recorded on the other arm before the "
        "handler); exactly one ACK/RST for the received PDU after the handler, the Reset exactly on the FAIL-and-not-ACK arm, with the recorded verdict "
        "agreeing; a non-ACK response cancels the request's retransmission by token before the handler; a response consumed by sending the next Block1 is "
        "acknowledged (R-RESP). Library-wide, a named constant stored into a record field fits the field's type, so the "
        "COAP_INVALID_MID marker of the duplicate filter cannot wrap onto a legal message id (R-WIDTH c). An ACK / RST / duplicate retires only the queued request of its own session and message id (R-QUEUE-KEY). The pending test of handle_request() and the due test of the async scheduler partition the values of async->delay (async pending). No test on a message id separates 0 from the other ids, so the request that carries id 0 keeps its retransmission node (R-MID-ZERO).")


def c11(run):
    from rules import r_observe
    P = run.prog('rel')
    r_observe.run_replace(run, P)
    r_observe.run_con(run, P)
    r_observe.run_rst(run, P)
    r_observe.run_dirty(run, P)
    r_observe.run_delete_key(run, P)
    r_observe.run_delete_all(run, P)
    r_observe.run_fail_count(run, P)
    r_observe.run_counter_owner(run, P)
    from rules import r_misc12 as _m12b
    _m12b.run_copy_length_of_own_field(run, P)   # the Observe value of a block-wise request is kept with its own length
    from rules import r_cnt
    r_cnt.run_dequeue(run, P)            # a Reset (or ACK) that retires a Confirmable notification gives the NSTART slot back: otherwise every sixth notification is postponed for ever
    from rules import r_misc12
    run.require_count(r_misc12.run_request_flag(run, P) >= 1 or run.cfg != 'base', 'R-LOST-STORE (request flag): no test-and-clear of a request flag found (expected observe_pending)')
    r_misc12.run_error_class_agrees(run, P)   # the observer is deleted for exactly the error classes for which the reply loses its Observe option
    from rules import r_pairargs
    r_pairargs.run_token_identity(run, P)
    from rules import r_finderkey
    r_finderkey.run(run, P)
    run.assumptions = ASSUME_COMMON + ["freshness / ordering of Observe values, 'the last state is eventually notified', NSTART back-pressure and every deregistration route other than "
                                       "the Reset with a matching queue node are NOT decided; 'the session stays alive while it has observers' is the holder rule of C12"]
    return run.finish(
        "Four clauses the statement of C11 names, each visible in the shape of one function on every path: a new subscription is created only after the "
        "look-up by session and token came out NULL and a subscription found for the same request was deleted (R-OBS-REPLACE, coap_add_observer); a "
        "notification is made Non-confirmable only below COAP_OBS_MAX_NON consecutive ones (or NON_ALWAYS / the final 4.04) and the counter is reset / "
        "incremented to match the chosen type before the transmission (R-OBS-CON, coap_notify_observers); a Reset that matches a queued message reaches "
        "coap_cancel(), which removes the observer (R-OBS-RST, coap_dispatch); an observer skipped before its notification was handed to the transmit path is marked "
        "dirty so that the partially-dirty pass visits it again (R-OBS-DIRTY, coap_notify_observers). The subscription found by cache key is deleted by its own token (R-OBS-REPLACE). coap_delete_observer() is given a looked-at subscription's token only with a session known to be that subscription's (R-OBS-RST whose observer). The function that drops a lost session's observers visits every element of the list (delete all). A failed notification is counted before the count is compared with the limit (failure count); a per-session finder returns only elements of the session it was asked for (R-FINDER-KEY). Token identity is decided on actual_token, for every token length (R-PAIR-ARGS token identity).")


PROPS = {
    'C11': c11,
    'C07': c07,
    'C02': c02,
    'C14': c14,
    'C19': c19,
    'C20': c20,
    'C09': c09,
    'C10': c10,
    'C06': c06,
    'C08': c08,
    'C15': c15,
    'C16': c16,
    'C05': c05,
    'C01': c01,
    'C03': c03,
    'C04': c04,
    'C12': c12,
    'C18': c18,
    'C13': c13,
    'C17': c17,
}


# thorough tier: additional build configurations (core/facts.CFGS) in which the property's anchors exist.  Each costs one
# cmake configure + one extraction per mode.  Configurations that compile the property's code out are not listed.
VARIANTS = {
    'C11': ['noepoll', 'noqblock', 'nooscore', 'serveronly'],
    'C07': ['noepoll', 'noqblock', 'nooscore', 'clientonly'],
    'C01': ['smallstack', 'noqblock'],
    'C02': ['noepoll', 'noqblock', 'smallstack', 'serveronly'],
    'C03': ['smallstack', 'noqblock'],
    'C04': ['smallstack', 'noqblock'],
    'C05': ['noepoll', 'smallstack'],
    'C06': ['noepoll', 'noqblock', 'serveronly', 'clientonly'],
    'C08': ['noepoll', 'noqblock', 'nooscore', 'serveronly', 'clientonly'],
    'C09': ['noqblock', 'smallstack', 'serveronly'],
    'C10': ['noepoll', 'noqblock', 'nooscore', 'serveronly'],
    'C12': ['noepoll', 'noqblock', 'nooscore', 'serveronly'],
    'C13': ['noepoll', 'noqblock', 'reccheck', 'smallstack', 'nooscore', 'notcp'],
    'C14': ['smallstack', 'noqblock'],
    'C15': ['smallstack', 'noqblock'],
    'C16': ['smallstack', 'serveronly', 'clientonly'],
    'C17': ['noepoll', 'smallstack'],
    'C18': ['noepoll', 'noqblock', 'smallstack', 'nooscore', 'notcp', 'serveronly', 'clientonly'],
    'C19': ['noepoll', 'smallstack'],
    'C20': ['smallstack', 'serveronly'],
}
