// cfgx - fact extractor for the libcoap static checks.
//
// One libTooling action per translation unit.  For every function body it
// emits the clang CFG (built with setAllAlwaysAdd, so every sub-expression is
// a CFG element in evaluation order) as JSON: blocks, ordered successors,
// case labels with evaluated constants, noreturn marks, the branch condition
// (CFGBlock::getLastCondition) and an ordered list of "events" with a JSON
// expression tree.  Also: record layouts (field names/types/widths), global
// variables with initialisers (function-pointer tables) and, per function,
// where it is declared (to tell public headers from internal ones).
//
// Output: <outdir>/<basename of unit>.json   (outdir MUST be absolute: ClangTool
// chdir()s into the compile-command directory).
#include "clang/AST/ASTConsumer.h"
#include "clang/AST/Attr.h"
#include "clang/AST/ParentMap.h"
#include "clang/AST/RecursiveASTVisitor.h"
#include "clang/Analysis/CFG.h"
#include "clang/Frontend/CompilerInstance.h"
#include "clang/Frontend/FrontendAction.h"
#include "clang/Lex/Lexer.h"
#include "clang/Tooling/CommonOptionsParser.h"
#include "clang/Tooling/Tooling.h"
#include "llvm/Support/CommandLine.h"
#include "llvm/Support/FileSystem.h"
#include "llvm/Support/JSON.h"
#include "llvm/Support/raw_ostream.h"
using namespace clang;
using namespace clang::tooling;
namespace json = llvm::json;
static llvm::cl::OptionCategory Cat("cfgx");
static llvm::cl::opt<std::string> OutDir("o", llvm::cl::desc("output dir (absolute)"),
                                         llvm::cl::cat(Cat), llvm::cl::init("."));
static bool HadError = false;

static std::string recName(const RecordDecl *R) {
  if (!R) return "";
  if (!R->getName().empty()) return R->getNameAsString();
  if (auto *T = R->getTypedefNameForAnonDecl()) return T->getNameAsString();
  return "";
}

struct Ser {
  ASTContext &C;
  SourceManager &SM;
  Ser(ASTContext &c) : C(c), SM(c.getSourceManager()) {}
  std::string fileOf(SourceLocation L) {
    PresumedLoc P = SM.getPresumedLoc(SM.getExpansionLoc(L));
    if (P.isInvalid()) return "?";
    return std::string(P.getFilename());
  }
  std::string locstr(SourceLocation L) {
    PresumedLoc P = SM.getPresumedLoc(SM.getExpansionLoc(L));
    if (P.isInvalid()) return "?";
    return std::string(P.getFilename()) + ":" + std::to_string(P.getLine());
  }
  int col(SourceLocation L) {
    PresumedLoc P = SM.getPresumedLoc(SM.getExpansionLoc(L));
    return P.isInvalid() ? 0 : (int)P.getColumn();
  }
  json::Array macros(SourceLocation L) {
    json::Array A;
    int guard = 0;
    while (L.isMacroID() && guard++ < 16) {
      StringRef N = Lexer::getImmediateMacroName(L, SM, C.getLangOpts());
      A.push_back(N.str());
      L = SM.getImmediateMacroCallerLoc(L);
    }
    return A;
  }
  void tyinfo(json::Object &O, QualType T) {
    if (T.isNull()) return;
    QualType CT = T.getCanonicalType();
    if (CT->isIntegralOrEnumerationType()) {
      O["w"] = (int64_t)C.getIntWidth(CT);
      O["s"] = CT->isSignedIntegerOrEnumerationType() ? 1 : 0;
    } else if (CT->isPointerType()) {
      O["p"] = 1;
      QualType PT = CT->getPointeeType();
      O["pt"] = PT.getUnqualifiedType().getAsString();
      if (PT.isConstQualified()) O["pc"] = 1;
      if (PT->isFunctionType()) O["pf"] = 1;
      if (auto *RD = PT->getAsRecordDecl()) O["prec"] = recName(RD);
    } else if (auto *CAT = C.getAsConstantArrayType(CT)) {
      O["alen"] = (int64_t)CAT->getSize().getZExtValue();
      O["aet"] = CAT->getElementType().getUnqualifiedType().getAsString();
      QualType ET = CAT->getElementType();
      while (auto *C2 = C.getAsConstantArrayType(ET)) ET = C2->getElementType();
      if (auto *RD = ET->getAsRecordDecl()) O["arec"] = recName(RD);
    } else if (auto *RD = CT->getAsRecordDecl()) {
      O["rrec"] = recName(RD);
    }
    O["t"] = T.getAsString();
  }
  // parameter constness of a function(-pointer) type, for indirect calls
  void fnproto(json::Object &O, QualType T) {
    QualType CT = T.getCanonicalType();
    if (CT->isPointerType()) CT = CT->getPointeeType();
    if (auto *FP = CT->getAs<FunctionProtoType>()) {
      json::Array A;
      for (QualType P : FP->param_types()) {
        json::Object PO;
        tyinfo(PO, P);
        A.push_back(std::move(PO));
      }
      O["fpar"] = std::move(A);
    }
  }
  json::Value expr(const Stmt *S, int depth = 0) {
    json::Object O;
    if (!S) { O["k"] = "null"; return std::move(O); }
    if (depth > 60) { O["k"] = "deep"; return std::move(O); }
    const Expr *E = dyn_cast<Expr>(S);
    if (E) {
      if (auto *P = dyn_cast<ParenExpr>(E)) return expr(P->getSubExpr(), depth);
      if (auto *CE = dyn_cast<ConstantExpr>(E)) return expr(CE->getSubExpr(), depth);
      if (auto *OV = dyn_cast<OpaqueValueExpr>(E))
        if (OV->getSourceExpr()) return expr(OV->getSourceExpr(), depth);
      if (auto *ICE = dyn_cast<ImplicitCastExpr>(E)) {
        CastKind K = ICE->getCastKind();
        if (K != CK_IntegralCast && K != CK_IntegralToBoolean && K != CK_PointerToBoolean &&
            K != CK_NullToPointer)
          return expr(ICE->getSubExpr(), depth);
      }
      if (E->getType()->isIntegralOrEnumerationType() && !E->isValueDependent()) {
        Expr::EvalResult R;
        if (E->EvaluateAsInt(R, C, Expr::SE_NoSideEffects)) {
          O["k"] = "int";
          llvm::APSInt V = R.Val.getInt();
          if (V.isSigned()) O["v"] = (int64_t)V.getSExtValue();
          else if (V.getActiveBits() <= 63) O["v"] = (int64_t)V.getZExtValue();
          else O["v"] = llvm::toString(V, 10);
          tyinfo(O, E->getType());
          if (auto *DR = dyn_cast<DeclRefExpr>(E->IgnoreParenImpCasts()))
            if (isa<EnumConstantDecl>(DR->getDecl())) O["en"] = DR->getDecl()->getNameAsString();
          if (E->getBeginLoc().isMacroID())
            O["mn"] = Lexer::getImmediateMacroName(E->getBeginLoc(), SM, C.getLangOpts()).str();
          if (isa<UnaryExprOrTypeTraitExpr>(E->IgnoreParenImpCasts())) O["so"] = 1;
          return std::move(O);
        }
      }
      if (E->getType()->isPointerType() &&
          E->isNullPointerConstant(C, Expr::NPC_ValueDependentIsNotNull)) {
        O["k"] = "nullptr";
        return std::move(O);
      }
    }
    if (auto *DR = dyn_cast<DeclRefExpr>(S)) {
      const ValueDecl *D = DR->getDecl();
      if (isa<FunctionDecl>(D)) { O["k"] = "fn"; O["n"] = D->getNameAsString(); return std::move(O); }
      O["k"] = "var";
      O["n"] = D->getNameAsString();
      O["id"] = (int64_t)(D->getID());
      if (auto *VD = dyn_cast<VarDecl>(D)) {
        if (VD->hasGlobalStorage()) O["g"] = 1;
        if (auto *PD = dyn_cast<ParmVarDecl>(VD)) O["pi"] = (int64_t)PD->getFunctionScopeIndex();
      }
      tyinfo(O, DR->getType());
      return std::move(O);
    }
    if (auto *M = dyn_cast<MemberExpr>(S)) {
      O["k"] = "mem";
      O["f"] = M->getMemberDecl()->getNameAsString();
      O["arrow"] = M->isArrow() ? 1 : 0;
      O["b"] = expr(M->getBase(), depth + 1);
      QualType BT = M->getBase()->getType();
      if (M->isArrow() && !BT->getPointeeType().isNull()) BT = BT->getPointeeType();
      O["rec"] = recName(BT->getAsRecordDecl());
      if (auto *FD = dyn_cast<FieldDecl>(M->getMemberDecl()))
        if (FD->isBitField()) O["bf"] = (int64_t)FD->getBitWidthValue(C);
      tyinfo(O, M->getType());
      return std::move(O);
    }
    if (auto *U = dyn_cast<UnaryOperator>(S)) {
      O["k"] = "un";
      O["op"] = UnaryOperator::getOpcodeStr(U->getOpcode()).str();
      if (U->isPostfix()) O["post"] = 1;
      O["e"] = expr(U->getSubExpr(), depth + 1);
      tyinfo(O, U->getType());
      return std::move(O);
    }
    if (auto *B = dyn_cast<BinaryOperator>(S)) {
      O["k"] = B->isAssignmentOp() ? "asg" : "bin";
      O["op"] = B->getOpcodeStr().str();
      O["l"] = expr(B->getLHS(), depth + 1);
      O["r"] = expr(B->getRHS(), depth + 1);
      tyinfo(O, B->getType());
      if (auto *CA = dyn_cast<CompoundAssignOperator>(B)) {
        json::Object T;
        tyinfo(T, CA->getComputationResultType());
        O["ct"] = std::move(T);
      }
      return std::move(O);
    }
    if (auto *CE = dyn_cast<CallExpr>(S)) {
      O["k"] = "call";
      if (const FunctionDecl *FD = CE->getDirectCallee()) {
        O["fn"] = FD->getNameAsString();
        if (FD->isNoReturn() || FD->hasAttr<NoReturnAttr>()) O["noret"] = 1;
      } else {
        O["callee"] = expr(CE->getCallee(), depth + 1);
        fnproto(O, CE->getCallee()->getType());
      }
      json::Array A;
      for (const Expr *Arg : CE->arguments()) A.push_back(expr(Arg, depth + 1));
      O["a"] = std::move(A);
      tyinfo(O, CE->getType());
      return std::move(O);
    }
    if (auto *CS = dyn_cast<CastExpr>(S)) {
      O["k"] = "cast";
      O["ex"] = isa<ExplicitCastExpr>(CS) ? 1 : 0;
      O["ck"] = CS->getCastKindName();
      O["e"] = expr(CS->getSubExpr(), depth + 1);
      tyinfo(O, CS->getType());
      return std::move(O);
    }
    if (auto *AS = dyn_cast<ArraySubscriptExpr>(S)) {
      O["k"] = "sub";
      O["b"] = expr(AS->getBase(), depth + 1);
      O["i"] = expr(AS->getIdx(), depth + 1);
      QualType BT = AS->getBase()->IgnoreParenImpCasts()->getType();
      if (auto *CAT = C.getAsConstantArrayType(BT)) O["alen"] = (int64_t)CAT->getSize().getZExtValue();
      tyinfo(O, AS->getType());
      return std::move(O);
    }
    if (auto *CO = dyn_cast<AbstractConditionalOperator>(S)) {
      O["k"] = "cond";
      O["c"] = expr(CO->getCond(), depth + 1);
      O["x"] = expr(CO->getTrueExpr(), depth + 1);
      O["y"] = expr(CO->getFalseExpr(), depth + 1);
      tyinfo(O, CO->getType());
      return std::move(O);
    }
    if (auto *SL = dyn_cast<StringLiteral>(S)) {
      O["k"] = "str";
      if (SL->isAscii() || SL->isUTF8()) O["v"] = SL->getString().str();
      return std::move(O);
    }
    if (auto *CL = dyn_cast<CharacterLiteral>(S)) {
      O["k"] = "int";
      O["v"] = (int64_t)CL->getValue();
      tyinfo(O, CL->getType());
      return std::move(O);
    }
    if (auto *R = dyn_cast<ReturnStmt>(S)) {
      O["k"] = "ret";
      if (R->getRetValue()) O["e"] = expr(R->getRetValue(), depth + 1);
      return std::move(O);
    }
    if (auto *DS = dyn_cast<DeclStmt>(S)) {
      O["k"] = "decl";
      json::Array A;
      for (const Decl *D : DS->decls())
        if (auto *VD = dyn_cast<VarDecl>(D)) {
          json::Object V;
          V["n"] = VD->getNameAsString();
          V["id"] = (int64_t)VD->getID();
          tyinfo(V, VD->getType());
          if (VD->isStaticLocal()) V["static"] = 1;
          if (VD->hasInit()) V["init"] = expr(VD->getInit(), depth + 1);
          A.push_back(std::move(V));
        }
      O["d"] = std::move(A);
      return std::move(O);
    }
    if (auto *IL = dyn_cast<InitListExpr>(S)) {
      O["k"] = "initlist";
      json::Array A;
      for (const Expr *I : IL->inits()) A.push_back(expr(I, depth + 1));
      O["a"] = std::move(A);
      return std::move(O);
    }
    if (auto *CLE = dyn_cast<CompoundLiteralExpr>(S)) {
      O["k"] = "complit";
      O["e"] = expr(CLE->getInitializer(), depth + 1);
      return std::move(O);
    }
    if (isa<StmtExpr>(S)) { O["k"] = "stmtexpr"; if (E) tyinfo(O, E->getType()); return std::move(O); }
    if (isa<UnaryExprOrTypeTraitExpr>(S)) { O["k"] = "sizeof"; return std::move(O); }
    O["k"] = "other";
    O["c"] = S->getStmtClassName();
    if (E) tyinfo(O, E->getType());
    return std::move(O);
  }
};

static bool interesting(const Stmt *S) {
  if (isa<CallExpr>(S) || isa<ReturnStmt>(S) || isa<DeclStmt>(S)) return true;
  if (auto *B = dyn_cast<BinaryOperator>(S)) return B->isAssignmentOp();
  if (auto *U = dyn_cast<UnaryOperator>(S))
    return U->isIncrementDecrementOp() || U->getOpcode() == UO_Deref;
  if (auto *M = dyn_cast<MemberExpr>(S)) return M->isArrow();
  if (isa<ArraySubscriptExpr>(S)) return true;
  return false;
}

struct V : RecursiveASTVisitor<V> {
  ASTContext &C;
  Ser S;
  json::Array Funcs, Globals;
  json::Object Records, Decls;
  V(ASTContext &c) : C(c), S(c) {}
  bool VisitRecordDecl(RecordDecl *R) {
    if (!R->isCompleteDefinition()) return true;
    std::string N = recName(R);
    if (N.empty()) return true;
    if (Records.get(N)) return true;
    json::Array F;
    for (auto *FD : R->fields()) {
      json::Object O;
      O["n"] = FD->getNameAsString();
      S.tyinfo(O, FD->getType());
      if (FD->isBitField()) O["bf"] = (int64_t)FD->getBitWidthValue(C);
      F.push_back(std::move(O));
    }
    Records[N] = std::move(F);
    return true;
  }
  bool VisitVarDecl(VarDecl *VD) {
    if (!VD->hasGlobalStorage() || VD->isStaticLocal() || !VD->hasInit()) return true;
    if (!VD->isThisDeclarationADefinition()) return true;
    json::Object O;
    O["n"] = VD->getNameAsString();
    O["loc"] = S.locstr(VD->getLocation());
    S.tyinfo(O, VD->getType());
    O["init"] = S.expr(VD->getInit());
    Globals.push_back(std::move(O));
    return true;
  }
  bool VisitFunctionDecl(FunctionDecl *F) {
    // where is it declared (all redeclarations) - to classify public/internal headers
    {
      std::string N = F->getNameAsString();
      if (!Decls.get(N)) {
        json::Array A;
        for (auto *RD : F->redecls()) A.push_back(S.fileOf(RD->getLocation()));
        Decls[N] = std::move(A);
      }
    }
    if (!F->doesThisDeclarationHaveABody()) return true;
    auto &SM = C.getSourceManager();
    json::Object FO;
    FO["name"] = F->getNameAsString();
    FO["loc"] = S.locstr(F->getLocation());
    FO["main"] = SM.isInMainFile(SM.getExpansionLoc(F->getLocation())) ? 1 : 0;
    FO["static"] = (F->getStorageClass() == SC_Static) ? 1 : 0;
    FO["inline"] = F->isInlineSpecified() ? 1 : 0;
    bool dep = false;
    for (auto *A : F->specific_attrs<DeprecatedAttr>())
      if (!A->isInherited()) dep = true;
    FO["api"] = dep ? 1 : 0;
    {
      json::Object T;
      S.tyinfo(T, F->getReturnType());
      FO["ret"] = std::move(T);
    }
    json::Array P;
    for (auto *PD : F->parameters()) {
      json::Object O;
      O["n"] = PD->getNameAsString();
      O["id"] = (int64_t)PD->getID();
      S.tyinfo(O, PD->getType());
      P.push_back(std::move(O));
    }
    FO["params"] = std::move(P);
    CFG::BuildOptions BO;
    BO.setAllAlwaysAdd();
    auto cfg = CFG::buildCFG(F, F->getBody(), &C, BO);
    if (!cfg) {
      FO["nocfg"] = 1;
      Funcs.push_back(std::move(FO));
      return true;
    }
    ParentMap PM(F->getBody());
    FO["entry"] = (int64_t)cfg->getEntry().getBlockID();
    FO["exit"] = (int64_t)cfg->getExit().getBlockID();
    json::Array Blocks;
    for (CFGBlock *B : *cfg) {
      json::Object BOj;
      BOj["id"] = (int64_t)B->getBlockID();
      json::Array Su;
      for (auto I = B->succ_begin(); I != B->succ_end(); ++I) {
        CFGBlock *T = I->getReachableBlock();
        if (!T) T = I->getPossiblyUnreachableBlock();
        Su.push_back(T ? json::Value((int64_t)T->getBlockID()) : json::Value(nullptr));
      }
      BOj["succ"] = std::move(Su);
      if (B->hasNoReturnElement()) BOj["noret"] = 1;
      if (const Stmt *L = B->getLabel()) {
        json::Object LO;
        if (auto *CS = dyn_cast<CaseStmt>(L)) {
          LO["k"] = "case";
          LO["lo"] = (int64_t)CS->getLHS()->EvaluateKnownConstInt(C).getExtValue();
          if (CS->getRHS()) LO["hi"] = (int64_t)CS->getRHS()->EvaluateKnownConstInt(C).getExtValue();
          if (auto *DR = dyn_cast<DeclRefExpr>(CS->getLHS()->IgnoreParenImpCasts()))
            LO["en"] = DR->getDecl()->getNameAsString();
          else if (CS->getLHS()->getBeginLoc().isMacroID())
            LO["mn"] = Lexer::getImmediateMacroName(CS->getLHS()->getBeginLoc(), SM, C.getLangOpts()).str();
        } else if (isa<DefaultStmt>(L)) LO["k"] = "default";
        else if (auto *LS = dyn_cast<LabelStmt>(L)) { LO["k"] = "label"; LO["n"] = LS->getName(); }
        LO["loc"] = S.locstr(L->getBeginLoc());
        BOj["label"] = std::move(LO);
      }
      json::Array El;
      for (auto &E : *B)
        if (auto CS = E.getAs<CFGStmt>()) {
          const Stmt *St = CS->getStmt();
          if (!interesting(St)) continue;
          json::Object EO;
          EO["loc"] = S.locstr(St->getBeginLoc());
          EO["col"] = S.col(St->getBeginLoc());
          json::Array M = S.macros(St->getBeginLoc());
          if (!M.empty()) EO["mac"] = std::move(M);
          // statement-level expression? (parent is not an expression; a (void) cast counts)
          if (isa<Expr>(St)) {
            const Stmt *Pa = PM.getParentIgnoreParens(St);
            while (Pa && isa<CastExpr>(Pa) && cast<CastExpr>(Pa)->getCastKind() == CK_ToVoid)
              Pa = PM.getParentIgnoreParens(Pa);
            if (!Pa || !isa<Expr>(Pa)) {
              // a condition of if/while/for/switch is not statement-level
              bool isCond = false;
              if (Pa) {
                if (auto *IS = dyn_cast<IfStmt>(Pa)) isCond = IS->getCond() == St;
                else if (auto *WS = dyn_cast<WhileStmt>(Pa)) isCond = WS->getCond() == St;
                else if (auto *DS = dyn_cast<DoStmt>(Pa)) isCond = DS->getCond() == St;
                else if (auto *FS = dyn_cast<ForStmt>(Pa)) isCond = FS->getCond() == St;
                else if (auto *SS = dyn_cast<SwitchStmt>(Pa)) isCond = SS->getCond() == St;
                else if (isa<ReturnStmt>(Pa) || isa<DeclStmt>(Pa)) isCond = true;
              }
              if (!isCond) EO["top"] = 1;
            }
          }
          EO["e"] = S.expr(St);
          El.push_back(std::move(EO));
        }
      BOj["elems"] = std::move(El);
      if (const Stmt *T = B->getTerminatorStmt()) {
        json::Object TO;
        TO["c"] = T->getStmtClassName();
        TO["loc"] = S.locstr(T->getBeginLoc());
        {
          const Stmt *Cd = B->getLastCondition();
          if (!Cd) Cd = B->getTerminatorCondition();
          if (Cd) TO["cond"] = S.expr(Cd);
        }
        if (auto *BOp = dyn_cast<BinaryOperator>(T)) TO["op"] = BOp->getOpcodeStr().str();
        BOj["term"] = std::move(TO);
      }
      Blocks.push_back(std::move(BOj));
    }
    FO["blocks"] = std::move(Blocks);
    Funcs.push_back(std::move(FO));
    return true;
  }
};

struct Cons : ASTConsumer {
  std::string In;
  CompilerInstance &CI;
  Cons(CompilerInstance &ci, StringRef in) : In(in.str()), CI(ci) {}
  void HandleTranslationUnit(ASTContext &C) override {
    if (CI.getDiagnostics().hasErrorOccurred()) HadError = true;
    V v(C);
    v.TraverseDecl(C.getTranslationUnitDecl());
    json::Object Root;
    Root["file"] = In;
    Root["errors"] = CI.getDiagnostics().hasErrorOccurred() ? 1 : 0;
    Root["functions"] = std::move(v.Funcs);
    Root["records"] = std::move(v.Records);
    Root["globals"] = std::move(v.Globals);
    Root["decls"] = std::move(v.Decls);
    std::string base = In;
    auto p = base.find_last_of('/');
    if (p != std::string::npos) base = base.substr(p + 1);
    std::error_code EC;
    llvm::raw_fd_ostream OS(OutDir + "/" + base + ".json", EC);
    if (EC) { llvm::errs() << "cfgx: cannot write " << OutDir << "/" << base << ".json\n"; HadError = true; return; }
    OS << json::Value(std::move(Root));
  }
};
struct Act : ASTFrontendAction {
  std::unique_ptr<ASTConsumer> CreateASTConsumer(CompilerInstance &CI, StringRef In) override {
    return std::make_unique<Cons>(CI, In);
  }
};
int main(int argc, const char **argv) {
  auto P = CommonOptionsParser::create(argc, argv, Cat);
  if (!P) { llvm::errs() << P.takeError(); return 2; }
  ClangTool T(P->getCompilations(), P->getSourcePathList());
  int r = T.run(newFrontendActionFactory<Act>().get());
  return (r || HadError) ? 1 : 0;
}
