// throw-away prototype of the fact extractor (exploration only)
#include "clang/AST/ASTConsumer.h"
#include "clang/AST/Attr.h"
#include "clang/AST/RecursiveASTVisitor.h"
#include "clang/AST/RecordLayout.h"
#include "clang/Analysis/CFG.h"
#include "clang/Frontend/CompilerInstance.h"
#include "clang/Frontend/FrontendAction.h"
#include "clang/Lex/Lexer.h"
#include "clang/Tooling/CommonOptionsParser.h"
#include "clang/Tooling/Tooling.h"
#include "llvm/Support/CommandLine.h"
#include "llvm/Support/JSON.h"
#include "llvm/Support/raw_ostream.h"
#include "llvm/Support/FileSystem.h"
using namespace clang;
using namespace clang::tooling;
namespace json = llvm::json;
static llvm::cl::OptionCategory Cat("cfgx");
static llvm::cl::opt<std::string> OutDir("o", llvm::cl::desc("output dir"), llvm::cl::cat(Cat), llvm::cl::init("."));

struct Ser {
  ASTContext &C; SourceManager &SM;
  Ser(ASTContext &c) : C(c), SM(c.getSourceManager()) {}
  std::string locstr(SourceLocation L) {
    SourceLocation E = SM.getExpansionLoc(L);
    PresumedLoc P = SM.getPresumedLoc(E);
    if (P.isInvalid()) return "?";
    return std::string(P.getFilename()) + ":" + std::to_string(P.getLine());
  }
  json::Array macros(SourceLocation L) {
    json::Array A; int guard = 0;
    while (L.isMacroID() && guard++ < 16) {
      StringRef N = Lexer::getImmediateMacroName(L, SM, C.getLangOpts());
      A.push_back(N.str());
      L = SM.getImmediateMacroCallerLoc(L);
    }
    return A;
  }
  void tyinfo(json::Object &O, QualType T) {
    if (T.isNull()) return;
    QualType CT = T.getCanonicalType();
    if (CT->isIntegralOrEnumerationType()) {
      O["w"] = (int64_t)C.getIntWidth(CT);
      O["s"] = CT->isSignedIntegerOrEnumerationType() ? 1 : 0;
    } else if (CT->isPointerType()) {
      O["p"] = 1;
      O["pt"] = CT->getPointeeType().getUnqualifiedType().getAsString();
      if (CT->getPointeeType().isConstQualified()) O["pc"] = 1;
    }
    O["t"] = T.getAsString();
  }
  json::Value expr(const Stmt *S, int depth = 0) {
    json::Object O;
    if (!S) { O["k"] = "null"; return std::move(O); }
    if (depth > 40) { O["k"] = "deep"; return std::move(O); }
    const Expr *E = dyn_cast<Expr>(S);
    if (E) {
      // strip parens / no-op casts
      if (auto *P = dyn_cast<ParenExpr>(E)) return expr(P->getSubExpr(), depth);
      if (auto *CE = dyn_cast<ConstantExpr>(E)) return expr(CE->getSubExpr(), depth);
      if (auto *ICE = dyn_cast<ImplicitCastExpr>(E)) {
        CastKind K = ICE->getCastKind();
        if (K != CK_IntegralCast && K != CK_IntegralToBoolean && K != CK_PointerToBoolean && K != CK_NullToPointer)
          return expr(ICE->getSubExpr(), depth);
      }
      // constant folding
      if (E->getType()->isIntegralOrEnumerationType() && !E->isValueDependent()) {
        Expr::EvalResult R;
        if (E->EvaluateAsInt(R, C, Expr::SE_NoSideEffects)) {
          O["k"] = "int";
          llvm::APSInt V = R.Val.getInt();
          if (V.isSigned()) O["v"] = (int64_t)V.getSExtValue();
          else if (V.getActiveBits() <= 63) O["v"] = (int64_t)V.getZExtValue();
          else O["v"] = llvm::toString(V, 10);
          tyinfo(O, E->getType());
          if (auto *DR = dyn_cast<DeclRefExpr>(E->IgnoreParenImpCasts()))
            if (isa<EnumConstantDecl>(DR->getDecl())) O["en"] = DR->getDecl()->getNameAsString();
          return std::move(O);
        }
      }
      if (E->isNullPointerConstant(C, Expr::NPC_ValueDependentIsNotNull)) { O["k"] = "nullptr"; return std::move(O); }
    }
    if (auto *DR = dyn_cast<DeclRefExpr>(S)) {
      const ValueDecl *D = DR->getDecl();
      if (isa<FunctionDecl>(D)) { O["k"] = "fn"; O["n"] = D->getNameAsString(); return std::move(O); }
      O["k"] = "var"; O["n"] = D->getNameAsString();
      O["id"] = (int64_t)(D->getID());
      if (auto *VD = dyn_cast<VarDecl>(D)) {
        if (VD->hasGlobalStorage()) O["g"] = 1;
        if (auto *PD = dyn_cast<ParmVarDecl>(VD)) O["pi"] = (int64_t)PD->getFunctionScopeIndex();
      }
      tyinfo(O, DR->getType());
      return std::move(O);
    }
    if (auto *M = dyn_cast<MemberExpr>(S)) {
      O["k"] = "mem"; O["f"] = M->getMemberDecl()->getNameAsString(); O["arrow"] = M->isArrow() ? 1 : 0;
      O["b"] = expr(M->getBase(), depth + 1);
      QualType BT = M->getBase()->getType(); if (M->isArrow() && !BT->getPointeeType().isNull()) BT = BT->getPointeeType();
      O["rec"] = BT.getUnqualifiedType().getAsString();
      tyinfo(O, M->getType());
      return std::move(O);
    }
    if (auto *U = dyn_cast<UnaryOperator>(S)) {
      O["k"] = "un"; O["op"] = UnaryOperator::getOpcodeStr(U->getOpcode()).str();
      if (U->isPostfix()) O["post"] = 1;
      O["e"] = expr(U->getSubExpr(), depth + 1); tyinfo(O, U->getType()); return std::move(O);
    }
    if (auto *B = dyn_cast<BinaryOperator>(S)) {
      O["k"] = B->isAssignmentOp() ? "asg" : "bin"; O["op"] = B->getOpcodeStr().str();
      O["l"] = expr(B->getLHS(), depth + 1); O["r"] = expr(B->getRHS(), depth + 1);
      tyinfo(O, B->getType());
      if (auto *CA = dyn_cast<CompoundAssignOperator>(B)) { json::Object T; tyinfo(T, CA->getComputationResultType()); O["ct"] = std::move(T); }
      return std::move(O);
    }
    if (auto *CE = dyn_cast<CallExpr>(S)) {
      O["k"] = "call";
      if (const FunctionDecl *FD = CE->getDirectCallee()) O["fn"] = FD->getNameAsString();
      else O["callee"] = expr(CE->getCallee(), depth + 1);
      json::Array A; for (const Expr *Arg : CE->arguments()) A.push_back(expr(Arg, depth + 1));
      O["a"] = std::move(A); tyinfo(O, CE->getType()); return std::move(O);
    }
    if (auto *CS = dyn_cast<CastExpr>(S)) {
      O["k"] = "cast"; O["ex"] = isa<ExplicitCastExpr>(CS) ? 1 : 0; O["ck"] = CS->getCastKindName();
      O["e"] = expr(CS->getSubExpr(), depth + 1); tyinfo(O, CS->getType()); return std::move(O);
    }
    if (auto *AS = dyn_cast<ArraySubscriptExpr>(S)) {
      O["k"] = "sub"; O["b"] = expr(AS->getBase(), depth + 1); O["i"] = expr(AS->getIdx(), depth + 1);
      QualType BT = AS->getBase()->IgnoreParenImpCasts()->getType();
      if (auto *CAT = C.getAsConstantArrayType(BT)) O["alen"] = (int64_t)CAT->getSize().getZExtValue();
      tyinfo(O, AS->getType()); return std::move(O);
    }
    if (auto *CO = dyn_cast<ConditionalOperator>(S)) {
      O["k"] = "cond"; O["c"] = expr(CO->getCond(), depth + 1); O["x"] = expr(CO->getTrueExpr(), depth + 1); O["y"] = expr(CO->getFalseExpr(), depth + 1);
      tyinfo(O, CO->getType()); return std::move(O);
    }
    if (auto *SL = dyn_cast<StringLiteral>(S)) { O["k"] = "str"; if (SL->isAscii() || SL->isUTF8()) O["v"] = SL->getString().str(); return std::move(O); }
    if (auto *R = dyn_cast<ReturnStmt>(S)) { O["k"] = "ret"; if (R->getRetValue()) O["e"] = expr(R->getRetValue(), depth + 1); return std::move(O); }
    if (auto *DS = dyn_cast<DeclStmt>(S)) {
      O["k"] = "decl"; json::Array A;
      for (const Decl *D : DS->decls()) if (auto *VD = dyn_cast<VarDecl>(D)) {
        json::Object V; V["n"] = VD->getNameAsString(); V["id"] = (int64_t)VD->getID(); tyinfo(V, VD->getType());
        if (VD->isStaticLocal()) V["static"] = 1;
        if (VD->hasInit()) V["init"] = expr(VD->getInit(), depth + 1);
        A.push_back(std::move(V)); }
      O["d"] = std::move(A); return std::move(O);
    }
    if (auto *IL = dyn_cast<InitListExpr>(S)) { O["k"] = "initlist"; json::Array A; for (const Expr *I : IL->inits()) A.push_back(expr(I, depth + 1)); O["a"] = std::move(A); return std::move(O); }
    if (auto *SE = dyn_cast<StmtExpr>(S)) { O["k"] = "stmtexpr"; return std::move(O); }
    if (auto *UE = dyn_cast<UnaryExprOrTypeTraitExpr>(S)) { O["k"] = "sizeof"; return std::move(O); }
    O["k"] = "other"; O["c"] = S->getStmtClassName();
    if (E) tyinfo(O, E->getType());
    return std::move(O);
  }
};

static bool interesting(const Stmt *S) {
  if (isa<CallExpr>(S) || isa<ReturnStmt>(S) || isa<DeclStmt>(S)) return true;
  if (auto *B = dyn_cast<BinaryOperator>(S)) return B->isAssignmentOp();
  if (auto *U = dyn_cast<UnaryOperator>(S)) return U->isIncrementDecrementOp() || U->getOpcode() == UO_Deref;
  if (auto *M = dyn_cast<MemberExpr>(S)) return M->isArrow();
  if (isa<ArraySubscriptExpr>(S)) return true;
  return false;
}

struct V : RecursiveASTVisitor<V> {
  ASTContext &C; Ser S; json::Array Funcs; json::Object Records;
  V(ASTContext &c) : C(c), S(c) {}
  bool VisitRecordDecl(RecordDecl *R) {
    if (!R->isCompleteDefinition() || R->getName().empty()) return true;
    std::string N = R->getNameAsString();
    if (Records.get(N)) return true;
    json::Array F;
    for (auto *FD : R->fields()) { json::Object O; O["n"] = FD->getNameAsString(); S.tyinfo(O, FD->getType()); if (FD->isBitField()) O["bf"] = (int64_t)FD->getBitWidthValue(C); F.push_back(std::move(O)); }
    Records[N] = std::move(F);
    return true;
  }
  bool VisitFunctionDecl(FunctionDecl *F) {
    if (!F->doesThisDeclarationHaveABody()) return true;
    auto &SM = C.getSourceManager();
    json::Object FO;
    FO["name"] = F->getNameAsString(); FO["loc"] = S.locstr(F->getLocation());
    FO["main"] = SM.isInMainFile(SM.getExpansionLoc(F->getLocation())) ? 1 : 0;
    FO["static"] = (F->getStorageClass() == SC_Static || F->isInlineSpecified()) ? 1 : 0;
    // attribute may be on any redeclaration
    bool dep = false; for (auto *A : F->specific_attrs<DeprecatedAttr>()) if (!A->isInherited()) dep = true;
    FO["api"] = dep ? 1 : 0;
    { json::Object T; S.tyinfo(T, F->getReturnType()); FO["ret"] = std::move(T); }
    json::Array P; for (auto *PD : F->parameters()) { json::Object O; O["n"] = PD->getNameAsString(); O["id"] = (int64_t)PD->getID(); S.tyinfo(O, PD->getType()); P.push_back(std::move(O)); }
    FO["params"] = std::move(P);
    CFG::BuildOptions BO; BO.setAllAlwaysAdd();
    auto cfg = CFG::buildCFG(F, F->getBody(), &C, BO);
    if (!cfg) { FO["nocfg"] = 1; Funcs.push_back(std::move(FO)); return true; }
    FO["entry"] = (int64_t)cfg->getEntry().getBlockID(); FO["exit"] = (int64_t)cfg->getExit().getBlockID();
    json::Array Blocks;
    for (CFGBlock *B : *cfg) {
      json::Object BOj; BOj["id"] = (int64_t)B->getBlockID();
      json::Array Su; for (auto I = B->succ_begin(); I != B->succ_end(); ++I) { CFGBlock *T = I->getReachableBlock(); if (!T) T = I->getPossiblyUnreachableBlock(); Su.push_back(T ? json::Value((int64_t)T->getBlockID()) : json::Value(nullptr)); }
      BOj["succ"] = std::move(Su);
      if (B->hasNoReturnElement()) BOj["noret"] = 1;
      if (const Stmt *L = B->getLabel()) {
        json::Object LO;
        if (auto *CS = dyn_cast<CaseStmt>(L)) { LO["k"] = "case"; LO["lo"] = (int64_t)CS->getLHS()->EvaluateKnownConstInt(C).getExtValue(); if (CS->getRHS()) LO["hi"] = (int64_t)CS->getRHS()->EvaluateKnownConstInt(C).getExtValue(); }
        else if (isa<DefaultStmt>(L)) LO["k"] = "default";
        else if (auto *LS = dyn_cast<LabelStmt>(L)) { LO["k"] = "label"; LO["n"] = LS->getName(); }
        BOj["label"] = std::move(LO);
      }
      json::Array El;
      for (auto &E : *B) if (auto CS = E.getAs<CFGStmt>()) {
        const Stmt *St = CS->getStmt();
        if (!interesting(St)) continue;
        json::Object EO; EO["loc"] = S.locstr(St->getBeginLoc());
        json::Array M = S.macros(St->getBeginLoc()); if (!M.empty()) EO["mac"] = std::move(M);
        EO["e"] = S.expr(St);
        El.push_back(std::move(EO));
      }
      BOj["elems"] = std::move(El);
      if (const Stmt *T = B->getTerminatorStmt()) {
        json::Object TO; TO["c"] = T->getStmtClassName(); TO["loc"] = S.locstr(T->getBeginLoc());
        { const Stmt *Cd = B->getLastCondition(); if (!Cd) Cd = B->getTerminatorCondition(); if (Cd) TO["cond"] = S.expr(Cd); }
        if (auto *BOp = dyn_cast<BinaryOperator>(T)) TO["op"] = BOp->getOpcodeStr().str();
        BOj["term"] = std::move(TO);
      }
      Blocks.push_back(std::move(BOj));
    }
    FO["blocks"] = std::move(Blocks);
    Funcs.push_back(std::move(FO));
    return true;
  }
};
struct Cons : ASTConsumer {
  std::string In; Cons(StringRef in) : In(in.str()) {}
  void HandleTranslationUnit(ASTContext &C) override {
    V v(C); v.TraverseDecl(C.getTranslationUnitDecl());
    json::Object Root; Root["file"] = In; Root["functions"] = std::move(v.Funcs); Root["records"] = std::move(v.Records);
    std::string base = In; auto p = base.find_last_of('/'); if (p != std::string::npos) base = base.substr(p + 1);
    std::error_code EC; llvm::raw_fd_ostream OS(OutDir + "/" + base + ".json", EC);
    OS << json::Value(std::move(Root)); }
};
struct Act : ASTFrontendAction { std::unique_ptr<ASTConsumer> CreateASTConsumer(CompilerInstance &, StringRef In) override { return std::make_unique<Cons>(In); } };
int main(int argc, const char **argv) {
  auto P = CommonOptionsParser::create(argc, argv, Cat); if (!P) { llvm::errs() << P.takeError(); return 1; }
  ClangTool T(P->getCompilations(), P->getSourcePathList()); return T.run(newFrontendActionFactory<Act>().get());
}
