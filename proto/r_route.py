import sys; sys.path.insert(0, '/tmp/exp/proto')
from core import *
P = Prog('/tmp/exp/proto/facts_asbuilt'); F = P.funcs
def facts_at_calls(fname, callee, want_aps):
    f=F[fname]; out=[]
    def is_rule_event(ev):
        t=ev['e']; return t.get('k')=='call' and (t.get('fn')==callee or (callee is None and t.get('fn') is None))
    keys,R=relevance(f,is_rule_event)
    def on_event(ev,env,b):
        t=ev['e']
        if is_rule_event(ev):
            out.append((ev['loc'].split('/')[-1], {k:v for k,v in env.ints.items()}, dict(env.ret), {k:v for k,v in env.null.items()}))
            return None
        return [apply_assign_kills(ev,env,R)]
    solve(f,Env(),on_event,lambda e:None,keys)
    return out
print('callers of coap_handle_dgram:',[n for n,f in F.items() if any(ev['e'].get('k')=='call' and ev['e'].get('fn')=='coap_handle_dgram' for b in f['blocks'] for ev in b['elems'])])
for r in facts_at_calls('coap_handle_dgram_for_proto','coap_handle_dgram',None): print('  dgram_for_proto:',r[0],r[1])
for r in facts_at_calls('coap_dtls_receive','coap_handle_dgram',None): print('  dtls_receive:',r[0],r[1])
for r in facts_at_calls('coap_dtls_receive','coap_session_connected',None): print('  dtls_receive connected:',r[0],r[1],r[2])
for r in facts_at_calls('coap_send_pdu','coap_session_send_pdu',None): print('  send_pdu write:',r[0],r[1])
for r in facts_at_calls('coap_handle_dgram','coap_dispatch',None): print('  handle_dgram dispatch:',r[0],r[2])
# established writers
for f in P.main_funcs():
    for b in f['blocks']:
        for ev in b['elems']:
            t=ev['e']
            if t.get('k')=='asg' and strip(t['l']).get('k')=='mem' and strip(t['l'])['f']=='established': print('established writer:',f['name'],ev['loc'].split('/')[-1],short(t), 'block label', b.get('label'))
