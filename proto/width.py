import json,glob,sys
def short(t):
    if not isinstance(t,dict): return str(t)
    k=t.get('k')
    if k=='var': return t['n']
    if k=='int': return str(t['v'])
    if k=='mem': return short(t['b'])+('->' if t['arrow'] else '.')+t['f']
    if k=='call': return (t.get('fn') or '(*)')+'('+','.join(short(a) for a in t['a'])+')'
    if k in('bin','asg'): return '('+short(t['l'])+t['op']+short(t['r'])+')'
    if k=='un': return t['op']+short(t['e'])
    if k=='cast': return ('(%s)'%t.get('t','?') if t.get('ex') else '<%s>'%t.get('t','?'))+short(t['e'])
    if k=='sub': return short(t['b'])+'['+short(t['i'])+']'
    if k=='cond': return '(%s?%s:%s)'%(short(t['c']),short(t['x']),short(t['y']))
    return k or '?'
def lhs_is_field(l):
    while l.get('k')=='cast': l=l['e']
    return l.get('k')=='mem'
n=0
for fn in sorted(glob.glob('/tmp/exp/proto/facts_asbuilt/*.json')):
    d=json.load(open(fn))
    for f in d['functions']:
        if not f['main'] or f.get('nocfg'): continue
        for b in f['blocks']:
            for e in b['elems']:
                t=e['e']
                if t.get('k')=='asg' and lhs_is_field(t['l']) and 'w' in t['l']:
                    lw=t['l']['w']
                    r=t['r']
                    # top-level explicit cast narrower than field
                    rr=r
                    while rr.get('k')=='cast' and not rr.get('ex'): rr=rr['e']
                    if rr.get('k')=='cast' and rr.get('ex') and 'w' in rr and rr['w']<lw:
                        n+=1; print('CASTNARROW',e['loc'],f['name'],short(t)[:140])
                    # compound assignment on <=16 bit unsigned fields or implicit narrowing
                    elif lw<=16 and t['op'] in ('+=','-=','=','<<=','*=') :
                        # implicit IntegralCast narrowing at top
                        if r.get('k')=='cast' and not r.get('ex') and r.get('ck')=='IntegralCast' and r['e'].get('w',0)>lw and r['e'].get('k')!='int':
                            n+=1; print('IMPLNARROW',e['loc'],f['name'],short(t)[:140])
                        elif t['op']!='=' :
                            n+=1; print('COMPOUND16',e['loc'],f['name'],short(t)[:140])
print(n)
