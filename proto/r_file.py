import sys; sys.path.insert(0, '/tmp/exp/proto')
from core import *
P = Prog('/tmp/exp/proto/facts_asbuilt'); F = P.funcs
READERS={'fread':3,'fgets':2,'fscanf':0,'getc':0,'fgetc':0}
WRITERS={'fwrite':3,'fprintf':0,'fputs':1,'fputc':1}
# summaries: function param (FILE*) is read / written inside
rsum={}; wsum={}
def scan_params():
    ch=True
    while ch:
        ch=False
        for f in F.values():
            for i,p in enumerate(f['params']):
                if 'FILE' not in p.get('t',''): continue
                pid='v%d'%p['id']
                for b in f['blocks']:
                    for ev in b['elems']:
                        t=ev['e']
                        if t.get('k')!='call': continue
                        fn=t.get('fn')
                        for tab,summ in ((READERS,rsum),(WRITERS,wsum)):
                            idx=tab.get(fn)
                            if idx is not None and idx<len(t['a']) and ap(t['a'][idx])==pid and (f['name'],i) not in summ: summ[(f['name'],i)]=ev['loc']; ch=True
                        for (g,j),_ in list(rsum.items()):
                            if fn==g and j<len(t['a']) and ap(t['a'][j])==pid and (f['name'],i) not in rsum: rsum[(f['name'],i)]=ev['loc']; ch=True
                        for (g,j),_ in list(wsum.items()):
                            if fn==g and j<len(t['a']) and ap(t['a'][j])==pid and (f['name'],i) not in wsum: wsum[(f['name'],i)]=ev['loc']; ch=True
scan_params()
print('reader summaries',sorted(rsum)); print('writer summaries',sorted(wsum))
reports=[]; opens=0
def can_read(m): return m.startswith('r') or '+' in m
def can_write(m): return m[0] in 'wa' or '+' in m
for f in P.main_funcs():
    has=False
    for b in f['blocks']:
        for ev in b['elems']:
            for y in walk(ev['e']):
                if isinstance(y,dict) and y.get('k')=='call' and y.get('fn')=='fopen': has=True
    if not has: continue
    def is_rule_event(ev):
        return any(isinstance(y,dict) and y.get('k')=='call' and (y.get('fn') in READERS or y.get('fn') in WRITERS or y.get('fn')=='fopen' or any(g==y.get('fn') for g,_ in list(rsum)+list(wsum))) for y in walk(ev['e']))
    keys,R=relevance(f,is_rule_event)
    def on_event(ev,env,b):
        global opens
        t=ev['e']; e=env
        # fopen assigned
        tgt=None; r=None
        if t.get('k')=='asg' and t.get('op')=='=': tgt=ap(t['l']); r=strip(t['r'])
        if t.get('k')=='decl':
            for d in t['d']:
                if 'init' in d and strip(d['init']).get('k')=='call' and strip(d['init']).get('fn')=='fopen':
                    tgt='v%d'%d['id']; r=strip(d['init'])
        if r is not None and r.get('k')=='call' and r.get('fn')=='fopen' and tgt:
            m=strip(r['a'][1]); mode=m.get('v') if m.get('k')=='str' else None
            e=env.copy(); e.kill(tgt); e.ts['mode:'+tgt]=mode or '?'; e.ts['path:'+tgt]=short(r['a'][0])[:60]; opens+=1; return [e]
        if t.get('k')=='call':
            fn=t.get('fn')
            def chk(idx,kind):
                if idx<len(t['a']):
                    a=ap(t['a'][idx]); mode=env.ts.get('mode:'+str(a))
                    if mode and mode!='?':
                        if kind=='r' and not can_read(mode): reports.append((f['name'],ev['loc'],'stream %s opened "%s" (%s) is read by %s'%(short(t['a'][idx]),mode,env.ts.get('path:'+a),fn)))
                        if kind=='w' and not can_write(mode): reports.append((f['name'],ev['loc'],'stream %s opened "%s" is written by %s'%(short(t['a'][idx]),mode,fn)))
            if fn in READERS: chk(READERS[fn],'r')
            if fn in WRITERS: chk(WRITERS[fn],'w')
            for (g,j),_ in rsum.items():
                if g==fn: chk(j,'r')
            for (g,j),_ in wsum.items():
                if g==fn: chk(j,'w')
            return None
        return [apply_assign_kills(ev,env,R)]
    solve(f,Env(),on_event,lambda e:None,keys)
print('fopen sites analysed (dynamic count)',opens)
for r in sorted(set(reports)): print('V',r)
