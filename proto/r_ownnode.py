import sys; sys.path.insert(0, '/tmp/exp/proto')
from core import *
P = Prog('/tmp/exp/proto/facts_asbuilt'); F = P.funcs
ANCH=['coap_retransmit','coap_io_prepare_io_lkd','coap_dispatch','coap_session_connected','coap_session_delay_pdu','coap_write_session','coap_cancel_session_messages','coap_cancel_all_messages','coap_session_disconnected_lkd','coap_session_mfree','coap_send_internal','handle_request','coap_io_prepare_epoll_lkd','coap_delete_all','coap_send_q_blocks','coap_block_check_q_block1_xmit','coap_block_check_q_block2_xmit','coap_retransmit_oscore_pdu','coap_oscore_decrypt_pdu','coap_cancel_observe_lkd']
reports=[]
def is_node_ptr(x): 
    return isinstance(x,dict) and x.get('pt') in ('coap_queue_t','struct coap_queue_t')
for name in ANCH:
    if name not in F: print('MISSING',name); continue
    f=F[name]; names={}
    for p in f['params']: names['v%d'%p['id']]=p['n']
    def is_rule_event(ev):
        t=ev['e']
        for y in walk(t):
            if isinstance(y,dict) and y.get('k')=='call' and y.get('fn') in ('coap_pop_next','coap_remove_from_queue','coap_new_node','coap_delete_node_lkd','coap_insert_node','coap_wait_ack','coap_session_delay_pdu','coap_retransmit','coap_send_pdu'): return True
        if t.get('k')=='asg' and strip(t['r']).get('k')=='mem' and strip(t['r'])['f']=='next': return True
        return False
    key_aps=set()
    for b in f['blocks']:
        for ev in b['elems']:
            for y in walk(ev['e']):
                if isinstance(y,dict) and y.get('k')=='var' and is_node_ptr(y) and not y.get('g'): key_aps.add(ap(y)); names[ap(y)]=y['n']
    keys,R=relevance(f,is_rule_event,extra_aps=key_aps)
    def setst(env,a,st):
        e=env.copy()
        if st is None: e.ts.pop('n:'+a,None)
        else: e.ts['n:'+a]=st
        return e
    def on_event(ev,env,b):
        t=ev['e']; k=t.get('k')
        if k=='call':
            fn=t.get('fn'); A=t.get('a',[])
            if fn=='coap_delete_node_lkd':
                a=ap(A[0]); st=env.ts.get('n:'+str(a))
                if st=='DELETED': reports.append((name,ev['loc'],'double delete of %s'%names.get(a,a)))
                if st=='INDELAYQ': reports.append((name,ev['loc'],'delete of %s while linked in delayqueue'%names.get(a,a)))
                if a and st: return [setst(env,a,'DELETED')]
                return None
            if fn=='coap_insert_node':
                a=ap(A[1])
                if a and env.ts.get('n:'+a): return [setst(env,a,'INSENDQ')]
                return None
            if fn in('coap_wait_ack',):
                a=ap(A[2])
                if a and env.ts.get('n:'+a): return [setst(env,a,'INSENDQ')]
                return None
            if fn=='coap_retransmit':
                a=ap(A[1])
                if a and env.ts.get('n:'+a): return [setst(env,a,'GIVEN')]
                return None
            if fn in('coap_session_delay_pdu','coap_send_pdu'):
                a=ap(A[2])
                if a and env.ts.get('n:'+a):
                    x=setst(env,a,'INDELAYQ'); x.ret[key(t)]=('eq',-3)
                    y=env.copy(); y.ret[key(t)]=('ne',-3)
                    return [x,y]
                return None
            if fn=='coap_remove_from_queue':
                a=ap(strip(A[3])['e']) if strip(A[3]).get('k')=='un' else None
                if a:
                    x=setst(env,a,'OWNED'); x.kill(a); x.null[a]='N'; x.ts['n:'+a]='OWNED'; x.ret[key(t)]=('nz',0)
                    y=env.copy(); y.ret[key(t)]=('eq',0)
                    return [x,y]
                return None
            # deref use after delete
            for a_ in A:
                a=ap(a_)
                if a and env.ts.get('n:'+a)=='DELETED': reports.append((name,ev['loc'],'deleted node %s passed to %s'%(names.get(a,a),fn)))
            return None
        if k=='mem' and t.get('arrow'):
            a=ap(t['b'])
            if a and env.ts.get('n:'+a)=='DELETED': reports.append((name,ev['loc'],'dereference of deleted node %s'%names.get(a,a)))
            return None
        if k in('asg','decl'):
            pairs=[]
            if k=='asg' and t.get('op')=='=': pairs.append((ap(t['l']),strip(t['r']),strip(t['l'])))
            if k=='decl':
                for d in t['d']:
                    if 'init' in d: pairs.append(('v%d'%d['id'],strip(d['init']),d)); names['v%d'%d['id']]=d['n']
            e=apply_assign_kills(ev,env,R)
            for tgt,r,l in pairs:
                if r.get('k')=='call' and r.get('fn') in('coap_pop_next','coap_new_node') and tgt:
                    if env.ts.get('n:'+tgt)=='OWNED': reports.append((name,ev['loc'],'owned node %s overwritten'%names.get(tgt,tgt)))
                    e=setst(e,tgt,'OWNED')
                elif tgt and tgt in key_aps and env.ts.get('n:'+tgt):
                    if env.ts['n:'+tgt]=='OWNED' and not (is_null_const(r) and env.null.get(tgt)=='Z'):
                        if not is_null_const(r) or env.null.get(tgt)!='Z': reports.append((name,ev['loc'],'owned node %s overwritten by %s'%(names.get(tgt,tgt),short(r)[:30])))
                    e=setst(e,tgt,None)
                # unlink idiom: HEAD = q->next  => q owned
                if r.get('k')=='mem' and r['f']=='next' and l and isinstance(l,dict) and l.get('k') in('mem','un') :
                    q=ap(r['b'])
                    if q in key_aps and not env.ts.get('n:'+q): e=setst(e,q,'OWNED')
                # relink idiom: session->delayqueue = q  => q back in delayqueue
                if isinstance(l,dict) and l.get('k')=='mem' and l.get('f')=='delayqueue':
                    q=ap(r)
                    if q in key_aps and e.ts.get('n:'+q)=='OWNED': e=setst(e,q,'INDELAYQ')
                # store into field: node->pdu etc ignore
            return [e]
        return None
    def on_exit(env):
        for k2,v in env.ts.items():
            if k2.startswith('n:') and v=='OWNED' and env.null.get(k2[2:])!='Z':
                reports.append((name,'exit','node %s still owned at exit (leak)'%names.get(k2[2:],k2[2:])))
    init=Env()
    if name=='coap_retransmit': init.ts['n:v%d'%f['params'][1]['id']]='OWNED'
    try: solve(f,init,on_event,on_exit,keys,key_aps=tuple(sorted(key_aps)))
    except Budget: reports.append((name,'BUDGET',''))
for r in sorted(set(reports)): print('V',r)
print(len(set(reports)))
