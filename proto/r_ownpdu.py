import sys; sys.path.insert(0, '/tmp/exp/proto')
from core import *
P = Prog('/tmp/exp/proto/facts_asbuilt'); F = P.funcs
PT = ('coap_pdu_t', 'struct coap_pdu_t')
CREATORS = set(n for n, f in F.items() if f['ret'].get('pt') in PT) - {'coap_async_get_pdu', 'coap_cache_get_pdu'}
ALWAYS = {'coap_delete_pdu': 0, 'coap_send_internal': 1, 'coap_send_lkd': 1, 'coap_send': 1}
IFRET = {'coap_send_pdu': (1, -3), 'coap_session_delay_pdu': (1, -3)}
IFARG = {'coap_send_q_block1': (2, 3, 1), 'coap_send_q_block2': (5, 6, 1), 'coap_send_q_blocks': (3, 4, 1)}
reports = []
def analyze(name):
    f = F[name]; names = {}
    for p in f['params']: names['v%d' % p['id']] = p['n']
    pvars = set()
    for b in f['blocks']:
        for ev in b['elems']:
            for y in walk(ev['e']):
                if isinstance(y, dict) and y.get('k') == 'var' and y.get('pt') in PT and not y.get('g'): pvars.add(ap(y)); names[ap(y)] = y['n']
            if ev['e'].get('k') == 'decl':
                for d in ev['e']['d']:
                    if d.get('pt') in PT: pvars.add('v%d' % d['id']); names['v%d' % d['id']] = d['n']
    def is_rule_event(ev):
        for y in walk(ev['e']):
            if isinstance(y, dict) and y.get('k') == 'call' and (y.get('fn') in CREATORS or y.get('fn') in ALWAYS or y.get('fn') in IFRET or y.get('fn') in IFARG): return True
        t = ev['e']
        if t.get('k') == 'ret': return True
        if t.get('k') == 'asg' and ap(t['r']) in pvars: return True
        return False
    if not any(is_rule_event(ev) and ev['e'].get('k') != 'ret' for b in f['blocks'] for ev in b['elems']): return
    keys, R = relevance(f, is_rule_event, extra_aps=pvars)
    def st(env, a): return env.ts.get('p:' + a)
    def setst(env, a, v):
        e = env.copy()
        if v is None: e.ts.pop('p:' + a, None)
        else: e.ts['p:' + a] = v
        return e
    def own_from_call(env, tgt, loc, fn):
        e = env.copy(); e.kill(tgt)
        if st(env, tgt) == 'O' and env.null.get(tgt) != 'Z': reports.append((name, loc, 'owned %s overwritten by result of %s (leak)' % (names.get(tgt, tgt), fn)))
        e.ts['p:' + tgt] = 'O'; return e
    def consume(env, a, loc, why):
        s_ = st(env, a)
        if s_ == 'C' and env.null.get(a) != 'Z': reports.append((name, loc, '%s: %s already consumed' % (why, names.get(a, a))))
        if s_ == 'O': return setst(env, a, 'C')
        return env
    def on_event(ev, env, b):
        t = ev['e']; k = t.get('k'); loc = ev['loc']
        if k == 'decl':
            e = apply_assign_kills(ev, env, R)
            for d in t['d']:
                if 'init' in d:
                    r = strip(d['init']); tgt = 'v%d' % d['id']
                    if r.get('k') == 'call' and r.get('fn') in CREATORS: e = own_from_call(e, tgt, loc, r['fn'])
            return [e]
        if k == 'asg' and t.get('op') == '=':
            l = strip(t['l']); r = strip(t['r']); tgt = ap(l); ra = ap(r)
            e = apply_assign_kills(ev, env, R)
            if l.get('k') == 'var' and not l.get('g') and tgt in pvars:
                if r.get('k') == 'call' and r.get('fn') in CREATORS: return [own_from_call(e, tgt, loc, r['fn'])]
                old = st(env, tgt)
                if old == 'O' and env.null.get(tgt) != 'Z':
                    reports.append((name, loc, 'owned %s overwritten by %s (leak)' % (names.get(tgt, tgt), short(r)[:30])))
                e = setst(e, tgt, None)
                if ra in pvars and st(env, ra) == 'O':
                    e = setst(e, tgt, 'O'); e = setst(e, ra, 'A')      # move; old name becomes alias
                    if env.null.get(ra): e.null[tgt] = env.null[ra]
                return [e]
            # store of an owned pdu into a field / deref / global: escape
            if ra in pvars and st(env, ra) == 'O': e = setst(e, ra, 'E')
            if r.get('k') == 'call' and r.get('fn') in IFRET and tgt:
                pi, K = IFRET[r['fn']]; pa = ap(r['a'][pi])
                if pa in pvars and st(env, pa) == 'O':
                    x = setst(e, pa, 'E'); x.ints[tgt] = (K, K, frozenset())
                    y = e.copy(); y.ints[tgt] = (-INF, INF, frozenset({K}))
                    return [x, y]
            return [e]
        if k == 'call':
            fn = t.get('fn'); A = t.get('a', [])
            if fn in ALWAYS and ALWAYS[fn] < len(A):
                a = ap(A[ALWAYS[fn]])
                if a in pvars: return [consume(env, a, loc, fn)]
                return None
            if fn in IFARG:
                pi, fi, fv = IFARG[fn]
                if fi < len(A) and const_int(A[fi]) == fv:
                    a = ap(A[pi])
                    if a in pvars: return [consume(env, a, loc, fn)]
                return None
            if fn in IFRET:
                pi, K = IFRET[fn]; pa = ap(A[pi])
                if pa in pvars and st(env, pa) == 'O':
                    x = setst(env, pa, 'E'); x.ret[key(t)] = ('eq', K)
                    y = env.copy(); y.ret[key(t)] = ('ne', K)
                    return [x, y]
                return None
            for a_ in A:
                a = ap(a_)
                if a in pvars and st(env, a) == 'C' and env.null.get(a) != 'Z':
                    reports.append((name, loc, 'consumed %s passed to %s' % (names.get(a, a), fn)))
                sa = strip(a_)
                if sa.get('k') == 'un' and sa.get('op') == '&' and ap(sa['e']) in pvars and st(env, ap(sa['e'])) == 'O':
                    return [setst(env, ap(sa['e']), 'E')]
            return None
        if k == 'mem' and t.get('arrow'):
            a = ap(t['b'])
            if a in pvars and st(env, a) == 'C' and env.null.get(a) != 'Z': reports.append((name, loc, 'dereference of consumed %s' % names.get(a, a)))
            return None
        if k == 'ret' and 'e' in t:
            a = ap(t['e'])
            if a in pvars and st(env, a) == 'O': return [setst(env, a, 'E')]
            r = strip(t['e'])
            if r.get('k') == 'call' and r.get('fn') in IFRET:
                pi, K = IFRET[r['fn']]; pa = ap(r['a'][pi])
                if pa in pvars and st(env, pa) == 'O': return [setst(env, pa, 'R')]   # contract delegated to caller via return value
            return None
        return [apply_assign_kills(ev, env, R)]
    def on_exit(env):
        for k2, v in env.ts.items():
            if k2.startswith('p:') and v == 'O' and env.null.get(k2[2:]) != 'Z':
                reports.append((name, 'exit', 'leak of %s' % names.get(k2[2:], k2[2:])))
    init = Env()
    if name in ALWAYS and name != 'coap_delete_pdu': init.ts['p:v%d' % f['params'][ALWAYS[name]]['id']] = 'O'
    try: st_ = solve(f, init, on_event, on_exit, keys, key_aps=tuple(sorted(pvars)))
    except Budget: reports.append((name, 'BUDGET', ''))
for f in P.main_funcs():
    if f['name'] == 'coap_delete_pdu': continue
    analyze(f['name'])
for r in sorted(set(reports)): print('V', r)
print(len(set(reports)))
