import sys; sys.path.insert(0, '/tmp/exp/proto')
from core import *
P = Prog('/tmp/exp/proto/facts_asbuilt'); F = P.funcs
SRC_CALLS = {'coap_opt_length', 'coap_decode_var_bytes', 'coap_decode_var_bytes8', 'oscore_cbor_get_element_size', 'oscore_cbor_get_unsigned_integer', 'oscore_cbor_get_number', 'derive_cbor_value', 'get_byte', 'get_byte_inc'}
WIRE_PARAMS = {'coap_opt_parse': ['opt'], 'coap_pdu_parse_header_size': ['data'], 'coap_pdu_parse_size': ['data'], 'coap_pdu_parse_header': [], 'oscore_decode_option_value': ['opt_value'],
               'coap_opt_length': ['opt'], 'coap_opt_value': ['opt'], 'coap_ws_read': [], 'coap_read_session': [], 'coap_decode_var_bytes': ['buf'], 'coap_decode_var_bytes8': ['buf'], 'coap_get_block_b': [],
               'coap_endpoint_get_session': []}
WIRE_FIELDS = {'rd_header', 'read_header', 'http_hdr', 'token'}   # loads from these buffers are wire bytes
SURFACE = ['coap_pdu_parse', 'coap_pdu_parse_header', 'coap_pdu_parse_opt', 'coap_pdu_parse_size', 'coap_pdu_parse_header_size', 'next_option_safe', 'coap_opt_parse', 'coap_option_next', 'coap_opt_length', 'coap_get_block_b', 'coap_read_session', 'coap_ws_read', 'coap_ws_rd_http_header', 'oscore_decode_option_value', 'oscore_cbor_get_element_size', 'oscore_cbor_skip_value', 'coap_handle_request_put_block', 'coap_handle_response_get_block', 'coap_oscore_decrypt_pdu', 'oscore_validate_sender_seq', 'coap_add_data_large_internal', 'coap_new_error_response', 'coap_cache_derive_key_w_ignore', 'coap_persist_observe_add_lkd', 'derive_cbor_value', 'coap_handle_response_send_block']
MEM = {'memcpy': 2, 'memmove': 2, 'memset': 2}
reports = []; sinks = 0
def tainted_expr(t, taint, fname):
    for y in walk(t):
        if not isinstance(y, dict): continue
        if y.get('k') == 'call' and y.get('fn') in SRC_CALLS: return 'call ' + y['fn']
        a = ap(y) if y.get('k') in ('var', 'mem', 'sub', 'un') else None
        if a and a in taint: return a
        if y.get('k') in ('sub',) :
            b = strip(y['b'])
            if b.get('k') == 'mem' and b['f'] in WIRE_FIELDS: return 'load ' + b['f']
            if b.get('k') == 'var' and b['n'] in WIRE_PARAMS.get(fname, []): return 'load ' + b['n']
        if y.get('k') == 'un' and y.get('op') == '*':
            b = strip(y['e'])
            if b.get('k') == 'var' and b['n'] in WIRE_PARAMS.get(fname, []): return 'load *' + b['n']
    return None
for name in SURFACE:
    if name not in F: print('MISSING', name); continue
    f = F[name]
    def is_rule_event(ev):
        t = ev['e']
        if t.get('k') == 'call' and t.get('fn') in MEM: return True
        if t.get('k') in ('bin', 'asg') and t.get('op') in ('<<', '>>', '<<=', '>>='): return True
        return False
    # pre-pass: flow-insensitive taint closure over assignments (cheap, conservative)
    taint = {}
    ch = True
    while ch:
        ch = False
        for b in f['blocks']:
            for ev in b['elems']:
                t = ev['e']; pairs = []
                if t.get('k') == 'asg': pairs.append((ap(t['l']), t['r']))
                if t.get('k') == 'decl':
                    for d in t['d']:
                        if 'init' in d: pairs.append(('v%d' % d['id'], d['init']))
                for tgt, r in pairs:
                    if tgt and tgt not in taint:
                        why = tainted_expr(r, taint, name)
                        if why: taint[tgt] = why; ch = True
    keys, R = relevance(f, is_rule_event, extra_aps=set(taint))
    def bounded(env, a, t):
        lo, hi, ex = int_fact(env, env.canon(a))
        if hi != INF: return True
        w = t.get('w')
        return False
    def on_event(ev, env, b):
        global sinks
        t = ev['e']
        if t.get('k') == 'call' and t.get('fn') in MEM:
            sz = t['a'][MEM[t['fn']]]
            if const_int(sz) is not None: return None
            bad = []
            for y in walk(sz):
                if isinstance(y, dict) and y.get('k') in ('var', 'mem'):
                    a = ap(y)
                    if a in taint and not bounded(env, a, y): bad.append((short(y), taint[a]))
                if isinstance(y, dict) and y.get('k') == 'call' and y.get('fn') in SRC_CALLS: bad.append((short(y), 'direct'))
            if any(isinstance(y, dict) and y.get('k') == 'cond' for y in walk(sz)): bad = []     # min()/clamp idiom
            sinks += 1
            if bad: reports.append((name, ev['loc'].split('/')[-1], short(t)[:90], 'unbounded wire-derived size: %s' % bad[:2]))
            return None
        return [apply_assign_kills(ev, env, R)]
    try: solve(f, Env(), on_event, lambda e: None, keys)
    except Budget: reports.append((name, 'BUDGET', '', ''))
print('sink visits', sinks)
for r in sorted(set(reports)): print('V', r)
print(len(set(reports)))
