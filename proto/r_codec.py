import sys; sys.path.insert(0, '/tmp/exp/proto')
from core import *
P = Prog('/tmp/exp/proto/facts_asbuilt'); F = P.funcs
def boundaries(fname, select):
    """collect comparison boundaries on expressions selected by select(expr)->label"""
    f=F[fname]; out=collections.defaultdict(set)
    def visit(c):
        c=strip(c)
        if not isinstance(c,dict): return
        if c.get('k')=='bin' and c.get('op') in ('<','<=','>','>=','==','!='):
            for x,y,o in ((c['l'],c['r'],c['op']),(c['r'],c['l'],{'<':'>','<=':'>=','>':'<','>=':'<=','==':'==','!=':'!='}[c['op']])):
                K=const_int(y); lab=select(strip(x))
                if K is not None and lab:
                    if o in ('<','>='): out[lab].add(K)
                    elif o in ('<=','>'): out[lab].add(K+1)
                    else: out[lab].add(K); out[lab].add(K+1)
    for b in f['blocks']:
        t=b.get('term')
        if t and t.get('cond') is not None:
            if t.get('c')=='SwitchStmt':
                lab=select(strip(t['cond']))
                if lab:
                    for s in b['succ']:
                        if s is None: continue
                        l=f['B'][s].get('label')
                        if l and l.get('k')=='case': out[lab].add(l['lo']); out[lab].add(l['lo']+1)
            else: visit(t['cond'])
        for ev in b['elems']:
            for y in walk(ev['e']):
                if isinstance(y,dict) and y.get('k')=='cond': visit(y['c'])
    return {k:sorted(v) for k,v in out.items()}
def by_name(*names):
    def sel(x):
        if x.get('k')=='var' and x['n'] in names: return x['n']
        if x.get('k')=='mem' and x['f'] in names: return x['f']
        if x.get('k')=='mem' and x['f']=='length' and strip(x['b']).get('k')=='mem' and strip(x['b'])['f'] in names: return strip(x['b'])['f']+'.length'
        return None
    return sel
for fn,names in (('coap_opt_setheader',('delta','length')),('coap_opt_encode_size',('delta','length')),('coap_opt_parse',('delta','length')),
                 ('coap_remove_option',('opt_delta','delta')),('coap_insert_option',('opt_delta','delta')),('coap_new_error_response',('delta',)),
                 ('coap_add_token',('len',)),('coap_update_token',('len',)),('coap_pdu_encode_header',('len','actual_token','e_token_length')),
                 ('coap_pdu_parse_header',('e_token_length',)),('coap_pdu_parse_size',('len','tkl')),('coap_pdu_parse_header_size',('len',)),('coap_pdu_resize',('actual_token',))):
    print(fn, boundaries(fn, by_name(*names)))
