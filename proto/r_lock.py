import sys; sys.path.insert(0, '/tmp/exp/proto')
from core import *
P = Prog(sys.argv[1] if len(sys.argv) > 1 else '/tmp/exp/proto/facts_tsd')
F = P.funcs
APPCB = {'handler', 'response_handler', 'nack_handler', 'handle_event', 'ping_handler', 'pong_handler'}
exported = set(l.strip() for l in open('/repo/libcoap-3.sym') if l.strip())
def top_call(ev):
    t = ev['e']; return t if t.get('k') == 'call' else None
lockops = set(); declared = set()
for n, f in F.items():
    for b in f['blocks']:
        for ev in b['elems']:
            c = top_call(ev)
            if c and c.get('fn') in ('coap_lock_lock_func', 'coap_lock_unlock_func'): lockops.add(n)
            if 'coap_lock_check_locked' in (ev.get('mac') or []): declared.add(n)
wrappers = set(n for n in lockops if F[n]['api'])
print('wrappers', len(wrappers), 'declared', len(declared), 'other lockops', sorted(lockops - wrappers))
reports = []
summ = {}   # (fn, entry) -> set of exit lock states
needL = set()  # inferred: reaches a marker / L-callee while U (entered U)
def callee_field(t):
    c = strip(t.get('callee'))
    while c and c.get('k') == 'un': c = strip(c.get('e'))
    if c and c.get('k') == 'mem': return c['f']
    if c and c.get('k') == 'sub':
        b = strip(c['b'])
        if b and b.get('k') == 'mem': return b['f']
    if c and c.get('k') == 'var': return 'var:' + c['n']
    return None
def analyze(name, entry, report=True, mark=None):
    f = F[name]; exits = set(); hit = []
    def on_event(ev, env, b):
        t = ev['e']; lk = env.ts.get('lock'); cb = env.ts.get('cb', 0)
        if 'coap_lock_check_locked' in (ev.get('mac') or []) and t.get('k') == 'call' and t.get('fn') == '__assert_fail':
            return []  # assertion failure arm
        if 'coap_lock_check_locked' in (ev.get('mac') or []):
            if lk == 'U':
                hit.append(ev['loc'])
                if report: reports.append((name, ev['loc'], 'precondition marker reached while unlocked'))
            return None
        c = top_call(ev)
        if c:
            fn = c.get('fn')
            if fn == 'coap_lock_lock_func':
                if lk == 'L' and cb == 0 and report: reports.append((name, ev['loc'], 'lock while locked (in_callback==0)'))
                if lk == 'L': return None  # nested in callback: stays L
                a = env.copy(); a.ts['lock'] = 'L'; a.ret[key(c)] = ('nz', 0)
                z = env.copy(); z.ts['lock'] = 'F'; z.ret[key(c)] = ('eq', 0)
                return [a, z]
            if fn == 'coap_lock_unlock_func':
                if lk == 'U' and report: reports.append((name, ev['loc'], 'unlock while unlocked'))
                if lk == 'L' and cb == 0: e = env.copy(); e.ts['lock'] = 'U'; return [e]
                return None
            if fn in ('select', 'epoll_wait'):
                to = const_int(c['a'][-1])
                if lk == 'L' and to != 0 and report: reports.append((name, ev['loc'], 'blocking %s while locked' % fn))
                return None
            if fn in F and fn not in wrappers:
                if lk == 'U' and fn in needL:
                    hit.append(ev['loc'])
                    if report: reports.append((name, ev['loc'], 'call of %s (needs lock) while unlocked' % fn))
                ex = summ.get((fn, lk))
                if ex and lk == 'L' and ex == {'F'}: e = env.copy(); e.ts['lock'] = 'F'; return [e]
                return None
            if fn in wrappers and report and name not in ('main',):
                reports.append((name, ev['loc'], 'internal call of COAP_API %s' % fn))
            if fn is None:
                fld = callee_field(c)
                if fld in APPCB or (fld and fld.startswith('var:h')):
                    if lk == 'L' and cb == 0 and report: reports.append((name, ev['loc'], 'application callback via %s with lock held and in_callback==0' % fld))
            return None
        if t.get('k') == 'un' and t.get('op') in ('++', '--') and strip(t['e']).get('k') == 'mem' and strip(t['e'])['f'] == 'in_callback':
            e = env.copy(); e.ts['cb'] = cb + (1 if t['op'] == '++' else -1); return [e]
        return [apply_assign_kills(ev, env, R)]
    def on_exit(env): exits.add((env.ts.get('lock'), env.ts.get('cb', 0)))
    def is_rule_event(ev):
        t = ev['e']
        if 'coap_lock_check_locked' in (ev.get('mac') or []): return True
        if t.get('k') == 'call':
            fn = t.get('fn')
            if fn in ('coap_lock_lock_func', 'coap_lock_unlock_func', 'select', 'epoll_wait'): return True
            if fn in needL or fn in lockops: return True
            if fn is None: return True
        if t.get('k') == 'un' and t.get('op') in ('++', '--') and strip(t['e']).get('k') == 'mem' and strip(t['e'])['f'] == 'in_callback': return True
        return False
    keys, R = relevance(f, is_rule_event)
    init = Env(ts={'lock': entry, 'cb': 0})
    steps = solve(f, init, on_event, on_exit, keys)
    return exits, hit, steps
# infer needL: functions that reach a marker or a needL callee when entered U (without locking themselves)
needL = set()
changed = True; rounds = 0
while changed and rounds < 8:
    changed = False; rounds += 1
    for n in F:
        if n in needL or n in wrappers: continue
        try: ex, hit, st = analyze(n, 'U', report=False)
        except Budget: print('BUDGET', n); continue
        if hit: needL.add(n); changed = True
print('needL', len(needL), 'rounds', rounds)
# summaries for functions with lock ops entered L
for n in lockops - wrappers:
    ex, _, _ = analyze(n, 'L', report=False); summ[(n, 'L')] = set(l for l, c in ex)
maxsteps = 0
for n in sorted(wrappers):
    ex, _, st = analyze(n, 'U'); maxsteps = max(maxsteps, st)
    bad = [e for e in ex if e[0] == 'L' or e[1] != 0]
    if bad: reports.append((n, F[n]['loc'], 'wrapper exits in %s' % sorted(ex)))
pub_unlocked = [n for n in sorted(exported) if n in F and n not in wrappers]
for n in pub_unlocked:
    ex, hit, st = analyze(n, 'U'); maxsteps = max(maxsteps, st)
    bad = [e for e in ex if e[0] == 'L' or e[1] != 0]
    if bad: reports.append((n, F[n]['loc'], 'public function entered unlocked exits in %s' % sorted(ex)))
for n in sorted(needL):
    if n in exported and n not in declared: continue
    ex, _, st = analyze(n, 'L'); maxsteps = max(maxsteps, st)
    bad = [e for e in ex if e[0] == 'U' or e[1] != 0]
    if bad: reports.append((n, F[n]['loc'], 'locked function exits in %s' % sorted(ex)))
seen = set()
for r in reports:
    if r in seen: continue
    seen.add(r); print('V', r)
print(len(seen), 'reports; max steps', maxsteps)
