import sys; sys.path.insert(0, '/tmp/exp/proto')
from core import *
P = Prog('/tmp/exp/proto/facts_asbuilt'); F = P.funcs
reports=[]
for name in ('coap_add_data_large_request_lkd','coap_add_data_large_internal','coap_add_data_large_response_lkd','coap_add_data_large_request','coap_add_data_large_response','coap_block_delete_lg_xmit'):
    f=F[name]
    rf=None
    for p in f['params']:
        if p['n']=='release_func': rf='v%d'%p['id']
    def is_rel(t):
        if t.get('k')!='call' or t.get('fn') is not None: return False
        c=strip(t.get('callee'))
        while c and c.get('k')=='un': c=strip(c['e'])
        return (c.get('k')=='var' and c['n']=='release_func') or (c.get('k')=='mem' and c['f']=='release_func')
    def is_rule_event(ev):
        t=ev['e']
        if is_rel(t): return True
        if t.get('k')=='call' and t.get('fn') in ('coap_block_delete_lg_xmit','coap_add_data_large_internal','coap_add_data_large_response_lkd','coap_add_data_large_request_lkd'): return True
        if t.get('k')=='asg' and strip(t['l']).get('k')=='mem' and strip(t['l'])['f'] in('release_func','lg_xmit'): return True
        return False
    keys,R=relevance(f,is_rule_event, extra_aps=[rf] if rf else [])
    def on_event(ev,env,b):
        t=ev['e']
        if is_rel(t):
            e=env.copy(); e.ts['rel']=e.ts.get('rel',0)+1; return [e]
        if t.get('k')=='call' and t.get('fn') in ('coap_add_data_large_internal','coap_add_data_large_response_lkd','coap_add_data_large_request_lkd') and name!=t['fn']:
            e=env.copy(); e.ts['rel']=e.ts.get('rel',0)+1; e.ts['via']=t['fn']; return [e]     # delegated: callee obligated
        if t.get('k')=='call' and t.get('fn')=='coap_block_delete_lg_xmit':
            if env.ts.get('stored'): e=env.copy(); e.ts['deleg']=1; return [e]
            return None
        if t.get('k')=='asg' and strip(t['l']).get('k')=='mem':
            fld=strip(t['l'])['f']
            if fld=='release_func' and ap(t['r'])==rf: e=env.copy(); e.ts['stored']=1; return [e]
            if fld=='lg_xmit' and 'LL_PREPEND' in ' '.join(ev.get('mac') or []) : e=env.copy(); e.ts['linked']=1; return [e]
        return [apply_assign_kills(ev,env,R)]
    def on_exit(env):
        if rf and env.null.get(rf)=='Z': return
        rel=env.ts.get('rel',0); st=env.ts.get('stored'); ok=(rel==1 and not st) or (rel==0 and st and (env.ts.get('linked') or env.ts.get('deleg')))
        if name=='coap_block_delete_lg_xmit': ok = rel<=1
        if not ok: reports.append((name,'exit','release_func: called %d times, stored=%s linked=%s delegated=%s null=%s'%(rel,st,env.ts.get('linked'),env.ts.get('deleg'),env.null.get(rf))))
    solve(f,Env(),on_event,on_exit,keys,key_aps=(rf,) if rf else ())
for r in sorted(set(reports)): print('V',r)
print('done')
