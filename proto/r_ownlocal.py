import sys; sys.path.insert(0, '/tmp/exp/proto')
from core import *
P = Prog('/tmp/exp/proto/facts_asbuilt'); F = P.funcs
DESTR={'coap_delete_string','coap_delete_binary','coap_delete_bin_const','coap_delete_str_const','coap_delete_optlist','coap_delete_cache_key','coap_free_type','coap_free','fclose','coap_delete_pdu','free','coap_delete_uri','coap_free_address_info','coap_delete_oscore_conf','coap_digest_free'}
TYPES={'coap_string_t','coap_binary_t','coap_bin_const_t','coap_str_const_t','coap_optlist_t','coap_cache_key_t','struct coap_string_t','struct coap_binary_t','struct coap_bin_const_t','struct coap_str_const_t','struct coap_optlist_t','struct coap_cache_key_t','FILE','struct _IO_FILE','void','uint8_t','unsigned char','char','coap_uri_t','struct coap_uri_t'}
# allocating closure
ALLOC={'coap_malloc_type','coap_realloc_type','malloc','calloc','fopen','strdup'}
ch=True
while ch:
    ch=False
    for n,f in F.items():
        if n in ALLOC or not f['ret'].get('p'): continue
        # returns result of alloc call directly or a local assigned from alloc call
        alloc_vars=set()
        for b in f['blocks']:
            for ev in b['elems']:
                t=ev['e']
                if t.get('k')=='asg' and strip(t['r']).get('k')=='call' and strip(t['r']).get('fn') in ALLOC and ap(t['l']): alloc_vars.add(ap(t['l']))
                if t.get('k')=='decl':
                    for d in t['d']:
                        if 'init' in d and strip(d['init']).get('k')=='call' and strip(d['init']).get('fn') in ALLOC: alloc_vars.add('v%d'%d['id'])
        for b in f['blocks']:
            for ev in b['elems']:
                t=ev['e']
                if t.get('k')=='ret' and 'e' in t:
                    r=strip(t['e'])
                    if (r.get('k')=='call' and r.get('fn') in ALLOC) or ap(r) in alloc_vars:
                        if n not in ALLOC: ALLOC.add(n); ch=True
CREATORS=set(n for n in ALLOC if n in ('coap_malloc_type','malloc','calloc','fopen','strdup') or (n in F and F[n]['ret'].get('pt') in TYPES))
print('creators',len(CREATORS))
reports=[]; owners=0
def param_const(fn,i):
    g=F.get(fn)
    if g and i<len(g['params']): return bool(g['params'][i].get('pc'))
    return None
LIBC_BORROW={'memcpy','memset','memmove','strlen','strcmp','strncmp','memcmp','strcpy','strcat','snprintf','sprintf','fread','fwrite','fprintf','fflush','fgets','fscanf','strchr','strstr','coap_log_impl','printf','fputs','rename','remove','strtol','strncpy','strncasecmp','strcasecmp','isxdigit'}
for f in P.main_funcs():
    name=f['name']
    def is_rule_event(ev):
        for y in walk(ev['e']):
            if isinstance(y,dict) and y.get('k')=='call' and (y.get('fn') in CREATORS or y.get('fn') in DESTR): return True
        return ev['e'].get('k')=='ret'
    if not any(is_rule_event(ev) and ev['e'].get('k')!='ret' for b in f['blocks'] for ev in b['elems']): continue
    keys,R=relevance(f,is_rule_event)
    names={}
    def on_event(ev,env,b):
        global owners
        t=ev['e']; k=t.get('k')
        def own(tgt,loc,fn):
            e=env.copy(); e.kill(tgt)
            if e.ts.get('o:'+tgt) in ('O','M'): reports.append((name,loc,'owned %s overwritten (leak)'%names.get(tgt,tgt)))
            e.ts['o:'+tgt]='M'; e.ts['c:'+tgt]=fn+'@'+loc.split(':')[-1]; return [e]
        if k=='decl':
            for d in t['d']:
                names['v%d'%d['id']]=d['n']
                if 'init' in d:
                    r=strip(d['init'])
                    if r.get('k')=='call' and r.get('fn') in CREATORS: return own('v%d'%d['id'],ev['loc'],r['fn'])
            return [apply_assign_kills(ev,env,R)]
        if k=='asg' and t.get('op')=='=':
            l=strip(t['l']); r=strip(t['r']); tgt=ap(l)
            if l.get('k')=='var' and not l.get('g'):
                names[tgt]=l['n']
                if r.get('k')=='call' and r.get('fn') in CREATORS: return own(tgt,ev['loc'],r['fn'])
                e=apply_assign_kills(ev,env,R)
                st=env.ts.get('o:'+tgt)
                if st in ('O','M') and not is_null_const(r):
                    reports.append((name,ev['loc'],'owned %s (from %s) overwritten (leak)'%(names.get(tgt,tgt),env.ts.get('c:'+tgt))))
                if st:
                    e=e.copy(); e.ts.pop('o:'+tgt,None); e.ts.pop('c:'+tgt,None)
                    if st in('O','M') and is_null_const(r): reports.append((name,ev['loc'],'owned %s (from %s) set to NULL (leak)'%(names.get(tgt,tgt),env.ts.get('c:'+tgt))))
                # move from another owned local
                ra=ap(r)
                if ra and env.ts.get('o:'+ra) in ('O','M'):
                    e=e.copy(); e.ts['o:'+tgt]=env.ts['o:'+ra]; e.ts['c:'+tgt]=env.ts.get('c:'+ra); e.ts.pop('o:'+ra); e.ts.pop('c:'+ra,None)
                return [e]
            else:
                # store into field/deref/global: escape of rhs var
                ra=ap(r)
                e=apply_assign_kills(ev,env,R)
                if ra and env.ts.get('o:'+ra):
                    e=e.copy(); e.ts.pop('o:'+ra,None); e.ts.pop('c:'+ra,None)
                return [e]
        if k=='call':
            fn=t.get('fn'); e=env
            for i,a in enumerate(t.get('a',[])):
                aa=ap(a)
                if not aa or not env.ts.get('o:'+aa):
                    # &var passed: escape
                    sa=strip(a)
                    if sa.get('k')=='un' and sa.get('op')=='&' and ap(sa['e']) and env.ts.get('o:'+ap(sa['e'])):
                        e=e.copy(); e.ts.pop('o:'+ap(sa['e']),None)
                    continue
                if fn in DESTR:
                    e=e.copy(); e.ts.pop('o:'+aa,None); e.ts.pop('c:'+aa,None)
                elif fn in LIBC_BORROW: pass
                else:
                    pc=param_const(fn,i)
                    if pc is True: pass      # borrow
                    else:
                        e=e.copy(); e.ts.pop('o:'+aa,None); e.ts.pop('c:'+aa,None)   # conservative escape
            return [e]
        if k=='ret' and 'e' in t:
            ra=ap(t['e'])
            if ra and env.ts.get('o:'+ra): e=env.copy(); e.ts.pop('o:'+ra,None); e.ts.pop('c:'+ra,None); return [e]
            return None
        return [apply_assign_kills(ev,env,R)]
    def on_exit(env):
        for k2,v in env.ts.items():
            if k2.startswith('o:') and v in('O','M'):
                a=k2[2:]
                if env.null.get(a)=='Z': continue
                reports.append((name,'exit','leak of %s (from %s)'%(names.get(a,a),env.ts.get('c:'+a))))
    # nullness refinement of owners happens through env.null via assume(); convert at exit
    try: solve(f,Env(),on_event,on_exit,keys)
    except Budget: reports.append((name,'BUDGET',''))
for r in sorted(set(reports)): print('V',r)
print(len(set(reports)))
