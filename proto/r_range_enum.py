import sys; sys.path.insert(0, '/tmp/exp/proto')
from core import *
P = Prog('/tmp/exp/proto/facts_asbuilt'); F = P.funcs
SURFACE=['coap_pdu_parse','coap_pdu_parse_header','coap_pdu_parse_opt','coap_pdu_parse_size','coap_pdu_parse_header_size','next_option_safe','coap_opt_parse','coap_option_next','coap_opt_length','coap_opt_value','coap_get_block_b','coap_get_block','coap_read_session','coap_handle_dgram','coap_ws_read','coap_ws_rd_http_header','coap_ws_rd_http_header_server','coap_ws_rd_http_header_client','coap_ws_mask_data','oscore_decode_option_value','oscore_cbor_get_next_element','oscore_cbor_get_element_size','oscore_cbor_elem_contained','oscore_cbor_get_number','oscore_cbor_get_simple_value','oscore_cbor_get_negative_integer','oscore_cbor_get_unsigned_integer','oscore_cbor_get_string','oscore_cbor_get_array','oscore_cbor_get_map','oscore_cbor_skip_value','oscore_cbor_strip_value','coap_decode_var_bytes','coap_decode_var_bytes8','coap_endpoint_get_session','coap_option_check_critical','coap_new_error_response','coap_show_pdu','coap_dispatch','handle_request','handle_response','coap_cache_derive_key_w_ignore','coap_get_uri_path','coap_get_query','coap_handle_request_put_block','coap_handle_response_get_block','derive_cbor_value','coap_oscore_decrypt_pdu']
MEM={'memcpy':2,'memmove':2,'memset':2,'memcmp':2}
n_mem=n_sub=n_shift=0
for fn in SURFACE:
    if fn not in F: print('MISSING',fn); continue
    f=F[fn]
    for b in f['blocks']:
        for ev in b['elems']:
            t=ev['e']
            if t.get('k')=='call' and t.get('fn') in MEM:
                sz=t['a'][MEM[t['fn']]]
                if const_int(sz) is None: n_mem+=1; print('MEM  ',fn,ev['loc'].split('/')[-1],short(t)[:110])
            if t.get('k')=='sub' and t.get('alen') and const_int(t['i']) is None:
                n_sub+=1; print('SUB  ',fn,ev['loc'].split('/')[-1],short(t)[:90],'alen',t['alen'],'idx w',strip(t['i']).get('w'))
print(n_mem,n_sub)
