import sys; sys.path.insert(0, '/tmp/exp/proto')
from core import *
P = Prog('/tmp/exp/proto/facts_asbuilt'); F = P.funcs
REF='coap_session_reference_lkd'; REL='coap_session_release_lkd'
reports=[]; inst=0
for f in P.main_funcs():
    # find statement-form references: call event not nested in an assignment (top-level element whose value is unused)
    # approximation: a call event REF whose loc has no 'asg' event with r being that call
    stmt_refs=[]; asg_calls=set()
    for b in f['blocks']:
        for ev in b['elems']:
            t=ev['e']
            if t.get('k')=='asg' and strip(t['r']).get('k')=='call' and strip(t['r']).get('fn')==REF: asg_calls.add(key(strip(t['r']))+ev['loc'])
            if t.get('k')=='ret' and 'e' in t and strip(t['e']).get('k')=='call' and strip(t['e']).get('fn')==REF: asg_calls.add(key(strip(t['e']))+ev['loc'])
    for b in f['blocks']:
        for ev in b['elems']:
            t=ev['e']
            if t.get('k')=='call' and t.get('fn')==REF:
                if key(t)+ev['loc'] in asg_calls: print('HOLD',f['name'],ev['loc']); continue
                stmt_refs.append((ev['loc'],key(t['a'][0])))
    if not stmt_refs: continue
    inst+=len(stmt_refs)
    def is_rule_event(ev):
        t=ev['e']; return t.get('k')=='call' and t.get('fn') in (REF,REL)
    keys,R=relevance(f,is_rule_event)
    def on_event(ev,env,b):
        t=ev['e']
        if t.get('k')=='call' and t.get('fn')==REF and key(t)+ev['loc'] not in asg_calls:
            a=key(t['a'][0]); e=env.copy(); e.ts['ref:'+a]=e.ts.get('ref:'+a,0)+1; return [e]
        if t.get('k')=='call' and t.get('fn')==REL:
            a=key(t['a'][0])
            if env.ts.get('ref:'+a,0)>0:
                e=env.copy(); e.ts['ref:'+a]-=1
                if e.ts['ref:'+a]==0: del e.ts['ref:'+a]
                return [e]
            return None
        return [apply_assign_kills(ev,env,R)]
    def on_exit(env):
        for k,v in env.ts.items():
            if k.startswith('ref:') and v>0: reports.append((f['name'],'exit','temporary reference on %s not released (count %d)'%(k[4:],v)))
    try: solve(f,Env(),on_event,on_exit,keys)
    except Budget: reports.append((f['name'],'BUDGET',''))
print('statement-form references:',inst)
for r in sorted(set(reports)): print('V',r)
