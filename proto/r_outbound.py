import sys; sys.path.insert(0, '/tmp/exp/proto')
from core import *
P = Prog('/tmp/exp/proto/facts_asbuilt'); F = P.funcs
for name in ('coap_print_link','coap_print_wellknown_lkd'):
    f=F[name]; pd=postdoms(f); B=f['B']
    # transitive control dependence
    def ctrl_of(bid):
        out=[]
        for c in f['blocks']:
            ss=[s for s in c['succ'] if s is not None]
            if len(ss)<2 or not c.get('term') or c['term'].get('cond') is None: continue
            if any(bid in pd[s] for s in ss) and not (bid in pd[c['id']] and bid!=c['id']):
                arm='T' if bid in pd[ss[0]] else 'F'
                out.append((c['id'],arm,short(c['term']['cond'])))
        return out
    n=0;bad=0
    for b in f['blocks']:
        for ev in b['elems']:
            t=ev['e']
            if t.get('k')=='asg' and t['op']=='=':
                l=strip(t['l'])
                if l.get('k')=='un' and l['op']=='*':
                    inner=strip(l['e'])
                    base=inner['e'] if inner.get('k')=='un' else inner
                    bs=strip(base)
                    if bs.get('k')=='un' and bs['op']=='*': bs=strip(bs['e'])   # *(*bufp)++ style
                    if bs.get('k')=='var' and bs.get('pt') in('unsigned char','uint8_t','char'):
                        n+=1
                        cs=[]; seen=set(); wk=[b['id']]
                        while wk:
                            x=wk.pop()
                            for c in ctrl_of(x):
                                if c[0] not in seen: seen.add(c[0]); cs.append(c); wk.append(c[0])
                        guard=[c for c in cs if '<' in c[2] and c[1]=='T']
                        print(name,ev['loc'].split(':')[-1],short(t)[:40],'guards:',[c[2] for c in guard])
                        if not guard: bad+=1
    print(name,'stores',n,'unguarded',bad)
