"""throw-away prototype: linear ownership of local PDU owners (R-OWN-PDU)"""
import json,glob,collections,sys
FD='/tmp/exp/proto/facts_asbuilt'
funcs={}
for fn in glob.glob(FD+'/*.json'):
    d=json.load(open(fn))
    for f in d['functions']:
        if f.get('nocfg'): continue
        if f['name'] in funcs and not f['main']: continue
        funcs[f['name']]=f
def strip(x):
    while x and x.get('k')=='cast': x=x.get('e')
    return x
def varid(x):
    x=strip(x)
    if x and x.get('k')=='var' and not x.get('g'): return x['id']
    return None
def isnullc(x):
    x=strip(x); return x is not None and (x.get('k')=='nullptr' or (x.get('k')=='int' and x.get('v')==0))
TYPE='coap_pdu_t'
CREATORS=set()
for n,f in funcs.items():
    if f['ret'].get('pt')=='struct '+TYPE or f['ret'].get('pt')==TYPE: CREATORS.add(n)
# getters that return borrowed pdus
BORROW_RET={'coap_async_get_pdu'}
CREATORS-=BORROW_RET
print('creators',sorted(CREATORS))
ALWAYS={'coap_delete_pdu':0,'coap_send_internal':1,'coap_send_lkd':1,'coap_send':1,'coap_send_large_lkd':1}
IFRET={'coap_send_pdu':(1,-3),'coap_session_delay_pdu':(1,-3)}
IFARG={'coap_send_q_block1':(2,3,1),'coap_send_q_block2':(5,6,1),'coap_send_q_blocks':(3,4,1)} # pdu idx, flag idx, flag value meaning consume
def analyze(name, owned_param=None):
    f=funcs[name]; B={b['id']:b for b in f['blocks']}
    pduvars=set()
    out=[]
    init={}
    if owned_param is not None:
        init[f['params'][owned_param]['id']]='O'
    # state: (frozenset((var,status)), frozenset((retvar,(K,eq))))
    start=(tuple(sorted(init.items())),())
    seen=set(); work=[(f['entry'],start)]; steps=0
    names={}
    for p in f['params']: names[p['id']]=p['n']
    def refine(cond, st, facts, truth):
        c=strip(cond)
        if c is None: return st,facts,True
        if c.get('k')=='un' and c.get('op')=='!': return refine(c['e'],st,facts,not truth)
        if c.get('k')=='asg' and c.get('op')=='=':  # (x = call()) used as condition
            return refine(c['l'],st,facts,truth)
        v=varid(c)
        if v is not None and v in st:
            s=st[v]
            if s=='M': st=dict(st); st[v]='O' if truth else 'N'
            elif s=='N' and truth: return st,facts,False
            elif s=='O' and not truth: return st,facts,False
            return st,facts,True
        if c.get('k')=='bin' and c.get('op') in ('==','!=','<','>=','<=','>'):
            l,r=strip(c['l']),strip(c['r'])
            for a,b in ((l,r),(r,l)):
                v=varid(a)
                if v is not None and v in st and isnullc(b) and c['op'] in ('==','!='):
                    isnull=(c['op']=='==')==truth
                    s=st[v]
                    if s=='M': st=dict(st); st[v]='N' if isnull else 'O'
                    elif s=='N' and not isnull: return st,facts,False
                    elif s=='O' and isnull: return st,facts,False
                    return st,facts,True
            # return-value facts
            v=varid(l)
            if v is not None and v in facts and strip(r).get('k')=='int':
                K,eq=facts[v]; rv=strip(r)['v']; op=c['op']
                if eq:
                    val={'==':K==rv,'!=':K!=rv,'<':K<rv,'>=':K>=rv,'<=':K<=rv,'>':K>rv}[op]
                    return st,facts,(val==truth)
                else:
                    if op=='==' and rv==K: return st,facts,(False==truth)
                    if op=='!=' and rv==K: return st,facts,(True==truth)
        return st,facts,True
    while work:
        bid,(stt,ft)=work.pop()
        if (bid,stt,ft) in seen: continue
        seen.add((bid,stt,ft)); steps+=1
        if steps>50000: out.append((name,f['loc'],'BUDGET')); break
        st=dict(stt); facts=dict(ft); b=B[bid]
        splits=None
        for e in b['elems']:
            t=e['e']; k=t.get('k')
            def setvar(v,val):
                old=st.get(v)
                if old in ('O','M') and val is not None: out.append((name,e['loc'],'overwrite of owned %s (leak)'%names.get(v,v)))
                if val is None: st.pop(v,None)
                else: st[v]=val
            def consume(x,loc,why):
                v=varid(x)
                if v is None or v not in st: return
                s=st[v]
                if s=='C': out.append((name,loc,'%s: %s already consumed (double consume/use after free)'%(why,names.get(v,v))))
                elif s in ('O','M'): st[v]='C'
            if k=='decl':
                for d in t['d']:
                    names[d['id']]=d['n']
                    if 'init' in d:
                        r=strip(d['init'])
                        if r.get('k')=='call' and r.get('fn') in CREATORS: st[d['id']]='M'
                        elif isnullc(r) and (d.get('pt') in (TYPE,'struct '+TYPE)): st[d['id']]='N'
            elif k=='asg' and t.get('op')=='=':
                lv=varid(t['l']); r=strip(t['r'])
                if lv is not None:
                    if r.get('k')=='call' and r.get('fn') in CREATORS: setvar(lv,'M')
                    elif isnullc(r) and lv in st:
                        if st[lv] in ('O','M'): out.append((name,e['loc'],'owned %s set to NULL (leak)'%names.get(lv,lv)))
                        st[lv]='N'
                    elif varid(r) is not None and varid(r) in st:
                        rvv=varid(r); setvar(lv,st[rvv]);
                        if st.get(lv) in('O','M'): st[rvv]='A'
                    elif lv in st and r.get('k')!='call': setvar(lv,None)
                    # record return-correlation
                    if r.get('k')=='call' and r.get('fn') in IFRET:
                        pi,K=IFRET[r['fn']]
                        pv=varid(r['a'][pi])
                        if pv in st and st[pv] in ('O','M'):
                            splits=(lv,K,pv)
                else:
                    # store into field / deref => escape
                    rv=varid(t['r'])
                    if rv is not None and st.get(rv) in ('O','M'): st[rv]='E'
            elif k=='call':
                fn=t.get('fn')
                if fn in ALWAYS and ALWAYS[fn]<len(t['a']): consume(t['a'][ALWAYS[fn]],e['loc'],fn)
                elif fn in IFARG:
                    pi,fi,fv=IFARG[fn]
                    if fi<len(t['a']) and strip(t['a'][fi]).get('k')=='int' and strip(t['a'][fi])['v']==fv: consume(t['a'][pi],e['loc'],fn)
                else:
                    # use-after-consume check on args
                    for a in t.get('a',[]):
                        v=varid(a)
                        if v is not None and st.get(v)=='C' and fn not in ('coap_delete_pdu',):
                            out.append((name,e['loc'],'use of consumed %s as argument of %s'%(names.get(v,v),fn)))
            elif k=='mem' and t.get('arrow'):
                v=varid(t['b'])
                if v is not None and st.get(v)=='C': out.append((name,e['loc'],'dereference of consumed %s'%names.get(v,v)))
            elif k=='ret':
                if 'e' in t:
                    v=varid(t['e'])
                    if v is not None and st.get(v) in ('O','M'): st[v]='E'
                    r=strip(t['e'])
                    if r and r.get('k')=='call' and r.get('fn') in IFRET:
                        pi,K=IFRET[r['fn']]; pv=varid(r['a'][pi])
                        if pv in st and st[pv] in('O','M'): st[pv]='R'  # returned correlation: caller decides
        if b.get('noret'): continue
        succ=b['succ']
        if bid==f['exit'] or not succ:
            for v,s in st.items():
                if s in ('O','M'): out.append((name,'exit','leak of %s (state %s)'%(names.get(v,v),s)))
            continue
        states=[(st,facts)]
        if splits:
            lv,K,pv=splits
            a=dict(st); a[pv]='E'; fa=dict(facts); fa[lv]=(K,True)
            bb=dict(st); fb=dict(facts); fb[lv]=(K,False)
            states=[(a,fa),(bb,fb)]
        term=b.get('term')
        for st2,f2 in states:
            if term and term.get('cond') is not None and len(succ)==2 and term.get('c')!='SwitchStmt':
                for s,truth in ((succ[0],True),(succ[1],False)):
                    if s is None: continue
                    ns,nf,feas=refine(term['cond'],st2,f2,truth)
                    if feas: work.append((s,(tuple(sorted(ns.items())),tuple(sorted(nf.items())))))
            else:
                for s in succ:
                    if s is not None: work.append((s,(tuple(sorted(st2.items())),tuple(sorted(f2.items())))))
    return out
rep=collections.OrderedDict()
targets=[n for n in funcs if funcs[n]['main']]
for n in sorted(targets):
    op=None
    if n in ALWAYS: op=ALWAYS[n]
    for r in analyze(n,op): rep[r]=1
for r in rep: print('V',r)
print(len(rep))
