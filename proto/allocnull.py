import json,glob,collections,sys
FD=sys.argv[1] if len(sys.argv)>1 else '/tmp/exp/proto/facts_asbuilt'
funcs={}
for fn in glob.glob(FD+'/*.json'):
    d=json.load(open(fn))
    for f in d['functions']:
        if f.get('nocfg'): continue
        key=f['name']
        if key in funcs and not f['main']: continue
        funcs[key]=f
def strip(x):
    while x and x.get('k')=='cast': x=x.get('e')
    return x
def varid(x):
    x=strip(x)
    if x and x.get('k')=='var' and not x.get('g'): return x['id']
    return None
SEED={'coap_malloc_type','coap_realloc_type','malloc','calloc','realloc'}
# may-return-NULL closure (prototype): returns pointer, has 'return NULL' or returns result of may-null call
maynull=set(SEED)
def returns(f):
    for b in f['blocks']:
        for e in b['elems']:
            if e['e'].get('k')=='ret' and 'e' in e['e']: yield e['e']['e']
def calls_in(f):
    for b in f['blocks']:
        for e in b['elems']:
            t=e['e']
            if t.get('k')=='call' and t.get('fn'): yield t['fn']
changed=True
while changed:
    changed=False
    for n,f in funcs.items():
        if n in maynull or not f['ret'].get('p'): continue
        cs=set(calls_in(f))
        if not (cs & maynull): continue
        rn=False
        for r in returns(f):
            r=strip(r)
            if r.get('k')=='nullptr' or (r.get('k')=='int' and r.get('v')==0): rn=True
            if r.get('k')=='call' and r.get('fn') in maynull: rn=True
        if rn:
            maynull.add(n); changed=True
print('may-return-NULL constructors:',len(maynull))
MEMFN={'memcpy':(0,1),'memset':(0,),'memmove':(0,1),'strcpy':(0,1),'strcat':(0,1),'strlen':(0,),'memcmp':(0,1)}
derefsum=collections.defaultdict(set)
retnull=set()  # fn -> set of param indexes dereferenced while maybe-null
def cond_refine(cond, st, truth):
    """return new state dict after assuming cond==truth; handles p, !p, p==NULL, p!=NULL"""
    c=strip(cond)
    if c is None: return st
    if c.get('k')=='un' and c.get('op')=='!':
        return cond_refine(c['e'], st, not truth)
    if c.get('k')=='cast' : return cond_refine(c['e'],st,truth)
    v=varid(c)
    if v is not None and v in st:
        st=dict(st); st[v]='N' if truth else 'Z'; return st
    if c.get('k')=='bin' and c.get('op') in ('==','!='):
        l,r=strip(c['l']),strip(c['r'])
        for a,b in ((l,r),(r,l)):
            v=varid(a)
            if v is not None and v in st and (b.get('k')=='nullptr' or (b.get('k')=='int' and b.get('v')==0)):
                isnull = (c['op']=='==')==truth
                st=dict(st); st[v]='Z' if isnull else 'N'; return st
    return st
def analyze(name, param_m=None):
    f=funcs[name]
    B={b['id']:b for b in f['blocks']}
    init={}
    if param_m is not None:
        init[f['params'][param_m]['id']]='M'
    out=[]
    seen=set(); work=[(f['entry'],tuple(sorted(init.items())))]
    steps=0
    while work:
        bid,stt=work.pop()
        if (bid,stt) in seen: continue
        seen.add((bid,stt)); steps+=1
        if steps>20000: out.append((name,f['loc'],'BUDGET')); break
        st=dict(stt); b=B[bid]
        for e in b['elems']:
            t=e['e']; k=t.get('k')
            def chk(x,why):
                v=varid(x)
                if v is not None and st.get(v)=='M':
                    out.append((name,e['loc'],why,v)); st[v]='N'
            if k=='mem' and t.get('arrow'): chk(t['b'],'->%s'%t['f'])
            elif k=='un' and t.get('op')=='*': chk(t['e'],'*deref')
            elif k=='sub': chk(t['b'],'[]')
            elif k=='call':
                fn=t.get('fn')
                if fn in MEMFN:
                    for i in MEMFN[fn]:
                        if i<len(t['a']): chk(t['a'][i],'arg%d of %s'%(i,fn))
                elif fn in derefsum:
                    for i in derefsum[fn]:
                        if i<len(t['a']): chk(t['a'][i],'arg%d of %s (derefs without test)'%(i,fn))
            if k=='asg' and t.get('op')=='=':
                v=varid(t['l']); r=strip(t['r'])
                if v is not None:
                    if r.get('k')=='call' and r.get('fn') in maynull: st[v]='M'
                    elif varid(r) in st: st[v]=st[varid(r)]
                    elif v in st: del st[v]
            if k=='ret' and 'e' in t:
                rv=varid(t['e'])
                if rv is not None and st.get(rv) in ('M','Z'): retnull.add(name)
                rr=strip(t['e'])
                if rr and rr.get('k')=='call' and rr.get('fn') in maynull: retnull.add(name)
            if k=='decl':
                for d in t['d']:
                    if 'init' in d:
                        r=strip(d['init'])
                        if r.get('k')=='call' and r.get('fn') in maynull: st[d['id']]='M'
                        elif varid(r) in st: st[d['id']]=st[varid(r)]
        if b.get('noret'): continue
        succ=b['succ']; term=b.get('term')
        if term and term.get('cond') is not None and len(succ)==2 and term.get('c')!='SwitchStmt':
            for s,truth in ((succ[0],True),(succ[1],False)):
                if s is not None: work.append((s,tuple(sorted(cond_refine(term['cond'],st,truth).items()))))
        else:
            for s in succ:
                if s is not None: work.append((s,tuple(sorted(st.items()))))
    return out
# closure of may-return-NULL by analysis
for it in range(6):
    before=len(maynull)
    for n,f in funcs.items():
        if f['ret'].get('p') and n not in maynull:
            analyze(n)
    maynull |= retnull
    if len(maynull)==before: break
print('may-return-NULL after analysis closure:',len(maynull), sorted(maynull)[:200])
# summaries
for it in range(3):
    for n,f in funcs.items():
        for i,p in enumerate(f['params']):
            if p.get('p') and i not in derefsum[n]:
                r=analyze(n,i)
                if any(x[2]!='BUDGET' and x[3]==p['id'] for x in r if len(x)>3): derefsum[n].add(i)
print('functions that deref some param without test:',sum(1 for n in derefsum if derefsum[n]))
rep=set()
for n in sorted(funcs):
    if not funcs[n]['main']: continue
    for r in analyze(n): rep.add(r[:3])
for r in sorted(rep,key=lambda x:(x[1],x[2])): print('V',r)
print(len(rep),'reports')
