import sys; sys.path.insert(0, '/tmp/exp/proto')
from core import *
P = Prog('/tmp/exp/proto/facts_asbuilt'); F = P.funcs
FIELDS={'last_seq','sliding_window','initial_state','rollback_last_seq','rollback_sliding_window'}
print('--- writers of replay state')
for f in P.main_funcs():
    for b in f['blocks']:
        for ev in b['elems']:
            t=ev['e']; l=None
            if t.get('k')=='asg': l=strip(t['l'])
            if t.get('k')=='un' and t.get('op') in('++','--'): l=strip(t['e'])
            if l and l.get('k')=='mem' and l['f'] in FIELDS and 'recipient' in l.get('rec',''):
                print(f['name'],ev['loc'].split('/')[-1],short(t)[:80])
print('--- snapshot/restore completeness')
val=F['oscore_validate_sender_seq']; rb=F['oscore_roll_back_seq']
written=set(); snap={}
for b in val['blocks']:
    for ev in b['elems']:
        t=ev['e']
        if t.get('k')=='asg':
            l=strip(t['l'])
            if l.get('k')=='mem':
                if l['f'].startswith('rollback_'):
                    r=strip(t['r'])
                    if r.get('k')=='mem': snap[r['f']]=l['f']
                else: written.add(l['f'])
print('written by validate:',sorted(written),'snapshotted:',snap)
for fld in sorted(written):
    if fld not in snap: print('V: field %s written by validate has no snapshot'%fld)
# restore on every path: must-assign analysis in roll_back
def must_assign(f,field):
    ok=[True]
    def on_event(ev,env,b):
        t=ev['e']
        if t.get('k')=='asg' and strip(t['l']).get('k')=='mem' and strip(t['l'])['f']==field and strip(t['r']).get('k')=='mem' and strip(t['r'])['f']==snap.get(field):
            e=env.copy(); e.ts['done']=1; return [e]
        return None
    exits=[]
    solve(f,Env(),on_event,lambda e: exits.append(e.ts.get('done',0)),set())
    return all(exits),exits
for fld in snap:
    print('restore of',fld,'on every path of roll_back:',must_assign(rb,fld))
