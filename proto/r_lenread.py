import sys; sys.path.insert(0, '/tmp/exp/proto')
from core import *
P = Prog('/tmp/exp/proto/facts_asbuilt'); F = P.funcs
PAIRS={'check_segment':('s','length'),'decode_segment':('seg','length'),'dots':('s','len'),'strnchr':('s','len')}
reports=[]; reads=0
for name,(cur,ln) in PAIRS.items():
    f=F[name]
    ids={p['n']:'v%d'%p['id'] for p in f['params']}
    C=ids[cur]; L=ids[ln]
    keys=set(b['id'] for b in f['blocks'] if b.get('term') and b['term'].get('cond') is not None)
    def lbL(env):
        lo,hi,ex=int_fact(env,L)
        if lo==-INF: lo=0            # unsigned
        if lo==0 and 0 in ex: lo=1
        return lo
    def on_event(ev,env,b):
        global reads
        t=ev['e']; k=t.get('k'); d=env.ts.get('d',0)
        # reads
        if k=='sub' and ap(t['b'])==C:
            i=const_int(t['i'])
            if i is not None:
                reads+=1
                if lbL(env)-d < i+1: reports.append((name,ev['loc'],'read %s[%d] needs %d available, proven %d (lb(%s)=%d, lead=%d)'%(cur,i,i+1,lbL(env)-d,ln,lbL(env),d)))
            return None
        if k=='un' and t.get('op')=='*' and ap(t['e'])==C:
            reads+=1
            if lbL(env)-d < 1: reports.append((name,ev['loc'],'read *%s needs 1 available, proven %d'%(cur,lbL(env)-d)))
            return None
        # cursor / length updates
        def upd_cursor(K): e=env.copy(); e.ts['d']=d+K; return [e]
        def upd_len(K):
            e=env.copy(); lo,hi,ex=int_fact(env,L); e.ints[L]=(max(lo,0)-K if lo!=-INF else -K, hi-K if hi!=INF else INF, frozenset()) ; e.ts['d']=d-K
            if 0 in ex and lo in (0,-INF): e.ints[L]=(1-K,e.ints[L][1],frozenset())
            return [e]
        if k=='un' and t.get('op') in ('++','--'):
            a=ap(t['e'])
            if a==C: return upd_cursor(1 if t['op']=='++' else -1)
            if a==L: return upd_len(1 if t['op']=='--' else -1)
        if k=='asg' and t.get('op') in ('+=','-='):
            a=ap(t['l']); K=const_int(t['r'])
            if K is not None:
                if a==C: return upd_cursor(K if t['op']=='+=' else -K)
                if a==L: return upd_len(K if t['op']=='-=' else -K)
        if k=='asg' and ap(t['l']) in (C,L): 
            e=env.copy(); e.kill(ap(t['l'])); e.ts['d']=0; return [e]
        return None
    # special: condition `length--` (post-decrement inside condition) : the solver assumes on the un node -> treat in assume via ap? handle by pre-processing: not needed for prototype except decode_segment
    solve(f,Env(ts={'d':0}),on_event,lambda e:None,keys)
print('lookahead/cursor reads checked (dynamic)',reads)
for r in sorted(set(reports)): print('V',r)
