import sys; sys.path.insert(0, '/tmp/exp/proto')
from core import *
P = Prog('/tmp/exp/proto/facts_asbuilt'); F = P.funcs
COUNTERS={'partial_read','hdr_ofs','http_ofs','data_ofs','partial_write'}
def counter_in(t):
    for y in walk(t):
        if isinstance(y,dict) and y.get('k')=='mem' and y.get('f') in COUNTERS: return ap(y)
    return None
def nkey(t):
    return key(strip(t))
reports=[]; transfers=0
for name in ('coap_read_session','coap_ws_read','coap_ws_rd_http_header','coap_write_session'):
    f=F[name]
    def is_rule_event(ev):
        t=ev['e']
        if t.get('k')=='call' and (t.get('fn')=='memcpy' or t.get('fn') is None): return True
        if t.get('k') in ('asg',) and counter_in(t['l']): return True
        return False
    keys,R=relevance(f,is_rule_event)
    def on_event(ev,env,b):
        global transfers
        t=ev['e']; k=t.get('k')
        if k=='call' and t.get('fn')=='memcpy':
            c=counter_in(t['a'][0])
            if c:
                transfers+=1
                if env.ts.get('pend:'+c): reports.append((name,ev['loc'],'second transfer at %s while previous advance pending'%c))
                e=env.copy(); e.ts['pend:'+c]=nkey(t['a'][2]); e.ts['at:'+c]=ev['loc']; return [e]
            return None
        if k=='asg':
            # result = l_read(session, &buf[C], cap)
            r=strip(t['r'])
            if r.get('k')=='call' and r.get('fn') is None and len(r['a'])==3:
                c=counter_in(r['a'][1])
                if c:
                    transfers+=1
                    e=env.copy(); e.ts['pend:'+c]=nkey(t['l']); e.ts['at:'+c]=ev['loc']; return [e]
            c=None
            l=strip(t['l'])
            if l.get('k')=='mem' and l.get('f') in COUNTERS: c=ap(l)
            if c:
                pend=env.ts.get('pend:'+c)
                if t['op']=='+=':
                    if pend is None: return None
                    if nkey(t['r'])!=pend:
                        reports.append((name,ev['loc'],'%s advanced by %s but %s bytes were transferred at %s'%(short(t['l']),short(t['r']),pend,env.ts.get('at:'+c))))
                    e=env.copy(); del e.ts['pend:'+c]; e.ts.pop('at:'+c,None); return [e]
                if t['op']=='=':
                    e=env.copy(); e.ts.pop('pend:'+c,None); e.ts.pop('at:'+c,None); return [e]
        return [apply_assign_kills(ev,env,R)]
    def on_exit(env):
        for k2,v in env.ts.items():
            if k2.startswith('pend:'): reports.append((name,'exit','transfer at %s (%s bytes) never accounted in %s'%(env.ts.get('at:'+k2[5:]),v,k2[5:])))
    solve(f,Env(),on_event,on_exit,keys)
print('transfers seen (dynamic)',transfers)
for r in sorted(set(reports)): print('V',r)
