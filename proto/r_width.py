import sys; sys.path.insert(0, '/tmp/exp/proto')
from core import *
P = Prog('/tmp/exp/proto/facts_asbuilt'); F = P.funcs
def trange(t):
    w=t.get('w'); 
    if w is None: return (-INF,INF)
    return (-(1<<(w-1)),(1<<(w-1))-1) if t.get('s') else (0,(1<<w)-1)
def ivl(t,env):
    """interval of expression t in its own (promoted) type, before any narrowing store"""
    k=t.get('k')
    if k=='cast':
        lo,hi=ivl(t['e'],env); tl,th=trange(t)
        if lo>=tl and hi<=th: return (lo,hi)
        return (tl,th)        # truncation/wrap on explicit or implicit cast
    if k=='int': return (t['v'],t['v'])
    a=env.canon(ap(t)) if k in('var','mem','sub','un') else None
    if a and a in env.ints:
        lo,hi,ex=env.ints[a]; tl,th=trange(t); return (max(lo,tl),min(hi,th))
    if k in('var','mem','sub') or (k=='un' and t.get('op')=='*'): return trange(t)
    if k=='bin':
        op=t['op']; l=ivl(t['l'],env); r=ivl(t['r'],env)
        if op=='+': return (l[0]+r[0],l[1]+r[1])
        if op=='-': return (l[0]-r[1],l[1]-r[0])
        if op=='&':
            if r[0]==r[1] and r[0]>=0: return (0,min(r[1], l[1] if l[0]>=0 else r[1]))
            if l[0]==l[1] and l[0]>=0: return (0,l[1])
        if op=='<<' and r[0]==r[1] and l[0]>=0: return (l[0]<<r[0], l[1]<<r[0])
        if op=='>>' and r[0]==r[1] and l[0]>=0: return (l[0]>>r[0], l[1]>>r[0])
        if op=='*' and l[0]>=0 and r[0]>=0: return (l[0]*r[0],l[1]*r[1])
        if op in('==','!=','<','<=','>','>=','&&','||'): return (0,1)
    if k=='cond':
        x=ivl(t['x'],env); y=ivl(t['y'],env); return (min(x[0],y[0]),max(x[1],y[1]))
    return trange(t)
reports=[]; sites=[]
def analyze(fname, fields):
    f=F[fname]
    def tracked(l):
        l=strip(l); return l.get('k')=='mem' and l['f'] in fields and l.get('w',64)<=16 and not l.get('s')
    def is_rule_event(ev):
        t=ev['e']
        if t.get('k')=='asg' and tracked(t['l']): return True
        if t.get('k')=='ret': return True
        return False
    extra=set()
    for b in f['blocks']:
        for ev in b['elems']:
            t=ev['e']
            if t.get('k')=='asg' and tracked(t['l']): extra.add(ap(t['l']))
    keys,R=relevance(f,is_rule_event,extra_aps=extra)
    keys=set(b['id'] for b in f['blocks'] if b.get('term') and b['term'].get('cond') is not None)  # small function: track all
    def on_event(ev,env,b):
        t=ev['e']; k=t.get('k')
        if k=='asg' and tracked(t['l']):
            a=ap(t['l']); w=strip(t['l'])['w']; mx=(1<<w)-1
            if t['op']=='=': pre=ivl(strip_impl(t['r']),env)
            else:
                cur=ivl(strip(t['l']),env); r=ivl(t['r'],env)
                pre={'+=':(cur[0]+r[0],cur[1]+r[1]),'-=':(cur[0]-r[1],cur[1]-r[0])}.get(t['op'],(-INF,INF))
            sites.append((fname,ev['loc'].split('/')[-1],short(t)[:60],pre))
            e=env.copy(); e.kill(a)
            if env.ts.get('pend:'+a): reports.append((fname,ev['loc'],'%s overwritten while an earlier wrap is unguarded'%short(t['l'])))
            if pre[0]>=0 and pre[1]<=mx: e.ints[a]=(pre[0],pre[1],frozenset()); e.ts.pop('pend:'+a,None)
            else: e.ints[a]=(0,mx,frozenset()); e.ts['pend:'+a]=(pre[0],pre[1],w,ev['loc'])
            return [e]
        if k=='ret':
            v=const_int(t.get('e')) if 'e' in t else None
            for kk,p in env.ts.items():
                if kk.startswith('pend:') and v!=0:
                    reports.append((fname,p[3],'store of range [%s,%s] into %d-bit field %s can wrap and no wrap guard precedes the non-zero return at %s'%(p[0],p[1],p[2],kk[5:],ev['loc'].split(':')[-1])))
            return None
        return [apply_assign_kills(ev,env,None)]
    # wrap-guard recognition happens at branches: emulate by post-processing assume: we need hook -> wrap solve's assume via relevant conds: do it in on_event? use a trick: after each block, nothing. Instead handle in a custom loop: monkeypatch assume
    import core
    orig=core.assume
    def my_assume(cond,truth,env,prog=None):
        e=orig(cond,truth,env)
        if e is None: return None
        c=strip(cond)
        if c.get('k')=='bin' and c['op'] in('<','<='):
            a=env.canon(ap(c['l'])); K=const_int(c['r'])
            p=env.ts.get('pend:'+str(a))
            if p and K is not None:
                t_=K if c['op']=='<' else K+1
                lo,hi,w,_=p
                if hi-(1<<w) < t_ <= lo:
                    e=e.copy()
                    if truth: e.ts['rej:'+a]=1      # rejecting arm: must return 0 (checked by ret: v!=0 with pend still set)
                    else:
                        e.ts.pop('pend:'+a,None); e.ints[a]=(lo,(1<<w)-1,frozenset())
        return e
    core.assume=my_assume; globals()['assume']=my_assume
    import types
    solve.__globals__['assume']=my_assume
    try: solve(f,Env(),on_event,lambda e:None,keys)
    finally: solve.__globals__['assume']=orig
def strip_impl(t):
    # drop the implicit narrowing cast at the top of an assignment rhs (that is the store itself)
    while t.get('k')=='cast' and not t.get('ex'): t=t['e']
    return t
analyze('coap_opt_parse',{'delta','length'})
analyze('coap_option_next',{'number'})
analyze('next_option_safe',{'delta'})
for s_ in sites: print('site',s_)
for r in sorted(set(reports)): print('V',r)
