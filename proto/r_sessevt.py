import sys; sys.path.insert(0, '/tmp/exp/proto')
from core import *
P = Prog('/tmp/exp/proto/facts_asbuilt'); F = P.funcs
DEL=None; NEW=None
# find enum values
for f in F.values():
    for b in f['blocks']:
        for ev in b['elems']:
            for y in walk(ev['e']):
                if isinstance(y,dict) and y.get('en')=='COAP_EVENT_SERVER_SESSION_DEL': DEL=y['v']
                if isinstance(y,dict) and y.get('en')=='COAP_EVENT_SERVER_SESSION_NEW': NEW=y['v']
print('DEL',DEL,'NEW',NEW)
reports=[]; sites=0
for f in P.main_funcs():
    if f['name']=='coap_session_free': continue
    has=any(ev['e'].get('k')=='call' and ev['e'].get('fn')=='coap_session_free' for b in f['blocks'] for ev in b['elems'])
    if not has: continue
    def is_rule_event(ev):
        t=ev['e']; return t.get('k')=='call' and t.get('fn') in ('coap_session_free','coap_handle_event_lkd','coap_make_session')
    keys,R=relevance(f,is_rule_event)
    def on_event(ev,env,b):
        global sites
        t=ev['e']
        if t.get('k')=='call' and t.get('fn')=='coap_handle_event_lkd':
            evn=const_int(t['a'][1]); s=ap(t['a'][2])
            if evn==DEL and s: e=env.copy(); e.ts['del:'+s]=1; return [e]
            if evn==NEW and s: e=env.copy(); e.ts['new:'+s]=1; return [e]
            return None
        if t.get('k')=='asg' and strip(t['r']).get('k')=='call' and strip(t['r']).get('fn')=='coap_make_session':
            s=ap(t['l']); e=env.copy(); e.kill(s); e.ts['fresh:'+s]=1; return [e]
        if t.get('k')=='call' and t.get('fn')=='coap_session_free':
            s=ap(t['a'][0]); sites+=1
            ok = env.ts.get('del:'+s) or (env.ts.get('fresh:'+s) and not env.ts.get('new:'+s))
            # client sessions exempt: atom session->type == CLIENT
            tfact=env.ints.get(s+'->type')
            if not ok and tfact and tfact[0]==tfact[1]==0: ok=True   # COAP_SESSION_TYPE_CLIENT? value checked below
            if not ok: reports.append((f['name'],ev['loc'],'coap_session_free(%s) without SERVER_SESSION_DEL on this path; facts=%s'%(short(t['a'][0]),{k:v for k,v in env.ints.items() if 'type' in k})))
            return None
        e=apply_assign_kills(ev,env,R)
        return [e]
    solve(f,Env(),on_event,lambda e:None,keys)
print('free sites visited',sites)
for r in sorted(set(reports)): print('V',r)
