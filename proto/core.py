"""throw-away prototype of the analysis core (exploration for DESIGN.md)"""
import json, glob, collections, sys

# ---------------------------------------------------------------- loading
class Prog:
    def __init__(self, factsdir):
        self.funcs = {}
        self.records = {}
        for fn in sorted(glob.glob(factsdir + '/*.json')):
            d = json.load(open(fn))
            self.records.update(d.get('records', {}))
            for f in d['functions']:
                if f.get('nocfg'): continue
                if f['name'] in self.funcs and not f['main']: continue
                f['B'] = {b['id']: b for b in f['blocks']}
                self.funcs[f['name']] = f
    def main_funcs(self):
        return [f for f in self.funcs.values() if f['main']]

def strip(x):
    while isinstance(x, dict) and x.get('k') == 'cast': x = x.get('e')
    return x
def walk(x):
    if isinstance(x, dict):
        yield x
        for v in x.values(): yield from walk(v)
    elif isinstance(x, list):
        for v in x: yield from walk(v)
def is_null_const(x):
    x = strip(x)
    return isinstance(x, dict) and (x.get('k') == 'nullptr' or (x.get('k') == 'int' and x.get('v') == 0))
def const_int(x):
    x = strip(x)
    if isinstance(x, dict) and x.get('k') == 'int' and isinstance(x.get('v'), int): return x['v']
    return None
def ap(x):
    """access path string or None"""
    x = strip(x)
    if not isinstance(x, dict): return None
    k = x.get('k')
    if k == 'var': return ('g:' + x['n']) if x.get('g') else 'v%d' % x['id']
    if k == 'mem':
        b = ap(x['b'])
        return None if b is None else b + ('->' if x['arrow'] else '.') + x['f']
    if k == 'un' and x.get('op') == '*':
        b = ap(x['e']); return None if b is None else '*' + b
    if k == 'un' and x.get('op') == '&':
        b = ap(x['e']); return None if b is None else '&' + b
    if k == 'sub':
        b = ap(x['b']); i = const_int(x['i'])
        return None if b is None else b + ('[%d]' % i if i is not None else '[]')
    return None
def short(t):
    t2 = t
    if not isinstance(t, dict): return str(t)
    k = t.get('k')
    if k == 'var': return t['n']
    if k == 'int': return t.get('en') or str(t['v'])
    if k == 'nullptr': return 'NULL'
    if k == 'mem': return short(t['b']) + ('->' if t['arrow'] else '.') + t['f']
    if k == 'call': return (t.get('fn') or '(*' + short(t.get('callee')) + ')') + '(' + ','.join(short(a) for a in t['a']) + ')'
    if k in ('bin', 'asg'): return '(' + short(t['l']) + t['op'] + short(t['r']) + ')'
    if k == 'un': return (short(t['e']) + t['op']) if t.get('post') else (t['op'] + short(t['e']))
    if k == 'cast': return ('(%s)' % t.get('t', '?') if t.get('ex') else '') + short(t['e'])
    if k == 'sub': return short(t['b']) + '[' + short(t['i']) + ']'
    if k == 'cond': return '(%s?%s:%s)' % (short(t['c']), short(t['x']), short(t['y']))
    if k == 'ret': return 'return ' + (short(t['e']) if 'e' in t else '')
    if k == 'decl': return 'decl ' + ','.join(d['n'] + ('=' + short(d['init']) if 'init' in d else '') for d in t['d'])
    if k == 'str': return '"%s"' % t.get('v', '')[:20]
    return k or '?'
def key(t):
    """structural key of a side-effect free expression (var ids, not names)"""
    t = strip(t)
    if not isinstance(t, dict): return str(t)
    k = t.get('k')
    if k == 'var': return ap(t)
    if k == 'int': return str(t['v'])
    if k == 'nullptr': return '0'
    if k == 'mem' or k == 'sub': return ap(t) or ('?' + short(t))
    if k == 'call': return (t.get('fn') or '(*)') + '(' + ','.join(key(a) for a in t['a']) + ')'
    if k in ('bin',): return '(' + key(t['l']) + t['op'] + key(t['r']) + ')'
    if k == 'un': return t['op'] + key(t['e'])
    return '?' + short(t)
def vars_of(t):
    return set(y['id'] for y in walk(t) if isinstance(y, dict) and y.get('k') == 'var' and not y.get('g'))
def has_side_effect(t):
    for y in walk(t):
        if isinstance(y, dict) and (y.get('k') in ('call', 'asg') or (y.get('k') == 'un' and y.get('op') in ('++', '--'))): return True
    return False

# ---------------------------------------------------------------- environment
class Env:
    """path state: ts (typestates), null (ap->'Z'/'N'), ints (ap->(lo,hi,excl)), atoms (key->bool), ret (callkey->(op,K))"""
    __slots__ = ('ts', 'null', 'ints', 'atoms', 'ret', 'alias')
    def __init__(s, ts=None, null=None, ints=None, atoms=None, ret=None, alias=None):
        s.ts = ts or {}; s.null = null or {}; s.ints = ints or {}; s.atoms = atoms or {}; s.ret = ret or {}; s.alias = alias or {}
    def copy(s): return Env(dict(s.ts), dict(s.null), dict(s.ints), dict(s.atoms), dict(s.ret), dict(s.alias))
    def freeze(s):
        return (tuple(sorted(s.ts.items())), tuple(sorted(s.null.items())), tuple(sorted((k, (v[0], v[1], tuple(sorted(v[2])))) for k, v in s.ints.items())),
                tuple(sorted(s.atoms.items())), tuple(sorted(s.ret.items())), tuple(sorted(s.alias.items())))
    def kill(s, a):
        """a written: drop facts on a and on paths through a"""
        for d in (s.null, s.ints):
            for k in [k for k in d if k == a or k.startswith(a + '->') or k.startswith(a + '.') or k.startswith(a + '[') or k == '*' + a]: del d[k]
        for k in [k for k in s.atoms if a in k]: del s.atoms[k]
        for k in [k for k, v in s.alias.items() if k == a or v == a or v.startswith(a + '->')]: del s.alias[k]
    def canon(s, a):
        return s.alias.get(a, a) if a else a

INF = float('inf')
def int_fact(env, a): return env.ints.get(a, (-INF, INF, frozenset()))

def assume(cond, truth, env, prog=None):
    """refine env by cond==truth; return env or None if infeasible. env is copied on write."""
    c = strip(cond)
    if not isinstance(c, dict): return env
    k = c.get('k')
    if k == 'un' and c.get('op') == '!': return assume(c['e'], not truth, env)
    if k == 'asg' and c.get('op') == '=': return assume(c['l'], truth, env)
    if k == 'int': return env if (c['v'] != 0) == truth else None
    if k == 'nullptr': return env if not truth else None
    if k == 'call':
        rc = env.ret.get(key(c))
        if rc:
            op, K = rc
            if op == 'eq': return env if ((K != 0) == truth) else None
            if op == 'nz': return env if truth else None
            if op == 'ne' and K == 0: return env if truth else None
        e = env.copy(); e.ret[key(c)] = ('nz', 0) if truth else ('eq', 0); return e
    a = env.canon(ap(c))
    if a is not None and k in ('var', 'mem', 'sub', 'un'):
        if c.get('p'):
            cur = env.null.get(a)
            want = 'N' if truth else 'Z'
            if cur and cur != want: return None
            e = env.copy(); e.null[a] = want; return e
        lo, hi, ex = int_fact(env, a)
        if truth:
            if lo == 0 and hi == 0: return None
            e = env.copy(); e.ints[a] = (lo, hi, frozenset(ex | {0})) if not (lo > 0 or hi < 0) else (lo, hi, ex); return e
        else:
            if lo > 0 or hi < 0 or 0 in ex: return None
            e = env.copy(); e.ints[a] = (0, 0, frozenset()); return e
    if k == 'bin' and c.get('op') in ('==', '!=', '<', '<=', '>', '>='):
        op = c['op']; l, r = strip(c['l']), strip(c['r'])
        if not truth: op = {'==': '!=', '!=': '==', '<': '>=', '<=': '>', '>': '<=', '>=': '<'}[op]
        # pointer vs NULL
        for x, y in ((l, r), (r, l)):
            a = env.canon(ap(x))
            if a is not None and is_null_const(y) and x.get('p') and op in ('==', '!='):
                want = 'Z' if op == '==' else 'N'; cur = env.null.get(a)
                if cur and cur != want: return None
                e = env.copy(); e.null[a] = want; return e
        # call result vs const
        for x, y, o in ((l, r, op), (r, l, {'<': '>', '<=': '>=', '>': '<', '>=': '<=', '==': '==', '!=': '!='}[op])):
            K = const_int(y)
            if K is None: continue
            if x.get('k') == 'call':
                rc = env.ret.get(key(x))
                if rc and rc[0] == 'eq':
                    v = rc[1]; ok = {'==': v == K, '!=': v != K, '<': v < K, '<=': v <= K, '>': v > K, '>=': v >= K}[o]
                    return env if ok else None
                if rc and rc[0] == 'ne' and rc[1] == K and o in ('==', '!='):
                    return env if o == '!=' else None
                e = env.copy()
                if o == '==': e.ret[key(x)] = ('eq', K)
                elif o == '!=': e.ret[key(x)] = ('ne', K)
                return e
            a = env.canon(ap(x))
            if a is None: continue
            lo, hi, ex = int_fact(env, a)
            if o == '==':
                if K < lo or K > hi or K in ex: return None
                lo = hi = K
            elif o == '!=':
                if lo == hi == K: return None
                ex = frozenset(ex | {K})
            elif o == '<': hi = min(hi, K - 1)
            elif o == '<=': hi = min(hi, K)
            elif o == '>': lo = max(lo, K + 1)
            elif o == '>=': lo = max(lo, K)
            if lo > hi: return None
            e = env.copy(); e.ints[a] = (lo, hi, ex); return e
    # opaque atom
    if not has_side_effect(c):
        kk = key(c)
        cur = env.atoms.get(kk)
        if cur is not None: return env if cur == truth else None
        e = env.copy(); e.atoms[kk] = truth; return e
    return env

# ---------------------------------------------------------------- solver
class Budget(Exception): pass

def join_env(a, b):
    """ESP merge: same typestate; keep only facts common to both"""
    e = Env(dict(a.ts))
    e.null = {k: v for k, v in a.null.items() if b.null.get(k) == v}
    for k, v in a.ints.items():
        w = b.ints.get(k)
        if w is None: continue
        lo, hi, ex = min(v[0], w[0]), max(v[1], w[1]), frozenset(v[2] & w[2])
        if lo == -INF and hi == INF and not ex: continue
        e.ints[k] = (lo, hi, ex)
    e.atoms = {k: v for k, v in a.atoms.items() if b.atoms.get(k) == v}
    e.ret = {k: v for k, v in a.ret.items() if b.ret.get(k) == v}
    e.alias = {k: v for k, v in a.alias.items() if b.alias.get(k) == v}
    return e

def solve(f, init_env, on_event, on_exit, relevant=None, max_steps=200000, key_aps=()):
    """ESP-style property simulation: per block one environment per distinct typestate;
    environments with the same typestate are joined (facts intersected)."""
    B = f['B']; IN = collections.defaultdict(dict); dirty = collections.defaultdict(set)
    def tsk(e): return (tuple(sorted(e.ts.items())), tuple((a, e.null.get(a)) for a in key_aps))
    def push(bid, e):
        k = tsk(e); cur = IN[bid].get(k)
        if cur is None: IN[bid][k] = e; dirty[bid].add(k); return True
        j = join_env(cur, e)
        if j.freeze() != cur.freeze(): IN[bid][k] = j; dirty[bid].add(k); return True
        return False
    push(f['entry'], init_env); work = [f['entry']]; steps = 0; exits = {}
    while work:
        bid = work.pop()
        ks = list(dirty[bid]); dirty[bid].clear()
        b = B[bid]
        for k in ks:
            env = IN[bid].get(k)
            if env is None: continue
            steps += 1
            if steps > max_steps: raise Budget(f['name'])
            envs = [env]
            for ev in b['elems']:
                nxt = []
                for e in envs:
                    r = on_event(ev, e, b)
                    if r is None: nxt.append(e)
                    else: nxt.extend(r)
                envs = nxt
                if not envs: break
            if not envs or b.get('noret'): continue
            succ = b['succ']
            if bid == f['exit'] or not succ:
                for e in envs: exits[e.freeze()] = e
                continue
            term = b.get('term'); out = []
            for e in envs:
                if term and term.get('c') == 'SwitchStmt' and term.get('cond') is not None:
                    a = e.canon(ap(term['cond'])) if (relevant is None or bid in relevant) else None
                    for s in succ:
                        if s is None: continue
                        lab = B[s].get('label'); e2 = e
                        if a and lab and lab.get('k') == 'case' and 'hi' not in lab:
                            lo, hi, ex = int_fact(e, a)
                            if lab['lo'] < lo or lab['lo'] > hi or lab['lo'] in ex: continue
                            e2 = e.copy(); e2.ints[a] = (lab['lo'], lab['lo'], frozenset())
                        out.append((s, e2))
                elif term and term.get('cond') is not None and len(succ) == 2:
                    cond = term['cond']; track = (bid in relevant) if relevant is not None else True
                    for s, truth in ((succ[0], True), (succ[1], False)):
                        if s is None: continue
                        if track:
                            e2 = assume(cond, truth, e)
                            if e2 is None: continue
                        else: e2 = e
                        out.append((s, e2))
                else:
                    for s in succ:
                        if s is not None: out.append((s, e))
            for s, e2 in out:
                if push(s, e2) and s not in work: work.append(s)
    for e in exits.values(): on_exit(e)
    return steps

def apply_assign_kills(ev, env, R=None):
    """generic kill for assignments / ++/-- / decl; returns env (copied if changed)"""
    t = ev['e']; k = t.get('k')
    tgt = None
    if k == 'asg': tgt = ap(t['l'])
    elif k == 'un' and t.get('op') in ('++', '--'): tgt = ap(t['e'])
    if tgt:
        e = env.copy(); e.kill(tgt)
        if R is not None and tgt not in R: return e
        if k == 'asg' and t.get('op') == '=':
            r = strip(t['r']); ra = ap(r)
            K = const_int(r)
            if is_null_const(r) and t['l'].get('p'): e.null[tgt] = 'Z'
            elif K is not None: e.ints[tgt] = (K, K, frozenset())
            elif ra and not tgt.startswith(ra):
                # copy facts + alias for simple locals
                if ra in env.null: e.null[tgt] = env.null[ra]
                if ra in env.ints: e.ints[tgt] = env.ints[ra]
                if tgt.startswith('v') and '->' not in tgt and '.' not in tgt: e.alias[tgt] = env.canon(ra)
            elif r.get('k') == 'call':
                rc = env.ret.get(key(r))
                if rc and rc[0] == 'eq': e.ints[tgt] = (rc[1], rc[1], frozenset())
                elif rc and rc[0] == 'ne': e.ints[tgt] = (-INF, INF, frozenset({rc[1]}))
                elif rc and rc[0] == 'nz':
                    if t['l'].get('p'): e.null[tgt] = 'N'
                    else: e.ints[tgt] = (-INF, INF, frozenset({0}))
        return e
    if k == 'decl':
        e = env
        for d in t['d']:
            if 'init' in d:
                a = 'v%d' % d['id']; r = strip(d['init']); e = e.copy(); e.kill(a)
                if R is not None and a not in R: continue
                K = const_int(r); ra = ap(r)
                if is_null_const(r) and d.get('p'): e.null[a] = 'Z'
                elif K is not None: e.ints[a] = (K, K, frozenset())
                elif ra:
                    if ra in env.null: e.null[a] = env.null[ra]
                    if ra in env.ints: e.ints[a] = env.ints[ra]
                    e.alias[a] = env.canon(ra)
        return e
    return env

# ---------------------------------------------------------------- relevance (ESP-style)
def postdoms(f):
    B = f['B']; ids = list(B); ex = f['exit']
    succ = {i: [s for s in B[i]['succ'] if s is not None] for i in ids}
    # blocks that cannot reach exit (noreturn) : treat as having exit successor
    pd = {i: set(ids) for i in ids}; pd[ex] = {ex}
    changed = True
    while changed:
        changed = False
        for i in ids:
            if i == ex or B[i].get('noret'): continue
            ss = succ[i] or [ex]
            new = set.intersection(*(pd[s] for s in ss)) | {i}
            if new != pd[i]: pd[i] = new; changed = True
    return pd
def aps_of(t):
    out = set()
    for y in walk(t):
        if isinstance(y, dict) and y.get('k') in ('var', 'mem', 'sub'):
            a = ap(y)
            if a: out.add(a)
    return out
def relevance(f, is_rule_event, extra_aps=()):
    """returns (relevant condition block ids, relevant aps): transitive control dependence of rule events,
    plus conditions sharing an access path, plus conditions that test the result of a rule event"""
    B = f['B']; pd = postdoms(f)
    branches = [b for b in f['blocks'] if len([s for s in b['succ'] if s is not None]) >= 2 and b.get('term') and b['term'].get('cond') is not None]
    def cd_of(e):
        out = set()
        for b in branches:
            ss = [s for s in b['succ'] if s is not None]
            if any(e in pd[s] for s in ss) and not (e in pd[b['id']] and e != b['id']): out.add(b['id'])
        return out
    evb = set(b['id'] for b in f['blocks'] if any(is_rule_event(ev) for ev in b['elems']))
    ctrl = set(); work = list(evb); seen = set()
    while work:
        e = work.pop()
        if e in seen: continue
        seen.add(e)
        for c in cd_of(e):
            if c not in ctrl: ctrl.add(c); work.append(c)
    # conditions that test the result of a rule-event call in the same block
    for b in branches:
        if any(is_rule_event(ev) and ev['e'].get('k') == 'call' for ev in b['elems']):
            cond = b['term']['cond']
            if any(isinstance(y, dict) and y.get('k') == 'call' for y in walk(cond)): ctrl.add(b['id'])
    R = set(extra_aps)
    for i in ctrl: R |= aps_of(B[i]['term']['cond'])
    keys = set()
    for b in branches:
        if b['id'] in ctrl or (aps_of(b['term']['cond']) & R): keys.add(b['id'])
    return keys, R
