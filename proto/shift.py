import json,glob,sys
sys.path.insert(0,'.')
from width import short
def walk(x):
    if isinstance(x,dict):
        yield x
        for v in x.values(): yield from walk(v)
    elif isinstance(x,list):
        for v in x: yield from walk(v)
seen=set()
for fn in sorted(glob.glob('/tmp/exp/proto/facts_asbuilt/*.json')):
    d=json.load(open(fn))
    for f in d['functions']:
        if not f['main'] or f.get('nocfg'): continue
        for b in f['blocks']:
            items=[e for e in b['elems']]
            if b.get('term') and b['term'].get('cond'): items.append({'loc':b['term']['loc'],'e':b['term']['cond']})
            for e in items:
                for x in walk(e['e']):
                    if x.get('k') in ('bin','asg') and x.get('op') in ('<<','>>','<<=','>>='):
                        r=x['r']
                        while r.get('k')=='cast': r=r['e']
                        if r.get('k')!='int':
                            key=(e['loc'],short(x))
                            if key in seen: continue
                            seen.add(key)
                            print(e['loc'],f['name'],short(x)[:110],'LW=',x['l'].get('w'))
print(len(seen))
