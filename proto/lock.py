import json,glob,collections,sys
FD=sys.argv[1] if len(sys.argv)>1 else '/tmp/exp/proto/facts_tsd'
funcs={}
for fn in glob.glob(FD+'/*.json'):
    d=json.load(open(fn))
    for f in d['functions']:
        if f.get('nocfg'): continue
        key=f['name']
        if key in funcs and not f['main']: continue
        funcs[key]=f
def walk(x):
    if isinstance(x,dict):
        yield x
        for v in x.values(): yield from walk(v)
    elif isinstance(x,list):
        for v in x: yield from walk(v)
def has_call(x,name):
    return any(y.get('k')=='call' and y.get('fn')==name for y in walk(x))
chk=set(); lockops=set()
for n,f in funcs.items():
    for b in f['blocks']:
        for e in b['elems']:
            if 'coap_lock_check_locked' in (e.get('mac') or []): chk.add(n)
            t=e['e']
            if t.get('k')=='call' and t.get('fn') in ('coap_lock_lock_func','coap_lock_unlock_func'): lockops.add(n)
api=set(n for n in lockops if funcs[n]['api'])
print('funcs',len(funcs),'api wrappers',len(api),'declared-locked',len(chk))
APPCB={'handler','response_handler','nack_handler','handle_event','ping_handler','pong_handler'}
def callee_field(t):
    c=t.get('callee')
    while c and c.get('k') in ('cast','un'): c=c.get('e')
    if c and c.get('k')=='mem': return c['f']
    if c and c.get('k')=='sub':
        b=c['b']
        while b and b.get('k')=='cast': b=b.get('e')
        if b and b.get('k')=='mem': return b['f']
    if c and c.get('k')=='var': return 'var:'+c['n']
    return None
summ={}  # name -> set of exit states for entry L
viol=[]
def analyze(name, entry, report=True):
    f=funcs[name]
    B={b['id']:b for b in f['blocks']}
    seen=set(); work=[(f['entry'],(entry,0))]
    exits=set()
    while work:
        bid,st=work.pop()
        if (bid,st) in seen: continue
        seen.add((bid,st))
        b=B[bid]
        lk,cb=st
        pend=False
        for e in b['elems']:
            t=e['e']
            if t.get('k')=='call':
                fn=t.get('fn')
                if fn=='coap_lock_lock_func':
                    if lk=='L' and cb==0 and report: viol.append((name,e['loc'],'lock while locked (in_callback==0)'))
                    pend=True
                elif fn=='coap_lock_unlock_func':
                    if lk=='U' and report: viol.append((name,e['loc'],'unlock while unlocked'))
                    if lk=='L' and cb==0: lk='U'
                elif fn in chk or fn in summ:
                    if lk=='U' and report: viol.append((name,e['loc'],'call of locked-precondition %s while unlocked'%fn))
                    if fn in summ and lk=='L':
                        ex=summ[fn]
                        if ex=={'F'}: lk='F'
                elif fn in ('select','epoll_wait','pthread_mutex_lock'):
                    if lk=='L' and report: viol.append((name,e['loc'],'blocking %s while locked'%fn))
                elif fn is None:
                    fld=callee_field(t)
                    if fld in APPCB or (fld and fld.startswith('var:h')):
                        if lk=='L' and cb==0 and report: viol.append((name,e['loc'],'app callback via %s with lock held and in_callback==0'%fld))
            elif t.get('k')=='un' and t.get('op') in ('++','--'):
                x=t['e']
                if x.get('k')=='mem' and x.get('f')=='in_callback':
                    cb = cb+1 if t['op']=='++' else cb-1
        succ=b['succ']
        if b.get('noret'): continue
        if bid==f['exit'] or not succ:
            exits.add((lk,cb)); continue
        term=b.get('term')
        if pend:
            cond=term.get('cond') if term else None
            if cond and has_call(cond,'coap_lock_lock_func') and len(succ)==2:
                neg = cond.get('k')=='un' and cond.get('op')=='!'
                tstate,fstate=('F','L') if neg else ('L','F')
                # nested lock inside callback keeps L
                if succ[0] is not None: work.append((succ[0],(tstate if not (lk=='L') else 'L',cb)))
                if succ[1] is not None: work.append((succ[1],(fstate if not (lk=='L') else 'L',cb)))
                continue
            lk='L'
        for s in succ:
            if s is not None: work.append((s,(lk,cb)))
    return exits
# summaries for non-api functions with lock ops (entry L)
nonapi=[n for n in lockops if n not in api]
for it in range(3):
    for n in nonapi:
        ex=analyze(n,'L',report=False)
        summ[n]=set(l for l,c in ex)
print('summaries',{n:sorted(s) for n,s in summ.items()})
for n in sorted(api):
    ex=analyze(n,'U')
    bad=[e for e in ex if e[0]=='L' or e[1]!=0]
    if bad: viol.append((n,funcs[n]['loc'],'wrapper exits in %s'%sorted(ex)))
for n in sorted(chk|set(nonapi)):
    if n in api: continue
    ex=analyze(n,'L')
    bad=[e for e in ex if e[0]=='U' or e[1]!=0]
    if bad: viol.append((n,funcs[n]['loc'],'locked function exits in %s'%sorted(ex)))
seen=set()
for v in viol:
    if v in seen: continue
    seen.add(v); print('V',v)
print(len(seen),'reports')

# --- exported non-wrapper functions entered unlocked
exported=set(l.strip() for l in open('/repo/libcoap-3.sym') if l.strip())
viol2=[]
viol.clear()
cnt=0
for n in sorted(exported):
    if n not in funcs or n in api or n in chk: continue
    cnt+=1
    analyze(n,'U')
s2=set(viol)
print('exported non-wrapper non-declared functions analysed from U:',cnt)
for v in sorted(s2): print('V2',v)

# --- inferred locked-precondition closure
need=set(chk)
def calls_unlocked_need(n):
    # does n, entered U, reach a call to a need-function while U?
    global viol
    viol=[]
    saved=set(chk)
    chk.clear(); chk.update(need)
    analyze(n,'U')
    chk.clear(); chk.update(saved)
    return [v for v in viol if 'locked-precondition' in v[2]]
changed=True; why={}
while changed:
    changed=False
    for n in funcs:
        if n in need or n in api: continue
        r=calls_unlocked_need(n)
        if r:
            need.add(n); why[n]=r[0]; changed=True
print('inferred need-lock functions:',len(need),'(declared',len(chk),')')
bad=[n for n in sorted(need) if n in exported and n not in chk]
print('exported functions that need the lock but neither declare nor take it:',len(bad))
for n in bad: print('  ',n, why.get(n))
bad2=[n for n in sorted(chk) if n in exported]
print('exported functions that DECLARE locked precondition (callable by apps unlocked):',len(bad2), bad2)
