import sys; sys.path.insert(0, '/tmp/exp/proto')
from core import *
P = Prog('/tmp/exp/proto/facts_asbuilt'); F = P.funcs
f=F['coap_oscore_new_pdu_encrypted_lkd']; B=f['B']
# roles
outer=None; inner=None
for b in f['blocks']:
    for ev in b['elems']:
        t=ev['e']
        if t.get('k')=='ret' and 'e' in t and strip(t['e']).get('k')=='var': outer=strip(t['e'])['n'] if not is_null_const(t['e']) else outer
        if t.get('k')=='call' and t.get('fn')=='cose_encrypt0_set_plaintext':
            for y in walk(t['a'][1]):
                if isinstance(y,dict) and y.get('k')=='var': inner=y['n']
print('outer role:',outer,'inner role:',inner)
def doms(f):
    B=f['B']; ids=list(B); en=f['entry']
    pred={i:[] for i in ids}
    for i in ids:
        for y in B[i]['succ']:
            if y is not None: pred[y].append(i)
    d={i:set(ids) for i in ids}; d[en]={en}
    ch=True
    while ch:
        ch=False
        for i in ids:
            if i==en or not pred[i]: continue
            new=set.intersection(*(d[p] for p in pred[i]))|{i}
            if new!=d[i]: d[i]=new; ch=True
    return d
D=doms(f)
sw=[b for b in f['blocks'] if b.get('term') and b['term'].get('c')=='SwitchStmt' and 'number' in short(b['term'].get('cond'))]
print('switches on option number:',len(sw))
res={}
for s in sw:
    # join point = immediate postdominator of switch block
    pd=postdoms(f)
    for succ in s['succ']:
        if succ is None: continue
        lab=B[succ].get('label')
        # collect labels of fallthrough chain: labels are on blocks; a case with no body falls to next block
        seen=set(); work=[succ]; calls=set()
        stop=set.intersection(*[pd[y] for y in s['succ'] if y is not None])
        while work:
            x=work.pop()
            if x in seen or x in stop: continue
            seen.add(x)
            for ev in B[x]['elems']:
                t=ev['e']
                if t.get('k')=='call' and t.get('fn') in('coap_insert_option','coap_add_option','coap_add_option_internal'):
                    a0=strip(t['a'][0]); calls.add(a0.get('n'))
            for y in B[x]['succ']:
                if y is not None and y not in D[x]: work.append(y)
        key_=('default' if lab and lab['k']=='default' else lab['lo'] if lab else '?')
        res[key_]=sorted(calls)
for k,v in sorted(res.items(),key=lambda x:str(x[0])): print(k,v)
