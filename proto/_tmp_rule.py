import sys; sys.path.insert(0, '/tmp/exp/proto')
from core import *
P = Prog('/tmp/exp/proto/facts_fix'); F = P.funcs
class Unfold(Exception): pass
def ev(t,env):
    t=strip(t); k=t.get('k')
    if k=='int': return t['v']
    if k=='var':
        if t['n'] in env: return env[t['n']]
        raise Unfold(short(t))
    if k=='bin':
        op=t['op']
        if op=='&&': return int(bool(ev(t['l'],env)) and bool(ev(t['r'],env)))
        if op=='||': return int(bool(ev(t['l'],env)) or bool(ev(t['r'],env)))
        l=ev(t['l'],env); r=ev(t['r'],env)
        return {'==':int(l==r),'!=':int(l!=r),'<':int(l<r),'<=':int(l<=r),'>':int(l>r),'>=':int(l>=r),'+':l+r,'-':l-r,'&':l&r,'|':l|r}[op]
    if k=='un' and t['op']=='!': return int(not ev(t['e'],env))
    if k=='call' and t.get('fn') in F: return call(t['fn'],[ev(a,env) for a in t['a']])
    raise Unfold(short(t))
def call(fn,args):
    f=F[fn]; env={p['n']:a for p,a in zip(f['params'],args)}
    rets=[e['e'] for b in f['blocks'] for e in b['elems'] if e['e'].get('k')=='ret']
    if len(rets)!=1: raise Unfold('multiple returns in '+fn)
    return ev(rets[0]['e'],env)
for fn,sep in (('is_unescaped_in_path','/'),('is_unescaped_in_query','&')):
    U=[c for c in range(256) if call(fn,[c])]
    print(fn,'unescaped set size',len(U),''.join(chr(c) for c in U))
    for ch in (sep,'%'):
        print('   ',repr(ch),'in unescaped set:',ord(ch) in U, '=> VIOLATION' if ord(ch) in U else 'ok')
