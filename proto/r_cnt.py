import sys; sys.path.insert(0, '/tmp/exp/proto')
from core import *
P = Prog('/tmp/exp/proto/facts_asbuilt'); F = P.funcs
# writers of con_active
for f in P.main_funcs():
    pd=None
    for b in f['blocks']:
        for ev in b['elems']:
            t=ev['e']; tgt=None; form=None
            if t.get('k')=='un' and t.get('op') in('++','--') and strip(t['e']).get('k')=='mem' and strip(t['e'])['f']=='con_active': tgt=t['e']; form=t['op']
            if t.get('k')=='asg' and strip(t['l']).get('k')=='mem' and strip(t['l'])['f']=='con_active': tgt=t['l']; form=t['op']+short(t['r'])
            if not tgt: continue
            # controlling conditions (control dependence chain)
            if pd is None: pd=postdoms(f)
            ctrl=[]
            for c in f['blocks']:
                ss=[s for s in c['succ'] if s is not None]
                if len(ss)<2 or not c.get('term') or c['term'].get('cond') is None: continue
                if any(b['id'] in pd[s] for s in ss) and not (b['id'] in pd[c['id']] and b['id']!=c['id']):
                    arm='T' if b['id'] in pd[ss[0]] or b['id']==ss[0] else 'F'
                    ctrl.append((arm,short(c['term']['cond'])[:60]))
            print(f['name'],ev['loc'].split('/')[-1],form,short(tgt),'| ctrl:',ctrl)
