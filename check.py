#!/usr/bin/env python3
"""Driver: python3 check.py <Cxx> --tier quick|thorough [--replay file]
Exit 0 = every obligation discharged on /repo's current tree (KNOWN-FINDING lines allowed),
     1 = VIOLATION (a specific construct breaks a rule),
     2 = analysis broken (vanished anchor, too few instances, parse failure, fixture failure, budget)."""
import sys, os, json, argparse, traceback, importlib

sys.path.insert(0, os.path.dirname(os.path.abspath(__file__)))
from core.facts import AnalysisBroken
from core.report import Run
import props


def main():
    ap = argparse.ArgumentParser()
    ap.add_argument('prop', nargs='?')
    ap.add_argument('--tier', default=os.environ.get('VERIF_TIER', 'quick'))
    ap.add_argument('--replay')
    ap.add_argument('--selftest', action='store_true')
    ap.add_argument('--no-fixtures', action='store_true')
    a = ap.parse_args()
    if a.selftest:
        from core import selftest
        return selftest.main()
    if a.replay:
        v = json.load(open(a.replay))
        print(json.dumps(v, indent=1))
        a.prop = a.prop or v['property']
    if a.prop not in props.PROPS:
        print('unknown property', a.prop)
        return 2
    try:
        run = Run(a.prop, a.tier)
        if not a.no_fixtures:
            from core import selftest
            selftest.run_for(a.prop, run)
        return props.PROPS[a.prop](run)
    except AnalysisBroken as e:
        print('ANALYSIS-BROKEN property=%s: %s' % (a.prop, e))
        return 2
    except Exception:
        traceback.print_exc()
        print('ANALYSIS-BROKEN property=%s: internal error' % a.prop)
        return 2


if __name__ == '__main__':
    sys.exit(main())
