#!/usr/bin/env python3
"""Driver: python3 check.py <Cxx> --tier quick|thorough [--replay file]
Exit 0 = every obligation discharged on /repo's current tree (KNOWN-FINDING lines allowed),
     1 = VIOLATION (a specific construct breaks a rule),
     2 = analysis broken (vanished anchor, too few instances, parse failure, fixture failure, budget)."""
import sys, os, json, argparse, traceback, importlib

sys.path.insert(0, os.path.dirname(os.path.abspath(__file__)))
from core.facts import AnalysisBroken
from core.report import Run
import props


def main():
    ap = argparse.ArgumentParser()
    ap.add_argument('prop', nargs='?')
    ap.add_argument('--tier', default=os.environ.get('VERIF_TIER', 'quick'))
    ap.add_argument('--replay')
    ap.add_argument('--selftest', action='store_true')
    ap.add_argument('--no-fixtures', action='store_true')
    ap.add_argument('--cfg', help='thorough tier: restrict the extra configurations (comma list)')
    a = ap.parse_args()
    if a.selftest:
        from core import selftest
        return selftest.main()
    if a.replay:
        v = json.load(open(a.replay))
        print(json.dumps(v, indent=1))
        a.prop = a.prop or v['property']
    if a.prop not in props.PROPS:
        print('unknown property', a.prop)
        return 2
    try:
        run = Run(a.prop, a.tier)
        if not a.no_fixtures:
            from core import selftest
            selftest.run_for(a.prop, run)
        if a.tier != 'thorough':
            return props.PROPS[a.prop](run)
        # thorough: the same rules over every build configuration in which the property's code exists
        cfgs = ['base'] + [c for c in props.VARIANTS.get(a.prop, []) if not a.cfg or c in a.cfg.split(',')]
        run.defer = True
        for cfg in cfgs:
            run.cfg = cfg
            run.notes.append('--- configuration %s' % cfg)
            props.PROPS[a.prop](run)
        run.defer = False
        run.cfg = 'base'
        run.stats['configurations'] = len(cfgs)
        return run.finish(run._explanation + ' Thorough tier: the same rules were run over the build configurations ' + ', '.join(cfgs) + '.')
    except AnalysisBroken as e:
        print('ANALYSIS-BROKEN property=%s: %s' % (a.prop, e))
        return 2
    except Exception:
        traceback.print_exc()
        print('ANALYSIS-BROKEN property=%s: internal error' % a.prop)
        return 2


if __name__ == '__main__':
    sys.exit(main())
