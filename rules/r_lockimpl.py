"""R-LOCK-OWNER (C13): the bookkeeping fields of the library-wide lock object (global_lock.pid, .in_callback,
.lock_count, diagnostics) are written only by the thread that owns global_lock.mutex.

Inside the two primitives (coap_lock_lock_func / coap_lock_unlock_func, both preprocessor variants are whatever the
analysed configuration compiled) ownership is a typestate:
    unlock primitive: entered as owner (R-LOCK-BAL proves no caller unlocks while unlocked)
    lock primitive:   entered not knowing; owner after pthread_mutex_lock(&global_lock.mutex) returned, on the zero arm of
                      pthread_mutex_trylock(), and on the arm where `<self> == global_lock.pid` is known true (only the
                      owner can read its own id there: it is cleared before the mutex is released -- which is exactly what
                      this rule enforces on the unlock side)
    after pthread_mutex_unlock(&global_lock.mutex): not owner
A write to any field of the lock object while not owner is the violation: another thread can take the mutex between the
release and the late store and have its owner id / nesting wiped, after which re-entry detection fails and a callback that
re-enters the API blocks on the mutex its own thread holds.

Everywhere else in the library a write to such a field must happen in lock state L; that half is enforced by R-LOCK-CB in
r_lock.py (in_callback change while unlocked)."""
from core.prog import strip, walk, ap, key, short, root_var
from core.psts import Env, solve, apply_generic, assume

PRIMS = {'coap_lock_lock_func': '?', 'coap_lock_unlock_func': 'own'}
MLOCK = ('pthread_mutex_lock',)
MTRY = ('pthread_mutex_trylock',)
MUNLOCK = ('pthread_mutex_unlock',)


def lock_records(P):
    """record types with a mutex and a pid field: today exactly coap_lock_t"""
    out = set()
    for r, fl in P.records.items():
        names = {x['n'] for x in fl}
        if 'mutex' in names and 'pid' in names:
            out.add(r)
    return out


def _on_lockobj(t, recs):
    """field name if t is (a sub-object of) a field of a global lock object"""
    t = strip(t)
    while isinstance(t, dict) and t.get('k') in ('mem', 'idx'):
        if t.get('k') == 'mem' and not t.get('arrow'):
            b = strip(t['b'])
            if isinstance(b, dict) and b.get('k') == 'var' and b.get('g') and b.get('rrec') in recs:
                return t['f']
        t = strip(t.get('b'))
    return None


def _mutex_arg(t, objs):
    for a in t.get('a', []):
        a = strip(a)
        if isinstance(a, dict) and a.get('k') == 'un' and a.get('op') == '&' and _on_lockobj(a['e'], objs) == 'mutex':
            return True
    return False


def run(run, P):
    run.rule('R-LOCK-OWNER')
    objs = lock_records(P)
    run.require(bool(objs) or run.fixture_mode, 'R-LOCK-OWNER: no lock record type (mutex + pid fields) found')
    nwrites = 0
    for fname, entry in PRIMS.items():
        if not P.has(fname):
            if run.fixture_mode:
                continue
            run.require(False, 'anchor %s() of R-LOCK-OWNER not found (thread-safe mode)' % fname)
        f = P.func(fname)
        cnt = [0]

        def written_field(t):
            if t.get('k') == 'asg':
                return _on_lockobj(t['l'], objs)
            if t.get('k') == 'un' and t.get('op') in ('++', '--'):
                return _on_lockobj(t['e'], objs)
            return None

        def on_event(ev, env, ctx):
            t = ev['e']
            st = env.ts['own']
            if t.get('k') == 'call':
                fn = t.get('fn')
                if fn in MLOCK and _mutex_arg(t, objs):
                    e = env.copy()
                    e.ts['own'] = 'own'
                    return [e]
                if fn in MUNLOCK and _mutex_arg(t, objs):
                    e = env.copy()
                    e.ts['own'] = 'no'
                    return [e]
                if fn in MTRY and _mutex_arg(t, objs):
                    a = env.copy()
                    a.ts['own'] = 'own'
                    a.ret[key(t)] = ('eq', 0)
                    z = env.copy()
                    z.ret[key(t)] = ('nz', 0)
                    return [a, z]
                return None
            fld = written_field(t)
            if fld and fld != 'mutex':
                cnt[0] += 1
                run.instance('R-LOCK-OWNER', '%s: write of global_lock.%s' % (fname, fld))
                ok = st == 'own'
                run.oblige('R-LOCK-OWNER', ok, '%s:%s' % (fname, fld))
                if not ok:
                    run.violation('R-LOCK-OWNER', fname, ev['loc'], 'write-not-owner:%s' % fld,
                                  '%s.%s is written %s: another thread that takes the mutex in between has its owner id / nesting '
                                  'overwritten, re-entry from its callbacks is then not recognised and blocks forever' %
                                  ('global_lock', fld, 'after the mutex was released' if st == 'no' else 'on a path that does not own the mutex'),
                                  ctx.path())
            return None

        def on_branch(b, s, env, ctx):
            # `<self id> == global_lock.pid` known true: this thread is the owner
            term = b.get('term') or {}
            if term.get('cond') is None or len(b['succ']) != 2:
                return env
            truth = s == b['succ'][0]
            c = strip(term['cond'])
            if isinstance(c, dict) and c.get('k') == 'bin' and c.get('op') in ('==', '!='):
                for x, y in ((c['l'], c['r']), (c['r'], c['l'])):
                    if _on_lockobj(x, objs) == 'pid':
                        y = strip(y)
                        if isinstance(y, dict) and (y.get('k') == 'call' and y.get('fn') == 'pthread_self' or y.get('k') == 'ref'):
                            if (c['op'] == '==') == truth and env.ts['own'] == '?':
                                e = env.copy()
                                e.ts['own'] = 'own'
                                return e
            return env
        ctx = solve(f, Env({'own': entry}), on_event, None, None, None, key_fn=lambda e: e.ts['own'], on_branch=on_branch)
        run.stats['lockowner_solver_steps'] += ctx.steps
        nwrites += cnt[0]
    run.require(nwrites >= 2 or run.fixture_mode, 'R-LOCK-OWNER: fewer than 2 owner-field writes found in the lock primitives')


def run_init_once(run, P):
    """R-LOCK-OWNER (initialised once): (re)initialising the global lock's mutex while another thread holds it hands the lock to nobody and to
    everybody: the holder keeps running inside the library, the next caller gets the fresh mutex and runs beside it.  The library's
    start-up function may be called again at any time (every worker thread calling coap_startup() first is documented as harmless), so
    every statement that initialises the lock object's mutex (memset over it, pthread_mutex_init / coap_mutex_init on it) is control
    dependent on a branch that tests a global flag -- the once-guard `if (coap_started) return;` -- i.e. it cannot run on the path a
    repeated call takes."""
    from core.prog import transitive_control_deps
    run.rule('R-LOCK-OWNER')
    objs = lock_records(P)
    if not objs:
        run.require_count(run.fixture_mode, 'R-LOCK-OWNER(init once): no lock record type found')
        return
    n = 0
    for f in sorted(P.lib_funcs(), key=lambda f: f['name']):
        B = f['B']
        for b in f['blocks']:
            for ev in b['elems']:
                t = ev['e']
                if not (ev.get('top', True) and t.get('k') == 'call' and t.get('fn') and ('init' in t['fn'] or t['fn'] == 'memset') and _mutex_arg(t, objs)):
                    continue
                n += 1
                guarded = False
                for (c, idx) in transitive_control_deps(f, b['id']):
                    cond = (B[c].get('term') or {}).get('cond')
                    if cond is not None and any(isinstance(x, dict) and x.get('k') == 'var' and x.get('g') for x in walk(cond)):
                        guarded = True
                run.instance('R-LOCK-OWNER', '%s: %s() on the lock\'s mutex sits behind a once-guard on a global flag' % (f['name'], t['fn']))
                run.oblige('R-LOCK-OWNER', guarded, '%s:lock-initialised-once' % f['name'])
                if not guarded:
                    run.violation('R-LOCK-OWNER', f['name'], ev['loc'], 'lock-reinitialised-on-every-call:%s' % t['fn'],
                                  '%s() (re)initialises the global lock\'s mutex on a path that no test of a global once-flag controls: a second call of %s() while another '
                                  'thread is inside the library unlocks that thread\'s mutex under it' % (t['fn'], f['name']), [])
    run.require_count(n >= 1 or run.fixture_mode or run.cfg != 'base', 'R-LOCK-OWNER(init once): no initialisation of the global lock\'s mutex found (thread-safe build expected)')
