"""entry points used by fixtures (RUN: lines)"""
def width(run, P):
    from rules import r_width
    r_width.run_a(run, P)
    r_width.run_b(run, P)
def fixup(run, P):
    from rules import r_fixup
    r_fixup.run_stale(run, P)
    r_fixup.run_pairing(run, P)
def parsegate(run, P):
    from rules import r_parsegate
    r_parsegate.run(run, P)
def codec(run, P):
    from rules import r_codec
    r_codec.run(run, P)
def stream(run, P):
    from rules import r_stream
    r_stream.run_adv(run, P)
    r_stream.run_phase(run, P)
    r_stream.run_cap(run, P)
def uri(run, P):
    from rules import r_lenread, r_uriclass
    r_lenread.run(run, P)
    r_uriclass.run(run, P)
def replay(run, P):
    from rules import r_replay, r_shift
    r_shift.run(run, P)
    r_replay.run_own(run, P)
    r_replay.run_rb(run, P)
    r_replay.run_must(run, P)
def cnt(run, P):
    from rules import r_cnt
    r_cnt.run(run, P)
def cntdeq(run, P):
    from rules import r_cnt
    r_cnt.run_dequeue(run, P)
def node(run, P):
    from rules import r_ownnode
    r_ownnode.run(run, P)
    r_ownnode.run_retrans(run, P)
def reply(run, P):
    from rules import r_reply
    r_reply.run(run, P)
def relonce(run, P):
    from rules import r_relonce
    r_relonce.run(run, P)
def outbound(run, P):
    from rules import r_outbound
    r_outbound.run(run, P)
def ssn(run, P):
    from rules import r_ssn
    r_ssn.run(run, P)
def lockowner(run, P):
    from rules import r_lockimpl
    r_lockimpl.run(run, P)
def teardown(run, P):
    from rules import r_session
    r_session.run_teardown(run, P)
def cmpbound(run, P):
    from rules import r_cmpbound
    r_cmpbound.run(run, P)
def countcap(run, P):
    from rules import r_countcap
    r_countcap.run(run, P)
def shallow(run, P):
    from rules import r_shallow
    r_shallow.run(run, P)
def psk(run, P):
    from rules import r_route
    r_route.run_psk(run, P)
def suppress(run, P):
    from rules import r_suppress
    r_suppress.run(run, P)
def oscrole(run, P):
    from rules import r_oscrole
    r_oscrole.run(run, P)
def holder(run, P):
    from rules import r_holder
    r_holder.run(run, P, {'build_key', 'coap_new_bin_const'})
def stalescalar(run, P):
    from rules import r_stalecopy
    r_stalecopy.run_scalar(run, P, units=('C01_stalescalar.c',))
def uaf(run, P):
    from rules import r_uaf
    r_uaf.run(run, P)
def delayq(run, P):
    from rules import r_delayq
    r_delayq.run(run, P)
def hashed(run, P):
    from rules import r_session
    r_session.run_hashed(run, P)
def writecap(run, P):
    from rules import r_writecap
    r_writecap.run(run, P)
def realloc_commit(run, P):
    from rules import r_realloc
    r_realloc.run(run, P)
def pairargs(run, P):
    from rules import r_pairargs
    r_pairargs.run(run, P)
def sizefill(run, P):
    from rules import r_sizefill
    r_sizefill.run(run, P)
def consume(run, P):
    from rules import r_consume
    r_consume.run(run, P)
def ownraw(run, P):
    from rules import r_ownraw
    r_ownraw.run(run, P)
def width_call(run, P):
    from rules import r_width
    r_width.run_d(run, P, units=None)
def width_call64(run, P):
    from rules import r_width
    r_width.run_d(run, P, units=None, widths=(8, 16, 32), min_src=64)
def width_diff(run, P):
    from rules import r_width
    r_width.run_e(run, P)
def width_shiftcast(run, P):
    from rules import r_width
    r_width.run_f(run, P)
def dangfield(run, P):
    from rules import r_dangfield
    r_dangfield.run(run, P)
def finderkey(run, P):
    from rules import r_finderkey
    r_finderkey.run(run, P)
def restart(run, P):
    from rules import r_restart
    r_restart.run(run, P)
def blkmore(run, P):
    from rules import r_blkmore
    r_blkmore.run(run, P)
def nullbelief(run, P):
    from rules import r_nullbelief
    r_nullbelief.run(run, P)
def elemshift(run, P):
    from rules import r_elemshift
    r_elemshift.run(run, P)
