"""R-OSC-FLAGS (C14): the first byte of the OSCORE option value is a flag byte (RFC 8613 6.1: n in bits 0-2, k bit 3, h bit 4, bits 5-7
reserved, must be zero).  In single (non-group) mode the option value is not part of the AAD, so the decoder's own examination of that
byte is the only thing between a modified flag bit and acceptance.  Exhaustiveness, decided on the decoder (oscore_decode_option_value):

  the masks applied to byte 0 of the option value -- in conditions and in field extractions -- cover all eight bits.

What it does not decide: that the extracted fields are interpreted as the RFC says, or what the decoder does once it has looked at a bit."""
from core.prog import strip, walk, ap, short, const_int
from core.psts import Env, solve, relevance, apply_generic

DECODER = 'oscore_decode_option_value'


def run(run, P):
    run.rule('R-OSC-FLAGS')
    if not P.has(DECODER):
        run.require(run.fixture_mode, 'R-OSC-FLAGS: anchor %s() not found' % DECODER)
        return
    f = P.func(DECODER)
    pv = 'v%d' % f['params'][0]['id']

    def byte0_mask(x):
        """K if x is (param[0] & K) or (*param & K)"""
        x = strip(x)
        if not (isinstance(x, dict) and x.get('k') == 'bin' and x.get('op') == '&'):
            return None
        for a, b in ((x['l'], x['r']), (x['r'], x['l'])):
            K = const_int(b)
            a0 = strip(a)
            if K is None or not isinstance(a0, dict):
                continue
            if a0.get('k') in ('idx', 'sub') and ap(a0.get('b')) == pv and const_int(a0.get('i')) == 0:
                return K
            if a0.get('k') == 'un' and a0.get('op') == '*' and ap(a0.get('e')) == pv:
                return K
        return None
    union = 0
    masks = []
    for b in f['blocks']:
        exprs = [(ev['e'], ev['loc'], 'stmt') for ev in b['elems']]
        if b.get('term') and b['term'].get('cond') is not None:
            exprs.append((b['term']['cond'], b['term']['loc'], 'cond'))
        for e, loc, kind in exprs:
            for x in walk(e):
                K = byte0_mask(x) if isinstance(x, dict) else None
                if K is not None and (K, loc) not in [(m[0], m[1]) for m in masks]:
                    masks.append((K, loc, kind))
                    union |= K
    run.require(len(masks) >= 3 or run.fixture_mode, 'R-OSC-FLAGS: fewer than 3 masks applied to the flag byte in %s()' % DECODER)
    for K, loc, kind in masks:
        run.instance('R-OSC-FLAGS', '%s: flag byte & 0x%02x (%s)' % (DECODER, K, kind))
    missing = 0xFF & ~union
    run.oblige('R-OSC-FLAGS', missing == 0, 'all-bits-examined')
    if missing:
        run.violation('R-OSC-FLAGS', DECODER, f['blocks'][0]['elems'][0]['loc'] if f['blocks'][0]['elems'] else masks[0][1], 'flag-bits-not-examined:0x%02x' % missing,
                      'bits 0x%02x of the OSCORE flag byte are neither extracted nor tested anywhere in the decoder: a message whose reserved bit was flipped in transit decodes to '
                      'the same kid / Partial IV, decrypts (the option value is not in the AAD) and reaches the application' % missing, [])
