"""R-OSC-ROLE (C14): the per-exchange association caches exactly those inputs of the request's COSE object that the
response must be protected with (RFC 8613 8.3: same AAD structure, request nonce, request partial IV).

The roles are computed: ROLES = names of the byte-string fields that `oscore_association_t` and `cose_encrypt0_t`
have in common (today aad, nonce, partial_iv).  Every byte-string field of the two records is a *source* with its own
field name as role (so external_aad, key_id, kid_context, ... are sources with a role that is not in ROLES).  Roles flow
through &x->F, x->F.s / x->F.length / x->F->s, *p, coap_new_bin_const(s, n) (both arguments must agree), single-assignment
locals, and parameters (role of a parameter = the one role its call sites pass; call sites passing something without a
role are ignored; two different roles make the parameter polymorphic = no role).
Violation: a value with role F1 is stored into field F2 in ROLES of either record with F1 != F2 -- e.g. the association's
aad refreshed from cose->external_aad: the response is then protected with different additional data than the peer
verifies with, every genuine response on that path is rejected (or, for nonce / partial IV, a nonce is reused)."""
import collections
from core.prog import strip, walk, ap, short

ASSOC, COSE = 'oscore_association_t', 'cose_encrypt0_t'
BIN = 'coap_bin_const_t'


def _binfields(P, rec):
    return {x['n'] for x in P.records.get(rec, []) if x.get('rrec') == BIN or x.get('prec') == BIN}


def run(run, P):
    run.rule('R-OSC-ROLE')
    if ASSOC not in P.records or COSE not in P.records:
        if run.fixture_mode:
            return
        run.require(False, 'R-OSC-ROLE: record %s or %s not found' % (ASSOC, COSE))
    src_fields = {ASSOC: _binfields(P, ASSOC), COSE: _binfields(P, COSE)}
    ROLES = src_fields[ASSOC] & src_fields[COSE]
    run.require(len(ROLES) >= 2, 'R-OSC-ROLE: fewer than 2 common byte-string fields between %s and %s' % (ASSOC, COSE))
    run.notes.append('R-OSC-ROLE: roles (computed) = %s' % sorted(ROLES))
    funcs = list(P.lib_funcs())
    prole = {}       # (fn, param index) -> role | None(polymorphic)
    lrole = {}       # (fn, 'v<id>') -> role

    def role(e, fn):
        e = strip(e)
        if not isinstance(e, dict):
            return None
        k = e.get('k')
        if k == 'mem':
            if e.get('rec') in src_fields and e['f'] in src_fields[e['rec']]:
                return e['f']
            if e.get('rec') == BIN and e['f'] in ('s', 'length'):
                return role(e['b'], fn)
            return None
        if k == 'un' and e.get('op') in ('&', '*'):
            return role(e['e'], fn)
        if k == 'var':
            if 'pi' in e:
                return prole.get((fn, e['pi']))
            return lrole.get((fn, 'v%d' % e['id']))
        if k == 'call' and e.get('fn') in ('coap_new_bin_const',) and len(e.get('a', [])) == 2:
            r1, r2 = role(e['a'][0], fn), role(e['a'][1], fn)
            if r1 and r2 and r1 != r2:
                return ('mixed', r1, r2)
            return r1 or r2
        if k == 'cond':
            r1, r2 = role(e.get('x'), fn), role(e.get('y'), fn)
            return r1 if r1 == r2 else None
        return None
    # fixed point over parameter and local roles
    for _round in range(6):
        changed = False
        seen = collections.defaultdict(set)
        lseen = collections.defaultdict(set)
        for f in funcs:
            fn = f['name']
            for b, ev in P.events(f):
                t = ev['e']
                if t.get('k') == 'call' and t.get('fn') and P.has(t['fn']):
                    for i, a in enumerate(t.get('a', [])):
                        r = role(a, fn)
                        if isinstance(r, str):
                            seen[(t['fn'], i)].add(r)
                if t.get('k') == 'asg' and t.get('op') == '=':
                    l = strip(t['l'])
                    if isinstance(l, dict) and l.get('k') == 'var' and 'pi' not in l and not l.get('g'):
                        r = role(t['r'], fn)
                        lseen[(fn, 'v%d' % l['id'])].add(r if isinstance(r, str) else None)
                if t.get('k') == 'decl':
                    for d in t['d']:
                        if 'init' in d:
                            r = role(d['init'], fn)
                            lseen[(fn, 'v%d' % d['id'])].add(r if isinstance(r, str) else None)
        for k2, rs in seen.items():
            v = next(iter(rs)) if len(rs) == 1 else None
            if prole.get(k2, 'unset') != v:
                prole[k2] = v
                changed = True
        for k2, rs in lseen.items():
            v = next(iter(rs)) if len(rs) == 1 and None not in rs else None
            if v and lrole.get(k2) != v:
                lrole[k2] = v
                changed = True
        if not changed:
            break
    # expected role of a parameter: the callee stores it into a role field (setters, oscore_new_association)
    def param_of(e):
        e = strip(e)
        if not isinstance(e, dict):
            return None
        k = e.get('k')
        if k == 'var':
            return e.get('pi')
        if k == 'un' and e.get('op') in ('&', '*'):
            return param_of(e['e'])
        if k == 'mem' and e.get('rec') == BIN and e['f'] in ('s', 'length'):
            return param_of(e['b'])
        if k == 'call' and e.get('fn') == 'coap_new_bin_const' and len(e.get('a', [])) == 2:
            a, b2 = param_of(e['a'][0]), param_of(e['a'][1])
            return a if a == b2 else None
        return None
    expected = {}
    for f in funcs:
        for b, ev in P.events(f):
            t = ev['e']
            if t.get('k') == 'asg' and t.get('op') == '=':
                l = strip(t['l'])
                if isinstance(l, dict) and l.get('k') == 'mem' and l.get('rec') in src_fields and l['f'] in ROLES:
                    i = param_of(t['r'])
                    if i is not None:
                        k2 = (f['name'], i)
                        expected[k2] = l['f'] if expected.get(k2, l['f']) == l['f'] else None
    nsink = 0
    for f in funcs:
        fn = f['name']
        for b, ev in P.events(f):
            t = ev['e']
            if t.get('k') == 'call' and t.get('fn'):
                for i, a in enumerate(t.get('a', [])):
                    want = expected.get((t['fn'], i))
                    if not want:
                        continue
                    r = role(a, fn)
                    if not isinstance(r, str):
                        continue
                    nsink += 1
                    run.instance('R-OSC-ROLE', '%s: %s(arg %d = role %s) expects %s' % (fn, t['fn'], i, r, want))
                    run.oblige('R-OSC-ROLE', r == want, '%s:%s#%d' % (fn, t['fn'], i))
                    if r != want:
                        run.violation('R-OSC-ROLE', fn, ev['loc'], 'role-mismatch:%s(%s)<-%s' % (t['fn'], want, r),
                                      '%s() stores its argument %d as `%s`, but it is handed a value that is the COSE object\'s / association\'s `%s`: '
                                      'request and response are protected with different %s' % (t['fn'], i, want, r, want), [])
    for f in funcs:
        fn = f['name']
        for b, ev in P.events(f):
            t = ev['e']
            if t.get('k') != 'asg' or t.get('op') != '=':
                continue
            l = strip(t['l'])
            if not (isinstance(l, dict) and l.get('k') == 'mem' and l.get('rec') in src_fields and l['f'] in ROLES):
                continue
            if param_of(t['r']) is not None and expected.get((fn, param_of(t['r']))):
                continue      # a parameter stored by its callee: judged at the call sites against the expected role
            r = role(t['r'], fn)
            if r is None:
                continue
            nsink += 1
            run.instance('R-OSC-ROLE', '%s: %s.%s <- role %s' % (fn, l['rec'], l['f'], r if isinstance(r, str) else 'mixed'))
            ok = r == l['f']
            run.oblige('R-OSC-ROLE', ok, '%s:%s' % (fn, l['f']))
            if not ok:
                what = ('pointer and length come from different fields (%s, %s)' % (r[1], r[2])) if not isinstance(r, str) else "a value that is the COSE object's / association's `%s`" % r
                run.violation('R-OSC-ROLE', fn, ev['loc'], 'role-mismatch:%s<-%s' % (l['f'], r if isinstance(r, str) else 'mixed'),
                              '%s.%s is set from %s: request and response are then protected with different %s and the peer rejects genuine messages (or a nonce is reused)' %
                              (l['rec'], l['f'], what, l['f']), [])
    run.require(nsink >= 6 or run.fixture_mode, 'R-OSC-ROLE: only %d role-carrying stores found (expected the association set-up/refresh sites and the COSE setters)' % nsink)


def run_assoc_source(run, P, finder='oscore_find_association'):
    """R-OSC-ROLE (the association is the source): a response is protected, and a response is verified, with the context of the request it
    belongs to -- kept per token in the association -- not with whatever context the session used last.  Computed: the field names the
    association record shares with the session record (today recipient_ctx).  In every function that looks the association up
    (A = oscore_find_association(..)), on the paths on which A is known non-NULL and until A is assigned again, such a field is not read
    from the session.  With two security contexts on one session (several clients behind one proxy / NAT) `session->recipient_ctx` is
    the context of whoever sent the latest request: the response goes out under another peer's keys."""
    from core.psts import Env, solve, relevance, apply_generic
    run.rule('R-OSC-ROLE')
    SESS = 'coap_session_t'
    if ASSOC not in P.records or SESS not in P.records:
        run.require(run.fixture_mode, 'R-OSC-ROLE: record %s or %s not found' % (ASSOC, SESS))
        return
    common = set(x['n'] for x in P.records[ASSOC]) & set(x['n'] for x in P.records[SESS])
    common = set(n_ for n_ in common if any(x['n'] == n_ and x.get('p') for x in P.records[ASSOC]))       # pointer-typed: a context, not a flag
    run.require(bool(common) or run.fixture_mode, 'R-OSC-ROLE: association and session no longer share a field (recipient_ctx expected)')
    n = 0
    for f in sorted(P.lib_funcs(), key=lambda f: f['name']):
        finds = []
        for b, ev in P.events(f):
            t = ev['e']
            if t.get('k') == 'asg' and t.get('op') == '=' and isinstance(strip(t['r']), dict) and strip(t['r']).get('fn') == finder and ap(t['l']):
                finds.append((ev, ap(t['l'])))
        if not finds:
            continue
        name = f['name']
        avars = set(a for _e, a in finds)

        def sess_reads(t):
            part = t['r'] if t.get('k') == 'asg' and t.get('op') == '=' else t
            return [x for x in walk(part) if isinstance(x, dict) and x.get('k') == 'mem' and x.get('f') in common and x.get('rec') == SESS]

        def is_rule_event(ev):
            t = ev['e']
            return any(ev is e_ for e_, _a in finds) or bool(sess_reads(t)) or (t.get('k') == 'asg' and ap(t['l']) in avars)
        keys, R = relevance(f, is_rule_event, avars)
        R = set(R) | avars
        for b in f['blocks']:
            c = (b.get('term') or {}).get('cond')
            if c is not None and sess_reads(c):
                keys = set(keys) | {b['id']}
        rep = set()

        def on_event(ev, env, ctx):
            t = ev['e']
            if not ev.get('top', True):
                return None
            live = [a for a in avars if env.nullf(a) == 'N']
            if live and t.get('k') in ('asg', 'call', 'decl', 'ret'):
                for x in sess_reads(t):
                    run.oblige('R-OSC-ROLE', False, '%s:%s:from-association' % (name, x['f']))
                    if ev['loc'] not in rep:
                        rep.add(ev['loc'])
                        run.violation('R-OSC-ROLE', name, ev['loc'], 'context-from-session-with-association-at-hand:%s' % x['f'],
                                      '`%s` takes %s from the session on a path on which the association of this exchange was found: the session field is the context of the '
                                      'latest request on that session, the exchange\'s own context is association->%s' % (short(t)[:60], x['f'], x['f']), ctx.path())
            return None
        n += 1
        run.instance('R-OSC-ROLE', '%s: with the association found, %s is not read from the session' % (name, '/'.join(sorted(common))))
        run.oblige('R-OSC-ROLE', True, '%s:assoc-source' % name)
        solve(f, Env(), on_event, None, keys, R, key_fn=lambda e: tuple(e.nullf(a) for a in sorted(avars)))
    run.require_count(n >= 2 or run.fixture_mode or run.cfg != 'base', 'R-OSC-ROLE(association source): fewer than 2 functions that look up the association found')
