"""R-REALLOC-COMMIT (C18): a reallocation that fails leaves the old block valid and owned by whoever pointed to it.  Two obligations on every
call of a reallocating function (coap_realloc_type, realloc):

 (a) the result is not stored straight into the lvalue that was passed as the old pointer (`p->list = realloc(p->list, n)`): on failure the
     only pointer to the old block is overwritten with NULL -- the block leaks and everything that still counts its elements walks a
     NULL pointer;
 (b) on the path from the function's entry to a FAILED reallocation (result known NULL) and on to the exit, no field of the object that
     owns the old block was assigned unless it is assigned again after the failure: the object must look afterwards as it did before
     (a capacity field raised before the allocation says memory is there that never was; the next append writes behind the block).

Not decided: that the new block is used correctly on success; reallocation through other allocators."""
from core.prog import strip, walk, ap, short, root_var
from core.psts import Env, solve, relevance, apply_generic

REALLOC = {'coap_realloc_type': 1, 'realloc': 0, 'gnutls_realloc': 0}      # index of the old pointer


def run(run, P):
    run.rule('R-REALLOC-COMMIT')
    n = 0
    for f in sorted(P.lib_funcs(), key=lambda f: f['name']):
        if f['name'] in REALLOC or f['unit'] == 'coap_mem.c':
            continue
        sites = []
        for b, ev in P.events(f):
            t = ev['e']
            srcs = []
            if t.get('k') == 'asg' and t.get('op') == '=':
                srcs.append((t['l'], t['r']))
            for d in t.get('d') or ():
                if d.get('init') is not None:
                    srcs.append(({'k': 'var', 'id': d['id'], 'n': d['n']}, d['init']))
            for l, r in srcs:
                from rules.r_allocnull import _call_of
                r0 = _call_of(r)
                if isinstance(r0, dict) and r0.get('k') == 'call' and r0.get('fn') in REALLOC and len(r0.get('a') or []) > REALLOC[r0['fn']]:
                    sites.append((ev, l, r0, r0['a'][REALLOC[r0['fn']]]))
        if not sites:
            continue
        name = f['name']
        params = set('v%d' % p['id'] for p in f['params'])
        for ev, l, call, old in sites:
            n += 1
            run.instance('R-REALLOC-COMMIT', '%s: %s' % (name, short(call)[:70]))
            # (a)
            la, oa = ap(strip(l)), ap(strip(old))
            selfassign = la is not None and la == oa
            run.oblige('R-REALLOC-COMMIT', not selfassign, '%s:result-not-into-old-pointer' % name)
            if selfassign:
                run.violation('R-REALLOC-COMMIT', name, ev['loc'], 'result-overwrites-old-pointer:%s' % short(strip(l))[:40],
                              'the result of %s() is stored into %s, the very pointer that was passed as the old block: when the reallocation fails the old block is still '
                              'allocated but nothing points to it any more, and code that still counts its elements dereferences NULL' % (call['fn'], short(strip(l))[:40]), [])
        # (b) owner objects: root variables of the old-pointer expressions that are parameters (or locals pointing to longer-lived objects)
        owners = {}
        for ev, l, call, old in sites:
            for x in walk(old):
                if isinstance(x, dict) and x.get('k') == 'mem' and x.get('arrow') and ap(x.get('b')) in params:
                    owners[ap(x['b'])] = 1      # an object the caller still has after the failure (one made in this function is thrown away whole)
        if not owners:
            continue
        resvars = dict((ap(strip(l)), ev) for ev, l, call, old in sites if ap(strip(l)))

        def owner_field(t):
            if t.get('k') == 'asg':
                l0 = strip(t['l'])
                if isinstance(l0, dict) and l0.get('k') == 'mem' and ap(l0.get('b')) in owners and ap(l0):
                    return ap(l0)
            if t.get('k') == 'un' and t.get('op') in ('++', '--', 'post++', 'post--'):
                l0 = strip(t.get('e'))
                if isinstance(l0, dict) and l0.get('k') == 'mem' and ap(l0.get('b')) in owners and ap(l0):
                    return ap(l0)
            return None

        def is_rule_event(ev):
            return any(ev is s[0] for s in sites) or owner_field(ev['e']) is not None
        keys, R = relevance(f, is_rule_event, set(resvars))
        R = set(R) | set(resvars)
        for b in f['blocks']:
            c = (b.get('term') or {}).get('cond')
            if c is not None and any(isinstance(x, dict) and ap(x) in resvars for x in walk(c)):
                keys = set(keys) | {b['id']}

        def on_event(ev, env, ctx):
            t = ev['e']
            of = owner_field(t)
            issite = any(ev is s[0] for s in sites)
            if of is not None and not issite:
                e = apply_generic(ev, env, R).copy()
                if env.ts.get('failed'):
                    e.ts['dirty'] = tuple(x for x in env.ts.get('dirty', ()) if x[0] != of)
                elif not env.ts.get('done'):
                    e.ts['dirty'] = tuple(sorted(set(env.ts.get('dirty', ())) | {(of, ev['loc'])}))
                return [e]
            if issite:
                e = apply_generic(ev, env, R).copy()
                e.ts['pending'] = [ap(strip(s[1])) for s in sites if ev is s[0]][0]
                return [e]
            return None

        def on_branch(b, s, env, ctx):
            pv = env.ts.get('pending')
            if not pv:
                return env
            nf = env.nullf(pv)
            if nf == 'Z':
                e = env.copy()
                e.ts['failed'] = 1
                e.ts['pending'] = None
                return e
            if nf == 'N':
                e = env.copy()
                e.ts['pending'] = None
                e.ts['dirty'] = ()
                e.ts['done'] = 1
                return e
            return env

        def on_exit(env, ctx):
            if env.ts.get('failed'):
                d = env.ts.get('dirty', ())
                run.oblige('R-REALLOC-COMMIT', not d, '%s:unchanged-after-failed-realloc' % name)
                for fld, loc in d:
                    run.violation('R-REALLOC-COMMIT', name, loc, 'state-changed-before-failed-realloc:%s' % fld.split('>')[-1],
                                  'a field of the object that owns the block is assigned before the reallocation and keeps that value when the reallocation fails and the function '
                                  'returns: the object then describes memory it does not have' , ctx.path())
        solve(f, Env(), on_event, on_exit, keys, R, key_fn=lambda e: (e.ts.get('failed'), e.ts.get('pending'), e.ts.get('done'), tuple(x[0] for x in e.ts.get('dirty', ()))), on_branch=on_branch)
    run.require_count(n >= (4 if run.cfg == 'base' else 2) or run.fixture_mode, 'R-REALLOC-COMMIT: fewer than 4 reallocation sites found')
