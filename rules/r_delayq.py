"""R-DELAYQ-NACK (C19, C06): a message the application queued while the session could not transmit (session->delayqueue: handshake
pending, NSTART reached, stream socket busy) leaves that queue in exactly one of two ways -- its PDU is handed to the transport
(coap_session_send_pdu / the session layer's l_write) or, if it is Confirmable, to coap_handle_nack().  Structural form, decided on the
per-function CFG of every function that takes nodes off a delay queue:

  on every path from "Q = X->delayqueue" (plain assignment, declaration or the LL_FOREACH_SAFE head) to coap_delete_node_lkd(Q) either
    (a) Q->pdu was passed to a delivering call (DELIVER) since Q was loaded, or
    (b) the path took the not-Confirmable arm of a test of Q->pdu->type, or
    (c) the path earlier left a loop "while (X->delayqueue)" through its exit edge -- the queue was already drained by a loop that itself
        obeys (a)/(b), so the later drain has nothing to drop (the "Not done if nack handler called above" loop in
        coap_session_disconnected_lkd()).

What it does not decide: that the reason code passed is the right one, that the application's handler is installed, or anything about
messages an application callback appends to the queue while it is being drained."""
from core.prog import strip, walk, ap, short, const_int, callee_field
from core.psts import Env, solve, relevance, apply_generic

DELETE = 'coap_delete_node_lkd'
DELIVER = ('coap_session_send_pdu', 'coap_handle_nack', 'coap_send_pdu', 'coap_wait_ack')
DELIVER_FIELDS = ('l_write',)
CON = 0


def _is_dq(x):
    x = strip(x)
    return isinstance(x, dict) and x.get('k') == 'mem' and x.get('f') == 'delayqueue'


def _loads(ev):
    """variables loaded from a delay queue head by this event"""
    t = ev['e']
    out = []
    if t.get('k') == 'asg' and t.get('op') == '=' and _is_dq(t['r']):
        l = strip(t['l'])
        if isinstance(l, dict) and l.get('k') == 'var':
            out.append(l['n'])
    for d in t.get('d') or ():
        if d.get('init') is not None and _is_dq(d['init']):
            out.append(d['n'])
    return out


def _writes(ev, q):
    """does the event give variable q a new value (other than a load from the delay queue)?"""
    t = ev['e']
    if t.get('k') == 'asg' and t.get('op') == '=':
        l = strip(t['l'])
        return isinstance(l, dict) and l.get('k') == 'var' and l['n'] == q
    return False


def _mentions_pdu_of(x, q):
    for n in walk(x):
        if isinstance(n, dict) and n.get('k') == 'mem' and n.get('f') == 'pdu':
            b = strip(n.get('b'))
            if isinstance(b, dict) and b.get('k') == 'var' and b['n'] == q:
                return True
    return False


def run(run, P):
    run.rule('R-DELAYQ-NACK')
    nsites = 0
    nfunc = 0
    for f in sorted(P.lib_funcs(), key=lambda f: f['name']):
        name = f['name']
        qvars = set()
        for b, ev in P.events(f):
            qvars.update(_loads(ev))
        if not qvars:
            continue
        dels = [ev for b, ev in P.events(f) if ev['e'].get('k') == 'call' and ev['e'].get('fn') == DELETE and ev['e'].get('a')
                and isinstance(strip(ev['e']['a'][0]), dict) and strip(ev['e']['a'][0]).get('k') == 'var' and strip(ev['e']['a'][0])['n'] in qvars]
        if not dels:
            continue
        nfunc += 1
        nsites += len(dels)

        def delivers(ev, q):
            t = ev['e']
            if t.get('k') != 'call':
                return False
            if t.get('fn') in DELIVER:
                # the node itself (coap_wait_ack, coap_send_pdu(.., node)) or its PDU
                for a in t.get('a') or ():
                    s = strip(a)
                    if isinstance(s, dict) and s.get('k') == 'var' and s['n'] == q:
                        return True
                    if _mentions_pdu_of(a, q):
                        return True
                return False
            if t.get('fn') is None and callee_field(t) in DELIVER_FIELDS:
                return any(_mentions_pdu_of(a, q) for a in t.get('a') or ())
            return False

        def is_rule_event(ev):
            if any(ev is d for d in dels) or _loads(ev):
                return True
            if any(_writes(ev, q) for q in qvars):
                return True
            if ev['e'].get('k') == 'asg' and _is_dq(ev['e'].get('l')):
                return True
            return any(delivers(ev, q) for q in qvars)
        keys, R = relevance(f, is_rule_event)
        keys = set(keys)
        for b in f['blocks']:
            c = (b.get('term') or {}).get('cond')
            if c is None:
                continue
            if _is_dq(c) or any(isinstance(x, dict) and x.get('k') == 'mem' and x.get('f') in ('type', 'delayqueue') for x in walk(c)):
                keys.add(b['id'])

        def on_event(ev, env, ctx):
            t = ev['e']
            ld = _loads(ev)
            if ld or any(_writes(ev, q) for q in qvars):
                e = apply_generic(ev, env, R).copy()
                for q in (ld or [q for q in qvars if _writes(ev, q)]):
                    e.ts['h:' + q] = 0
                return [e]
            if t.get('k') == 'asg' and _is_dq(t.get('l')) and env.ts.get('drained'):
                e = apply_generic(ev, env, R).copy()
                e.ts['drained'] = 0
                return [e]
            hit = [q for q in qvars if delivers(ev, q)]
            if hit:
                e = apply_generic(ev, env, R).copy()
                for q in hit:
                    e.ts['h:' + q] = 1
                return [e]
            for d in dels:
                if ev is d:
                    q = strip(t['a'][0])['n']
                    ok = bool(env.ts.get('h:' + q)) or bool(env.ts.get('drained'))
                    run.instance('R-DELAYQ-NACK', '%s: %s(%s)' % (name, DELETE, q))
                    run.oblige('R-DELAYQ-NACK', ok, '%s:delivered-or-nacked-before-delete' % name)
                    if not ok:
                        run.violation('R-DELAYQ-NACK', name, ev['loc'], 'delayed-node-dropped',
                                      'a node taken off the delay queue is deleted on a path where its PDU was neither handed to the transport nor, being '
                                      'Confirmable, reported by coap_handle_nack(), and the queue had not been drained by an earlier reporting loop: the '
                                      'application never learns that this request was not sent', ctx.path())
            return None

        def on_branch(b, s, env, ctx):
            c = (b.get('term') or {}).get('cond')
            if c is None or len(b['succ']) != 2:
                return env
            truth = s == b['succ'][0]
            c = strip(c)
            while isinstance(c, dict) and c.get('k') == 'un' and c.get('op') == '!':
                c = strip(c['e'])
                truth = not truth
            if _is_dq(c):
                if truth and env.ts.get('drained'):
                    return None          # the queue was drained on this path: the body of a later drain loop is not entered
                if not truth and not env.ts.get('drained'):
                    e = env.copy()
                    e.ts['drained'] = 1
                    return e
                return env
            if isinstance(c, dict) and c.get('k') == 'bin' and c.get('op') in ('==', '!='):
                l = strip(c['l'])
                K = const_int(c['r'])
                if isinstance(l, dict) and l.get('k') == 'mem' and l.get('f') == 'type' and K == CON:
                    iscon = truth if c['op'] == '==' else not truth
                    if not iscon:
                        for q in qvars:
                            if _mentions_pdu_of(l, q):
                                e = env.copy()
                                e.ts['h:' + q] = 1
                                return e
            return env

        def kf(e):
            return (e.ts.get('drained'),) + tuple(e.ts.get('h:' + q) for q in sorted(qvars))
        solve(f, Env({}), on_event, None, keys, R, key_fn=kf, on_branch=on_branch)
    run.require_count(nsites >= (4 if run.cfg == 'base' else 2) or run.fixture_mode,
                'R-DELAYQ-NACK: fewer than 4 deletions of nodes taken off a delay queue found (expected coap_session_mfree, coap_session_connected, '
                'coap_session_disconnected_lkd x2, coap_write_session)')
