"""R-OBS (C11): the structural clauses of the Observe server side that the statement of C11 names.

C11 as a whole is a temporal property over register / change / cancel histories and is not decided.  Three of its clauses are
visible in the shape of one function each, on every path:

 R-OBS-REPLACE  "a re-registration replaces rather than duplicates the entry": in coap_add_observer() a new subscription is
                allocated only on paths on which (i) coap_find_observer(resource, session, token) was called and returned NULL
                and (ii) a subscription found for the same cache key, if any, was deleted (coap_delete_observer) before.
 R-OBS-CON      "at least every sixth one Confirmable": in coap_notify_observers() a notification is made Non-confirmable only
                on a path that knows obs->non_cnt < COAP_OBS_MAX_NON (or the resource's NON_ALWAYS flag, or the resource is being
                deleted: the final 4.04), and between the choice of the type and the transmission the counter is updated to
                match: reset to 0 for a Confirmable (or NON_ALWAYS), incremented for a Non-confirmable.
 R-OBS-RST      "after a Reset in reply to a notification no further notification is sent": in the RST arm of coap_dispatch()
                a matching queue node leads to coap_cancel() (which removes the observer by token), on every path.
"""
import collections
from core.facts import AnalysisBroken
from core.prog import strip, walk, ap, key, short, const_int
from core.psts import Env, solve, relevance, apply_generic

ADD = 'coap_add_observer'
NOTIFY = 'coap_notify_observers'
DISPATCH = 'coap_dispatch'


def run_replace(run, P):
    run.rule('R-OBS-REPLACE')
    if not P.has(ADD):
        if run.fixture_mode:
            return
        run.require(False, 'anchor %s() of R-OBS-REPLACE not found' % ADD)
    f = P.func(ADD)
    SUB = None
    try:
        SUB = P.const_named('COAP_SUBSCRIPTION')
    except Exception:
        pass
    seen = {'create': 0, 'find': 0}

    def call_of(t):
        r = strip(t.get('r')) if t.get('k') == 'asg' else None
        if isinstance(r, dict) and r.get('k') == 'call':
            return r
        return None

    def is_create(t):
        c = call_of(t)
        if c and c.get('fn') in ('coap_malloc_type',) and c.get('a') and (SUB is None or const_int(c['a'][0]) == SUB):
            l = strip(t['l'])
            return isinstance(l, dict) and l.get('prec') == 'coap_subscription_t' or (isinstance(l, dict) and l.get('k') == 'var' and l.get('pt', '').endswith('coap_subscription_t'))
        return False

    def is_rule_event(ev):
        t = ev['e']
        c = call_of(t)
        if c and c.get('fn') in ('coap_find_observer', 'coap_find_observer_cache_key'):
            return True
        if t.get('k') == 'call' and t.get('fn') == 'coap_delete_observer':
            return True
        return is_create(t)
    keys, R = relevance(f, is_rule_event)
    svars = set()
    for b, ev in P.events(f):
        t = ev['e']
        c = call_of(t)
        if c and c.get('fn') in ('coap_find_observer', 'coap_find_observer_cache_key') and ap(t['l']):
            svars.add(ap(t['l']))
    for b in f['blocks']:
        c = (b.get('term') or {}).get('cond')
        if c is not None and any(ap(x) in svars for x in walk(c) if isinstance(x, dict)):
            keys = set(keys) | {b['id']}

    def on_event(ev, env, ctx):
        t = ev['e']
        c = call_of(t)
        if c and c.get('fn') == 'coap_find_observer':
            seen['find'] += 1
            e = apply_generic(ev, env, R).copy()
            e.ts['from'] = (ap(t['l']), 'tok')
            e.ts['tok'] = '?'
            return [e]
        if c and c.get('fn') == 'coap_find_observer_cache_key':
            e = apply_generic(ev, env, R).copy()
            e.ts['from'] = (ap(t['l']), 'ck')
            e.ts['ck'] = '?'
            return [e]
        if t.get('k') == 'call' and t.get('fn') == 'coap_delete_observer':
            e = apply_generic(ev, env, R).copy()
            if env.ts.get('ck') == 'found':
                # the entry is deleted by (resource, session, token): the token has to be the FOUND entry's, not the new request's
                fv = (env.ts.get('from') or (None,))[0]
                args = t.get('a') or []
                own = bool(fv) and len(args) >= 3 and any(isinstance(x, dict) and ap(x) == fv for x in walk(args[2]))
                run.oblige('R-OBS-REPLACE', own, 'delete-names-the-found-entry')
                if own:
                    e.ts['ck'] = 'deleted'
                else:
                    run.violation('R-OBS-REPLACE', ADD, ev['loc'], 'delete-by-foreign-token',
                                  'the subscription found by cache key is to be deleted, but coap_delete_observer() is given %s, which is not taken from the found entry: the look-up '
                                  'by session and token inside it finds nothing (the new request has a new token) and the old subscription stays' %
                                  (short(args[2])[:40] if len(args) >= 3 else '?'), ctx.path())
                    e.ts['ck'] = 'deleted'      # reported once; do not cascade into the create obligation
            return [e]
        if t.get('k') == 'asg' and env.ts.get('from') and ap(t['l']) == env.ts['from'][0] and not c:
            e = apply_generic(ev, env, R).copy()
            e.ts['from'] = None
            return [e]
        if is_create(t):
            seen['create'] += 1
            ok1 = env.ts.get('tok') == 'none'
            run.oblige('R-OBS-REPLACE', ok1, 'lookup-by-token-before-create')
            if not ok1:
                run.violation('R-OBS-REPLACE', ADD, ev['loc'], 'create-without-token-lookup:%s' % (env.ts.get('tok') or 'not-called'),
                              'a new subscription is created on a path on which coap_find_observer() for this session and token %s: a re-registration adds a second entry '
                              'and the client is notified twice' % ('was not called' if env.ts.get('tok') is None else 'did not come out NULL'), ctx.path())
            ok2 = env.ts.get('ck') in (None, 'none', 'deleted')
            run.oblige('R-OBS-REPLACE', ok2, 'same-query-entry-deleted-before-create')
            if not ok2:
                run.violation('R-OBS-REPLACE', ADD, ev['loc'], 'create-with-live-duplicate',
                              'a new subscription is created although a subscription for the same request (cache key) was found and not deleted: the old token keeps being notified', ctx.path())
        return None

    def on_branch(b, s, env, ctx):
        fr = env.ts.get('from')
        c = (b.get('term') or {}).get('cond')
        if not fr or c is None or len(b['succ']) != 2:
            return env
        truth = s == b['succ'][0]
        c = strip(c)
        while isinstance(c, dict) and c.get('k') == 'un' and c.get('op') == '!':
            c = strip(c['e'])
            truth = not truth
        if ap(c) == fr[0]:
            e = env.copy()
            e.ts[fr[1]] = 'found' if truth else 'none'
            return e
        return env
    solve(f, Env({}), on_event, None, keys, R, key_fn=lambda e: (e.ts.get('tok'), e.ts.get('ck'), e.ts.get('from')), on_branch=on_branch)
    run.instance('R-OBS-REPLACE', '%s: subscription creation' % ADD, n=1 if seen['create'] else 0)
    run.instance('R-OBS-REPLACE', '%s: look-up by token' % ADD, n=1 if seen['find'] else 0)
    run.require(seen['create'] > 0, 'R-OBS-REPLACE: no allocation of a coap_subscription_t found in %s()' % ADD)


def run_con(run, P):
    run.rule('R-OBS-CON')
    if not P.has(NOTIFY):
        if run.fixture_mode:
            return
        run.require(False, 'anchor %s() of R-OBS-CON not found' % NOTIFY)
    f = P.func(NOTIFY)
    NON = P.const_named('COAP_MESSAGE_NON')
    CON = P.const_named('COAP_MESSAGE_CON')
    MAXN = P.const_named('COAP_OBS_MAX_NON') if _has_const(P, 'COAP_OBS_MAX_NON') else None
    NONALWAYS = P.const_named('COAP_RESOURCE_FLAGS_NOTIFY_NON_ALWAYS') if _has_const(P, 'COAP_RESOURCE_FLAGS_NOTIFY_NON_ALWAYS') else None
    seen = {'non': 0, 'send': 0}

    def type_asg(t):
        if t.get('k') == 'asg' and t.get('op') == '=':
            l = strip(t['l'])
            if isinstance(l, dict) and l.get('k') == 'mem' and l.get('f') == 'type' and l.get('rec') == 'coap_pdu_t':
                K = const_int(t['r'])
                if K in (NON, CON):
                    return 'NON' if K == NON else 'CON'
        return None

    def cnt_write(t):
        if t.get('k') == 'un' and t.get('op') == '++' and isinstance(strip(t['e']), dict) and strip(t['e']).get('f') == 'non_cnt':
            return 'inc'
        if t.get('k') == 'asg' and isinstance(strip(t['l']), dict) and strip(t['l']).get('f') == 'non_cnt':
            if t.get('op') == '=' and const_int(t['r']) == 0:
                return 'reset'
            if t.get('op') == '+=' and const_int(t['r']) == 1:
                return 'inc'
            return 'other'
        return None

    def is_send(t):
        return t.get('k') == 'call' and t.get('fn') in ('coap_send_internal', 'coap_send_q_block2')

    def is_rule_event(ev):
        t = ev['e']
        return bool(type_asg(t) or cnt_write(t) or is_send(t))
    keys, R = relevance(f, is_rule_event)
    for b in f['blocks']:
        c = (b.get('term') or {}).get('cond')
        if c is not None and any(isinstance(x, dict) and x.get('k') == 'mem' and x.get('f') in ('non_cnt', 'type', 'flags') for x in walk(c)):
            keys = set(keys) | {b['id']}
    obsvars = set()
    for b, ev in P.events(f):
        for x in walk(ev['e']):
            if isinstance(x, dict) and x.get('k') == 'var' and x.get('prec') == 'coap_subscription_t':
                obsvars.add(ap(x))

    def on_event(ev, env, ctx):
        t = ev['e']
        ty = type_asg(t)
        if ty:
            e = apply_generic(ev, env, R).copy()
            if ty == 'NON':
                seen['non'] += 1
                ok = env.ts.get('below') or env.ts.get('always') or env.ts.get('deleting')
                run.oblige('R-OBS-CON', bool(ok), 'non-only-below-limit')
                if not ok:
                    run.violation('R-OBS-CON', NOTIFY, ev['loc'], 'non-without-limit-test',
                                  'a notification is made Non-confirmable on a path that does not know obs->non_cnt < COAP_OBS_MAX_NON (nor NOTIFY_NON_ALWAYS, nor the final 4.04 of a '
                                  'deleted resource): an observer may never again get a Confirmable notification, a dead client is never detected', ctx.path())
            e.ts['ty'] = ty
            e.ts['upd'] = None
            return [e]
        cw = cnt_write(t)
        if cw:
            e = apply_generic(ev, env, R).copy()
            e.ts['upd'] = cw
            return [e]
        if is_send(t):
            seen['send'] += 1
            obs_known = any(env.nullf(v) == 'N' for v in obsvars) and not any(env.nullf(v) == 'Z' for v in obsvars)
            if env.ts.get('ty') and obs_known and not env.ts.get('deleting'):
                ty2, upd = env.ts['ty'], env.ts.get('upd')
                ok = (ty2 == 'CON' and upd == 'reset') or (ty2 == 'NON' and (upd == 'inc' or (upd == 'reset' and env.ts.get('always'))))
                run.oblige('R-OBS-CON', ok, 'counter-follows-type')
                if not ok:
                    run.violation('R-OBS-CON', NOTIFY, ev['loc'], 'counter-not-updated:%s/%s' % (ty2, upd),
                                  'the notification goes out as %s but obs->non_cnt was %s since the type was chosen: the count of consecutive Non-confirmable notifications no longer '
                                  'decides when the next Confirmable one is due' % (ty2, {'inc': 'incremented', 'reset': 'reset', None: 'not updated', 'other': 'assigned something else'}[upd]), ctx.path())
        return None

    def on_branch(b, s, env, ctx):
        c = (b.get('term') or {}).get('cond')
        if c is None or len(b['succ']) != 2:
            return env
        truth = s == b['succ'][0]
        c = strip(c)
        while isinstance(c, dict) and c.get('k') == 'un' and c.get('op') == '!':
            c = strip(c['e'])
            truth = not truth
        if not isinstance(c, dict):
            return env
        # obs->non_cnt < MAX / >= MAX
        if c.get('k') == 'bin' and c.get('op') in ('<', '>=', '<=', '>'):
            l = strip(c['l'])
            if const_int(c['l']) is not None and isinstance(strip(c['r']), dict) and strip(c['r']).get('k') == 'mem':
                # MAX > obs->non_cnt: the same test with its operands the other way round
                c = {'k': 'bin', 'op': {'<': '>', '>': '<', '<=': '>=', '>=': '<='}[c['op']], 'l': c['r'], 'r': c['l']}
                l = strip(c['l'])
            if isinstance(l, dict) and l.get('k') == 'mem' and l.get('f') == 'non_cnt' and const_int(c['r']) is not None:
                K = const_int(c['r'])
                below = None
                if c['op'] == '<':
                    below = truth if (MAXN is None or K <= MAXN) else None
                elif c['op'] == '>=':
                    below = (not truth) if (MAXN is None or K <= MAXN) else None
                elif c['op'] == '<=':
                    below = truth if (MAXN is None or K < MAXN) else None
                elif c['op'] == '>':
                    below = (not truth) if (MAXN is None or K < MAXN) else None
                if below is not None:
                    e = env.copy()
                    e.ts['below'] = bool(below)
                    return e
        # (r->flags & NOTIFY_NON_ALWAYS)
        if c.get('k') == 'bin' and c.get('op') == '&' and NONALWAYS is not None and const_int(c['r']) == NONALWAYS:
            e = env.copy()
            e.ts['always'] = bool(truth)
            return e
        # response->type == CON: prune against the chosen type
        if c.get('k') == 'bin' and c.get('op') in ('==', '!=') and const_int(c['r']) in (NON, CON):
            l = strip(c['l'])
            if isinstance(l, dict) and l.get('k') == 'mem' and l.get('f') == 'type' and l.get('rec') == 'coap_pdu_t' and env.ts.get('ty'):
                want = 'CON' if const_int(c['r']) == CON else 'NON'
                iseq = truth if c['op'] == '==' else not truth
                if iseq != (env.ts['ty'] == want):
                    return None
        return env

    def on_case(env, lab):
        return env
    # the DELETING case of `switch (deleting)`: recognised through the case label value != COAP_NOT_DELETING_RESOURCE
    NOTDEL = P.const_named('COAP_NOT_DELETING_RESOURCE') if _has_const(P, 'COAP_NOT_DELETING_RESOURCE') else 0
    delparam = None
    for p in f['params']:
        if p.get('n') == 'deleting':
            delparam = 'v%d' % p['id']

    def key_fn(e):
        return (e.ts.get('ty'), e.ts.get('upd'), e.ts.get('below'), e.ts.get('always'), e.ts.get('deleting'), tuple(e.nullf(v) for v in sorted(obsvars)))

    def on_event2(ev, env, ctx):
        # derive 'deleting' from the interval of the parameter (set by the switch case labels)
        if delparam:
            lo, hi, ex = env.intf(delparam)
            d = (lo == hi and lo != NOTDEL) or (NOTDEL in ex) or lo > NOTDEL or hi < NOTDEL
            if bool(d) != bool(env.ts.get('deleting')):
                env = env.copy()
                env.ts['deleting'] = bool(d)
                r = on_event(ev, env, ctx)
                return r if r is not None else [apply_generic(ev, env, R)]
        return on_event(ev, env, ctx)
    R = set(R) | ({delparam} if delparam else set()) | obsvars
    solve(f, Env({}), on_event2, None, None, R, key_fn=key_fn, on_branch=on_branch, max_envs=1024, max_steps=400000)
    run.instance('R-OBS-CON', '%s: Non-confirmable choice' % NOTIFY, n=1 if seen['non'] else 0)
    run.instance('R-OBS-CON', '%s: transmission' % NOTIFY, n=1 if seen['send'] else 0)
    run.require(seen['non'] > 0 and seen['send'] > 0, 'R-OBS-CON: type choice / transmission not found in %s()' % NOTIFY)


def _has_const(P, name):
    try:
        P.const_named(name)
        return True
    except Exception:
        return False


def run_rst(run, P):
    run.rule('R-OBS-RST')
    if not P.has(DISPATCH):
        if run.fixture_mode:
            return
        run.require(False, 'anchor %s() of R-OBS-RST not found' % DISPATCH)
    f = P.func(DISPATCH)
    RST = P.const_named('COAP_MESSAGE_RST')
    tyap = None
    for b in f['blocks']:
        t = b.get('term')
        if t and t.get('c') == 'SwitchStmt' and t.get('cond') is not None and 'type' in short(t['cond']):
            tyap = ap(t['cond'])
    run.require(tyap is not None, 'R-OBS-RST: the switch on the message type was not found in %s()' % DISPATCH)
    sentv = set()
    for b, ev in P.events(f):
        t = ev['e']
        if t.get('k') == 'call' and t.get('fn') == 'coap_remove_from_queue' and len(t.get('a', [])) == 4:
            a = strip(t['a'][3])
            if isinstance(a, dict) and a.get('k') == 'un' and ap(a.get('e')):
                sentv.add(ap(a['e']))
    seen = {'n': 0}

    def is_rule_event(ev):
        t = ev['e']
        return t.get('k') == 'call' and t.get('fn') in ('coap_cancel', 'coap_delete_node_lkd', 'coap_remove_from_queue')
    keys, R = relevance(f, is_rule_event, sentv | {tyap})
    R = set(R) | sentv | {tyap}
    for b in f['blocks']:
        t = b.get('term')
        if t and t.get('cond') is not None and (ap(t['cond']) == tyap or any(ap(x) in sentv for x in walk(t['cond']) if isinstance(x, dict))):
            keys = set(keys) | {b['id']}

    def on_event(ev, env, ctx):
        t = ev['e']
        if t.get('k') == 'call' and t.get('fn') == 'coap_cancel':
            e = apply_generic(ev, env, R).copy()
            e.ts['cancel'] = 1
            return [e]
        if t.get('k') == 'call' and t.get('fn') == 'coap_delete_node_lkd' and t.get('a') and ap(t['a'][0]) in sentv:
            lo, hi, ex = env.intf(tyap)
            if lo == hi == RST and env.nullf(ap(t['a'][0])) == 'N':
                seen['n'] += 1
                ok = env.ts.get('cancel') == 1
                run.oblige('R-OBS-RST', ok, 'rst-cancels-observer')
                if not ok:
                    run.violation('R-OBS-RST', DISPATCH, ev['loc'], 'rst-without-cancel',
                                  'a Reset that matched a queued message is finished without coap_cancel(): the observer whose notification was reset stays registered and keeps '
                                  'being notified', ctx.path())
        return None
    solve(f, Env({}), on_event, None, keys, R, key_fn=lambda e: (e.ts.get('cancel'), e.intf(tyap)[:2], tuple(e.nullf(v) for v in sorted(sentv))), max_envs=1024, max_steps=400000)
    run.instance('R-OBS-RST', '%s: RST arm with a matching node' % DISPATCH, n=1 if seen['n'] else 0)
    run.require(seen['n'] > 0, 'R-OBS-RST: no path of the RST arm with a matching queue node reaches the node deletion in %s()' % DISPATCH)


def run_dirty(run, P):
    """R-OBS-DIRTY ("the last state is always eventually notified"): coap_notify_observers() clears r->dirty when it returns.  An
    observer that is skipped BEFORE its notification was handed to the transmit path (NSTART back-pressure, a large transfer
    still running) is only ever visited again through the partially-dirty pass, and that pass skips observers whose own dirty
    flag is clear.  So inside the subscriber loop every path that sets r->partiallydirty = 1 without having sent also sets
    obs->dirty = 1 before the iteration ends."""
    run.rule('R-OBS-DIRTY')
    if not P.has(NOTIFY):
        if run.fixture_mode:
            return
        run.require(False, 'anchor %s() of R-OBS-DIRTY not found' % NOTIFY)
    f = P.func(NOTIFY)
    seen = {'pd': 0}

    def fld_set(t, rec, fld):
        if t.get('k') == 'asg' and t.get('op') == '=' and const_int(t['r']) == 1:
            l = strip(t['l'])
            return isinstance(l, dict) and l.get('k') == 'mem' and l.get('f') == fld and l.get('rec') == rec
        return False

    def is_iter_start(t):
        # first statement of the loop body: a local is loaded from the current observer
        if t.get('k') == 'asg' and t.get('op') == '=':
            r = strip(t['r'])
            return isinstance(r, dict) and r.get('k') == 'mem' and r.get('rec') == 'coap_subscription_t' and r.get('f') == 'session' and ap(t['l']) and '>' not in ap(t['l'])
        return False

    def is_send(t):
        return t.get('k') == 'call' and t.get('fn') in ('coap_send_internal', 'coap_send_q_block2')

    def is_rule_event(ev):
        t = ev['e']
        return fld_set(t, 'coap_resource_t', 'partiallydirty') or fld_set(t, 'coap_subscription_t', 'dirty') or is_iter_start(t) or is_send(t)
    keys, R = relevance(f, is_rule_event)

    def settle(env, ctx):
        pd = env.ts.get('pd')
        if pd and not env.ts.get('sent'):
            ok = bool(env.ts.get('od'))
            run.oblige('R-OBS-DIRTY', ok, 'skip-marks-observer-dirty')
            if not ok:
                run.violation('R-OBS-DIRTY', NOTIFY, pd, 'skipped-observer-not-marked',
                              'an observer is skipped with r->partiallydirty = 1 but without obs->dirty = 1: when the function clears r->dirty the partially-dirty pass will pass this '
                              'observer by ("already enqueued") and it never receives the latest state', ctx.path())

    def on_event(ev, env, ctx):
        t = ev['e']
        if is_iter_start(t):
            settle(env, ctx)
            e = apply_generic(ev, env, R).copy()
            for k2 in ('pd', 'od', 'sent'):
                e.ts.pop(k2, None)
            return [e]
        if fld_set(t, 'coap_resource_t', 'partiallydirty'):
            seen['pd'] += 1
            e = apply_generic(ev, env, R).copy()
            if not env.ts.get('pd'):
                e.ts['pd'] = ev['loc']
            return [e]
        if fld_set(t, 'coap_subscription_t', 'dirty'):
            e = apply_generic(ev, env, R).copy()
            e.ts['od'] = 1
            return [e]
        if is_send(t):
            e = apply_generic(ev, env, R).copy()
            e.ts['sent'] = 1
            return [e]
        return None

    def on_exit(env, ctx):
        settle(env, ctx)
    solve(f, Env({}), on_event, on_exit, keys, R, key_fn=lambda e: (e.ts.get('pd'), e.ts.get('od'), e.ts.get('sent')))
    run.instance('R-OBS-DIRTY', '%s: partially-dirty skips' % NOTIFY, n=1 if seen['pd'] else 0)
    run.require(seen['pd'] > 0, 'R-OBS-DIRTY: r->partiallydirty = 1 not found in %s()' % NOTIFY)


def run_delete_key(run, P):
    """R-OBS-RST (whose observer): coap_delete_observer(resource, session, token) removes the subscription of `session` with that token.
    Where the token is read out of a subscription X that a loop is looking at (`&X->pdu->actual_token`), the session argument has to be X's
    own: it is `X->session` itself, the path knows `X->session == session`, or X is what a look-up that was given that session returned.  Message ids are per-session counters, so "the subscription
    whose last notification had this message id" is some other client's as soon as the session is not compared: the delete then finds
    nothing (other client's token under this session), the search stops, and the client that sent the Reset keeps being notified."""
    from core.psts import Env, solve, relevance, apply_generic
    run.rule('R-OBS-RST')
    n = 0
    for f in sorted(P.lib_funcs(), key=lambda f: f['name']):
        sites = []
        for b, ev in P.events(f):
            t = ev['e']
            if t.get('k') == 'call' and t.get('fn') == 'coap_delete_observer' and len(t.get('a') or []) >= 3:
                xs = [strip(y['b']) for y in walk(t['a'][2]) if isinstance(y, dict) and y.get('k') == 'mem' and y.get('f') == 'pdu' and isinstance(strip(y.get('b')), dict)
                      and strip(y['b']).get('k') == 'var' and strip(y['b']).get('prec') == 'coap_subscription_t']
                if xs and ap(xs[0]) and ap(t['a'][1]):
                    sites.append((ev, ap(xs[0]), t['a'][1]))
        if not sites:
            continue
        name = f['name']

        xvars = set(s[1] for s in sites)

        def finder(ev):
            """X = look-up(.., S, ..): the finder was told whose subscription to look for"""
            t = ev['e']
            if t.get('k') == 'asg' and t.get('op') == '=' and ap(t['l']) in xvars:
                r = strip(t['r'])
                if isinstance(r, dict) and r.get('k') == 'call':
                    return ap(t['l']), [ap(a) for a in r.get('a') or [] if ap(a)]
                return ap(t['l']), []
            return None

        def is_rule_event(ev):
            return any(ev is s[0] for s in sites) or finder(ev) is not None
        keys, R = relevance(f, is_rule_event)
        keys = set(keys)
        for b in f['blocks']:
            c = (b.get('term') or {}).get('cond')
            if c is not None and any(isinstance(y, dict) and y.get('k') == 'mem' and y.get('f') == 'session' and ap(y.get('b')) in xvars for y in walk(c)):
                keys.add(b['id'])

        def on_event(ev, env, ctx):
            fd = finder(ev)
            if fd is not None:
                e = apply_generic(ev, env, R).copy()
                e.ts['via:' + fd[0]] = tuple(fd[1])
                return [e]
            for sev, x, sarg in sites:
                if ev is sev:
                    want = x + '->session'
                    sa = ap(sarg)
                    ok = sa == want or sa in env.ts.get('via:' + x, ())
                    if not ok:
                        for ak, av in env.atoms.items():
                            if want in ak and sa in ak and (('==' in ak and av is True) or ('!=' in ak and av is False)):
                                ok = True
                    run.oblige('R-OBS-RST', ok, '%s:delete-own-observer' % name)
                    if not ok:
                        run.violation('R-OBS-RST', name, ev['loc'], 'observer-token-with-foreign-session',
                                      'coap_delete_observer() is given the token of the subscription the loop is looking at and the session %s, on a path that does not know '
                                      'that subscription belongs to that session: with equal message ids on two sessions another client\'s subscription is selected, nothing is '
                                      'deleted, and the client that sent the Reset keeps being notified' % short(sarg)[:30], ctx.path())
            return None
        for s in sites:
            n += 1
            run.instance('R-OBS-RST', '%s: deletes the observer a loop is looking at' % name)
        solve(f, Env(), on_event, None, keys, R, key_fn=lambda e: (tuple(sorted((k, v) for k, v in e.atoms.items() if any(x in k for x in xvars))), tuple(sorted((k, v) for k, v in e.ts.items() if k.startswith('via:')))), max_envs=128)
    run.require_count(n >= (2 if run.cfg == 'base' else 0) or run.fixture_mode, 'R-OBS-RST(whose observer): fewer than 2 deletions of a looked-at observer found')


def run_delete_all(run, P, fname='coap_delete_observers'):
    """R-OBS-RST (session loss removes every observer): when a session is lost, coap_delete_observers() is the only clean-up of what that
    session observes.  A client may hold several observations on one resource (different queries: different cache keys), so the removal
    has to visit every subscription of every resource: structurally, a subscription is freed (coap_free_type(COAP_SUBSCRIPTION, ..) or a
    helper that does it) inside a loop that walks a subscriber list (a loop that advances a coap_subscription_t pointer).  A single
    look-up-and-delete per resource leaves the second observation alive: it keeps its session reference and keeps being notified."""
    from rules.r_sizefill import natural_loops
    run.rule('R-OBS-RST')
    if not P.has(fname):
        run.require(run.fixture_mode or run.cfg != 'base', 'R-OBS-RST(session loss): anchor %s() not found' % fname)
        return
    f = P.func(fname)
    B = f['B']
    loops = natural_loops(f)
    # helpers that free a subscription
    SUB = None
    try:
        SUB = P.const_named('COAP_SUBSCRIPTION')
    except Exception:
        pass

    def frees_sub(t):
        if t.get('k') != 'call':
            return False
        if t.get('fn') == 'coap_free_type' and t.get('a') and (SUB is None or const_int(t['a'][0]) == SUB):
            return True
        return t.get('fn') in ('coap_delete_observer_internal',)
    ok = False
    nloops = 0
    for h, body in loops.items():
        walks = False
        for bid in body:
            for ev in B[bid]['elems']:
                t = ev['e']
                if t.get('k') == 'asg' and isinstance(strip(t['l']), dict) and strip(t['l']).get('k') == 'var' and strip(t['l']).get('prec') == 'coap_subscription_t':
                    walks = True
            c = (B[bid].get('term') or {}).get('cond')
            if c is not None and any(isinstance(x, dict) and x.get('k') == 'var' and x.get('prec') == 'coap_subscription_t' for x in walk(c)):
                walks = walks or bid == h
        if not walks:
            continue
        nloops += 1
        if any(frees_sub(ev['e']) for bid in body for ev in B[bid]['elems']):
            ok = True
    run.instance('R-OBS-RST', '%s: frees subscriptions inside a loop over a subscriber list (%d such loop(s))' % (fname, nloops))
    run.oblige('R-OBS-RST', ok, '%s:removes-every-subscription' % fname)
    if not ok:
        run.violation('R-OBS-RST', fname, f['loc'], 'session-loss-removes-one-observer-only',
                      '%s() no longer frees subscriptions inside a loop that walks a subscriber list: a session that holds several observations on one resource keeps all '
                      'but one of them after it is lost, with their session references, and they are still notified' % fname, [])


def run_fail_count(run, P, field='fail_cnt'):
    """R-OBS-RST (a failed Confirmable notification ends the observation): the function that is told about a notification nobody
    acknowledged counts THIS failure before it judges the count: every branch whose condition reads X->fail_cnt is reached, on every path,
    after X->fail_cnt was stepped in the same call.  With the default COAP_OBS_MAX_FAIL of 1 a test on the old count lets the first
    given-up notification pass: the observer stays registered, keeps its session alive and keeps being notified -- the clause "after a
    failed Confirmable notification no further notification is sent" is gone."""
    run.rule('R-OBS-RST')
    n = 0

    def fld(x):
        x = strip(x)
        return isinstance(x, dict) and x.get('k') == 'mem' and x.get('f') == field

    for f in sorted(P.lib_funcs(), key=lambda f: f['name']):
        tests = [b for b in f['blocks'] if (b.get('term') or {}).get('cond') is not None and len(b['succ']) == 2 and
                 any(fld(x) for x in walk(b['term']['cond']) if isinstance(x, dict))]
        if not tests:
            continue
        name = f['name']
        tids = set(b['id'] for b in tests)

        def is_step(t):
            return (t.get('k') == 'un' and t.get('op') in ('++', 'post++') and fld(t.get('e'))) or (t.get('k') == 'asg' and t.get('op') == '+=' and fld(t['l']))

        def is_rule_event(ev):
            return is_step(ev['e'])
        keys, R = relevance(f, is_rule_event)
        keys = set(keys) | tids
        rep = set()

        def on_event(ev, env, ctx):
            if is_step(ev['e']) and not env.ts.get('stepped'):
                e = apply_generic(ev, env, R).copy()
                e.ts['stepped'] = 1
                return [e]
            return None

        def on_branch(b, s, env, ctx):
            if b['id'] in tids:
                ok = bool(env.ts.get('stepped'))
                run.oblige('R-OBS-RST', ok, '%s:failure-counted-before-judged' % name)
                if not ok and b['id'] not in rep:
                    rep.add(b['id'])
                    run.violation('R-OBS-RST', name, b['term'].get('loc') or f['loc'], 'fail-count-judged-before-counted',
                                  '`%s` judges the observer\'s failure count on a path that has not counted the failure this call reports: with COAP_OBS_MAX_FAIL == 1 the '
                                  'first given-up Confirmable notification leaves the observer registered' % short(b['term']['cond'])[:60], ctx.path())
            return env
        n += len(tests)
        run.instance('R-OBS-RST', '%s: %s is stepped before it is compared with the limit' % (name, field))
        solve(f, Env(), on_event, None, keys, R, key_fn=lambda e: e.ts.get('stepped'), on_branch=on_branch)
    run.require_count(n >= 1 or run.fixture_mode or run.cfg != 'base', 'R-OBS-RST(failure count): no test of %s found (expected coap_remove_failed_observers)' % field)


def run_counter_owner(run, P, rec='coap_subscription_t', field='non_cnt'):
    """R-OBS-CON (who may write the run counter): the length of the current run of Non-confirmable notifications is judged in the
    function(s) whose conditions read `->non_cnt` (computed: the deciders).  Every write of the field lies in a decider or in a
    function all of whose callers are deciders (a helper split out of one): a reset anywhere else - on an ACK, on a refreshed
    registration - restarts the run without a Confirmable having been sent, and the "at least every sixth" bound is gone."""
    run.rule('R-OBS-CON')
    def is_f(x):
        x = strip(x)
        return isinstance(x, dict) and x.get('k') == 'mem' and x.get('f') == field and x.get('rec') == rec
    deciders, writers = set(), collections.defaultdict(list)
    for f in P.lib_funcs():
        for b in f['blocks']:
            c = (b.get('term') or {}).get('cond')
            if c is not None and any(is_f(y) for y in walk(c)):
                deciders.add(f['name'])
        for b, ev in P.events(f):
            t = ev['e']
            if (t.get('k') == 'asg' and is_f(t['l'])) or (t.get('k') == 'un' and t.get('op') in ('++', '--') and is_f(t.get('e'))):
                writers[f['name']].append(ev)
    if not deciders or not any(w in deciders for w in writers):
        raise AnalysisBroken('R-OBS-CON (run counter owner): no function both judges and writes %s.%s' % (rec, field))
    ok_fns = set(deciders)
    changed = True
    while changed:
        changed = False
        for w in writers:
            if w not in ok_fns:
                cs = P.callers(w)
                if cs and all(c in ok_fns for c in cs) and P.funcs[w].get('static'):
                    ok_fns.add(w)
                    changed = True
    for w, evs in sorted(writers.items()):
        for ev in evs:
            run.instance('R-OBS-CON', '%s: writes %s' % (w, short(ev['e'])))
            ok = w in ok_fns
            run.oblige('R-OBS-CON', ok, '%s:run-counter-writer' % w)
            if not ok:
                run.violation('R-OBS-CON', w, ev['loc'], 'run-counter-written-outside-decider:%s' % field,
                              '`%s` changes the count of consecutive Non-confirmable notifications in %s(), which neither chooses the message type nor is a helper of the '
                              'function that does (%s): the run restarts although no Confirmable notification was sent, so an observer can be sent Non-confirmables for ever' % (
                                  short(ev['e']), w, ', '.join(sorted(deciders))))
