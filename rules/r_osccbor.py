"""R-OSC-CBOR (C14): the CBOR head the OSCORE code writes (RFC 8949 3: argument < 24 in the initial byte; < 2^8 -> 0x18 + 1 byte; < 2^16 -> 0x19
+ 2; < 2^32 -> 0x1a + 4; else 0x1b + 8).  Every byte string that goes into the HKDF info, the AAD and the COSE object is framed by
oscore_cbor_put_unsigned(); a head that is off at one boundary changes the derived keys for exactly the contexts whose id / id context /
AAD has that length -- invisible between two libcoap peers (both are wrong the same way), fatal against any other implementation.

Decided exactly on the extracted function by abstract execution for the boundary values of every form (0, 23, 24, 255, 256, 65535, 65536,
2^32-1, 2^32, 2^64-1): conditions are folded with `value` bound to the constant (assert()s are not there in the NDEBUG build), the constant
stored through the output cursor as additional-information byte and the constant returned as length are compared with the RFC's."""
from core.prog import strip, walk, ap, short, const_int, succs
from core.facts import AnalysisBroken
from rules.r_uriclass import _eval, Unfold

WRITER = 'oscore_cbor_put_unsigned'
FORMS = ((0, None, 1), (23, None, 1), (24, 0x18, 2), (255, 0x18, 2), (256, 0x19, 3), (65535, 0x19, 3), (65536, 0x1a, 5),
         (2 ** 32 - 1, 0x1a, 5), (2 ** 32, 0x1b, 9), (2 ** 64 - 1, 0x1b, 9))


def run(run, P):
    run.rule('R-OSC-CBOR')
    if not P.has(WRITER):
        run.require(run.fixture_mode or run.cfg != 'base', 'R-OSC-CBOR: anchor %s() not found' % WRITER)
        return
    f = P.func(WRITER)
    B = f['B']
    vparam = [p for p in f['params'] if not p.get('p')]
    run.require(len(vparam) == 1, 'R-OSC-CBOR: %s() no longer has exactly one value parameter' % WRITER)
    vname = vparam[0]['n']
    for v, want_ai, want_len in FORMS:
        cur = f['entry']
        ai = None
        ret = None
        steps = 0
        try:
            while cur is not None and steps < 200:
                steps += 1
                b = B[cur]
                for ev in b['elems']:
                    t = ev['e']
                    if t.get('k') == 'asg' and t.get('op') == '=':
                        l = strip(t['l'])
                        K = const_int(t['r'])
                        # **buffer = K
                        if K is not None and isinstance(l, dict) and l.get('k') == 'un' and l.get('op') == '*' and isinstance(strip(l.get('e')), dict) and strip(l['e']).get('k') == 'un' and strip(l['e']).get('op') == '*':
                            ai = K
                    if t.get('k') == 'ret' and t.get('e') is not None:
                        ret = const_int(t['e'])
                        cur = None
                        break
                else:
                    term = b.get('term') or {}
                    if term.get('cond') is not None and len(b['succ']) == 2:
                        val = _eval(P, term['cond'], {vname: v})
                        cur = b['succ'][0] if val else b['succ'][1]
                    else:
                        ss = succs(b)
                        cur = ss[0] if ss else None
                    continue
                break
        except Unfold as e:
            raise AnalysisBroken('R-OSC-CBOR: %s(): %s' % (WRITER, e))
        run.instance('R-OSC-CBOR', '%s(%d): additional information %s, %s byte(s)' % (WRITER, v, 'value' if want_ai is None else hex(want_ai), want_len))
        ok = ret == want_len and (want_ai is None or ai == want_ai) and (want_ai is not None or ai is None)
        run.oblige('R-OSC-CBOR', ok, 'head:%d' % v)
        if not ok:
            run.violation('R-OSC-CBOR', WRITER, f['loc'], 'cbor-head-form:%d' % v,
                          'for the argument %d the writer produces additional information %s and returns %s byte(s); RFC 8949 prescribes %s and %d byte(s): every byte string of '
                          'that length (ids, ID Context, AAD) is framed differently from any other implementation and the derived keys do not match' %
                          (v, 'the value itself' if ai is None else hex(ai), ret, 'the value itself' if want_ai is None else hex(want_ai), want_len), [])
