"""R-ATTR-FLAGS (C20): a link attribute is added with flags that say which of its two strings the caller hands over for good
(COAP_ATTR_FLAGS_RELEASE_NAME, COAP_ATTR_FLAGS_RELEASE_VALUE); what is not handed over is copied, because the listing is printed from the
attribute's own strings long after the call.  Flag/field agreement in the function that tests these flags: the variable that is (re)assigned
under the test of RELEASE_<X> is the one that is stored into the attribute field <x> (name <-> RELEASE_NAME, value <-> RELEASE_VALUE).  With
the flags crossed, an attribute added with one flag keeps the caller's pointer for the other string: discovery later lists whatever the
caller's buffer holds by then."""
from core.prog import strip, walk, ap, short, const_int, transitive_control_deps

PREFIX = 'COAP_ATTR_FLAGS_RELEASE_'


def run(run, P):
    run.rule('R-ATTR-FLAGS')
    n = 0
    for f in sorted(P.lib_funcs(), key=lambda f: f['name']):
        B = f['B']
        tests = {}
        for b in f['blocks']:
            c = (b.get('term') or {}).get('cond')
            if c is None:
                continue
            for x in walk(c):
                if isinstance(x, dict) and x.get('k') == 'int' and (x.get('mn') or '').startswith(PREFIX):
                    tests[b['id']] = x['mn'][len(PREFIX):].lower()
        if not tests:
            continue
        # field each local ends up in: attr->F = V
        dest = {}
        for b, ev in P.events(f):
            t = ev['e']
            if t.get('k') == 'asg' and t.get('op') == '=':
                l = strip(t['l'])
                if isinstance(l, dict) and l.get('k') == 'mem' and l.get('rec') == 'coap_attr_t' and ap(strip(t['r'])):
                    dest.setdefault(ap(strip(t['r'])), set()).add(l['f'])
        for b in f['blocks']:
            deps = set(bb for (bb, idx) in transitive_control_deps(f, b['id']))
            roles = set(tests[bb] for bb in deps if bb in tests)
            if len(roles) != 1:
                continue
            role = list(roles)[0]
            for ev in b['elems']:
                t = ev['e']
                if t.get('k') == 'asg' and t.get('op') == '=' and ap(t['l']) in dest:
                    n += 1
                    flds = dest[ap(t['l'])]
                    ok = flds == {role}
                    run.instance('R-ATTR-FLAGS', '%s: %s under RELEASE_%s ends up in attr->%s' % (f['name'], short(t['l']), role.upper(), '/'.join(sorted(flds))))
                    run.oblige('R-ATTR-FLAGS', ok, '%s:flag-field:%s' % (f['name'], role))
                    if not ok:
                        run.violation('R-ATTR-FLAGS', f['name'], ev['loc'], 'flag-field-crossed:%s' % role,
                                      'under the test of %s%s the variable %s is (re)assigned, but that variable is what is stored into attr->%s: the copy decision for one '
                                      'string is taken from the flag of the other' % (PREFIX, role.upper(), short(t['l']), '/'.join(sorted(flds))), [])
    run.require_count(n >= 2 or run.fixture_mode, 'R-ATTR-FLAGS: fewer than 2 copy decisions under the attribute release flags found')
