"""R-URI-CLASS (C16): abstract (constant) evaluation of the pure predicates is_unescaped_in_path /
is_unescaped_in_query over all 256 byte values on the extracted expression tree; the separator the
reconstruction writes between segments ('/' resp. '&') and the escape character '%' must not be in the
unescaped set, or different segment lists reconstruct to the same string.  Anything the evaluator cannot
fold is exit 2."""
from core.prog import strip, walk, ap, short, const_int, is_null_const
from core.facts import AnalysisBroken

PAIRS = {'coap_get_uri_path': 'is_unescaped_in_path', 'coap_get_query': 'is_unescaped_in_query'}


class Unfold(AnalysisBroken):
    pass


def _eval(P, t, env, depth=0):
    t = strip(t)
    if not isinstance(t, dict) or depth > 40:
        raise Unfold('cannot fold %s' % short(t))
    k = t.get('k')
    if k == 'int':
        return const_int(t)
    if k == 'var':
        if t['n'] in env:
            return env[t['n']]
        raise Unfold('free variable %s' % t['n'])
    if k == 'bin':
        op = t['op']
        if op == '&&':
            return int(bool(_eval(P, t['l'], env, depth + 1)) and bool(_eval(P, t['r'], env, depth + 1)))
        if op == '||':
            return int(bool(_eval(P, t['l'], env, depth + 1)) or bool(_eval(P, t['r'], env, depth + 1)))
        l = _eval(P, t['l'], env, depth + 1)
        r = _eval(P, t['r'], env, depth + 1)
        tab = {'==': lambda: int(l == r), '!=': lambda: int(l != r), '<': lambda: int(l < r), '<=': lambda: int(l <= r),
               '>': lambda: int(l > r), '>=': lambda: int(l >= r), '+': lambda: l + r, '-': lambda: l - r, '&': lambda: l & r,
               '|': lambda: l | r, '^': lambda: l ^ r, '>>': lambda: l >> r, '<<': lambda: l << r}
        if op in tab:
            return tab[op]()
        raise Unfold('operator %s' % op)
    if k == 'un' and t['op'] == '!':
        return int(not _eval(P, t['e'], env, depth + 1))
    if k == 'cond':
        return _eval(P, t['x'], env, depth + 1) if _eval(P, t['c'], env, depth + 1) else _eval(P, t['y'], env, depth + 1)
    if k == 'call' and t.get('fn') in P.funcs:
        return call(P, t['fn'], [_eval(P, a, env, depth + 1) for a in t['a']], depth + 1)
    raise Unfold('cannot fold %s' % short(t))


def call(P, fn, args, depth=0):
    f = P.funcs[fn]
    env = dict((p['n'], a) for p, a in zip(f['params'], args))
    rets = [ev['e'] for b, ev in P.events(f) if ev['e'].get('k') == 'ret']
    others = [ev['e'] for b, ev in P.events(f) if ev['e'].get('k') in ('asg', 'decl') or (ev['e'].get('k') == 'un' and ev['e'].get('op') in ('++', '--'))]
    if len(rets) != 1 or others:
        raise Unfold('%s() is not a single-expression pure predicate any more' % fn)
    return _eval(P, rets[0]['e'], env, depth)


def run(run, P):
    run.rule('R-URI-CLASS')
    for recon, pred in sorted(PAIRS.items()):
        if not (P.has(recon) and P.has(pred)):
            if run.fixture_mode:
                continue
            run.require(False, 'anchor %s()/%s() of R-URI-CLASS not found' % (recon, pred))
        f = P.func(recon)
        consts = set()
        for b, ev in P.events(f):
            t = ev['e']
            if t.get('k') == 'asg' and t.get('op') == '=':
                l = strip(t['l'])
                K = const_int(t['r'])
                if K is not None and isinstance(l, dict) and l.get('k') == 'un' and l.get('op') == '*' and 32 <= K < 127:
                    consts.add(K)
        seps = sorted(consts - {ord('%')})
        run.require(ord('%') in consts and seps, 'R-URI-CLASS: %s() no longer writes an escape character and a separator through its cursor' % recon)
        # what the reconstruction really copies unescaped: one abstract iteration of its filling loop per byte value (a byte is unescaped when
        # exactly one byte is stored for it); falls back to the predicate alone when the function has no recognisable filling loop
        U = None
        try:
            from rules import r_sizefill
            fills = [l for l in r_sizefill.classify(P, f) if l[1] == 'fill']
            if len(fills) == 1:
                U = [c for c in range(256) if r_sizefill.iterate(P, f, fills[0], c) == 1]
        except (Unfold, KeyError):
            U = None
        if U is None:
            U = [c for c in range(256) if call(P, pred, [c])]
        run.stats['unescaped_set[%s]' % pred] = len(U)
        run.instance('R-URI-CLASS', '%s: %d unescaped byte values; reconstruction %s writes separator(s) %s' % (pred, len(U), recon, ''.join(chr(c) for c in seps)))
        for ch in seps + [ord('%')]:
            ok = ch not in U
            run.oblige('R-URI-CLASS', ok, '%s:%s' % (pred, chr(ch)))
            if not ok:
                run.violation('R-URI-CLASS', pred, P.funcs[pred]['loc'], 'separator-unescaped:%s' % chr(ch),
                              "%s() says byte '%s' is copied unescaped, but %s() also writes '%s' between segments (or as the escape introducer): "
                              "the segment lists [\"a%sb\"] and [\"a\",\"b\"] reconstruct to the same string, so the lookup key is not injective"
                              % (pred, chr(ch), recon, chr(ch), chr(ch)))


def run_hexcase(run, P, units=('coap_uri.c',)):
    """R-URI-CLASS (hex case): the hex digits of a percent-escape are case-insensitive (RFC 3986 2.1, 6.2.2.1).  In the URI unit every
    equality test of some expression against a hex LETTER ('A'-'F', 'a'-'f') has a twin that tests the same expression against the letter
    of the other case: per function and per tested expression the upper-case and the lower-case tests of a letter occur equally often
    (case labels count as tests of the switch expression).  `%2E` recognised where `%2e` is not makes two spellings of one path resolve
    differently."""
    import collections
    run.rule('R-URI-CLASS')
    n = 0
    for f in sorted(P.lib_funcs(), key=lambda f: f['name']):
        if f['unit'] not in units:
            continue
        cnt = collections.Counter()
        locs = {}
        for b in f['blocks']:
            exprs = [(ev['e'], ev['loc']) for ev in b['elems']]
            if b.get('term') and b['term'].get('cond') is not None:
                exprs.append((b['term']['cond'], b['term'].get('loc')))
            for e, loc in exprs:
                for x in walk(e):
                    if isinstance(x, dict) and x.get('k') == 'bin' and x.get('op') in ('==', '!='):
                        for a, c in ((x['l'], x['r']), (x['r'], x['l'])):
                            K = const_int(c)
                            if K is not None and (65 <= K <= 70 or 97 <= K <= 102) and const_int(a) is None:
                                # a comparison that folds the case first (tolower / toupper / a 0x20 mask) covers both spellings by itself
                                if any(isinstance(y, dict) and ((y.get('k') == 'call' and y.get('fn') in ('tolower', 'toupper')) or
                                                               (y.get('k') == 'bin' and y.get('op') in ('|', '&') and (const_int(y.get('r')) in (0x20, 0xdf, -33) or const_int(y.get('l')) in (0x20, 0xdf, -33))))
                                       for y in walk(a)):
                                    continue
                                cnt[(short(strip(a)), K)] += 1
                                locs[(short(strip(a)), K)] = loc
            lab = b.get('label')
            if lab and lab.get('k') == 'case' and 'hi' not in lab and (65 <= lab['lo'] <= 70 or 97 <= lab['lo'] <= 102):
                cnt[('switch', lab['lo'])] += 1
                locs[('switch', lab['lo'])] = f['loc']
        # every comparison is counted once per CFG occurrence; the extractor may list a condition in more than one block: compare ratios
        for (xs, K), c in sorted(cnt.items()):
            if K >= 97:
                continue
            n += 1
            lower = cnt.get((xs, K + 32), 0)
            ok = lower == c
            run.instance('R-URI-CLASS', '%s: %s == \'%s\' has its lower-case twin' % (f['name'], xs[:30], chr(K)))
            run.oblige('R-URI-CLASS', ok, '%s:hexcase:%s' % (f['name'], chr(K)))
            if not ok:
                run.violation('R-URI-CLASS', f['name'], locs[(xs, K)], 'hex-letter-one-case-only:%s' % chr(K),
                              "%s is compared with '%s' %d time(s) but with '%s' %d time(s) in this function: one spelling of a percent-escape is recognised where the other "
                              "is not, so two spellings of the same URI are treated differently" % (xs[:40], chr(K), c, chr(K + 32), lower), [])
        for (xs, K), c in sorted(cnt.items()):
            if K >= 97 and (xs, K - 32) not in cnt:
                n += 1
                run.oblige('R-URI-CLASS', False, '%s:hexcase:%s' % (f['name'], chr(K)))
                run.violation('R-URI-CLASS', f['name'], locs[(xs, K)], 'hex-letter-one-case-only:%s' % chr(K),
                              "%s is compared with '%s' but never with '%s' in this function" % (xs[:40], chr(K), chr(K - 32)), [])
    run.require_count(n >= 1 or run.fixture_mode, 'R-URI-CLASS(hex case): no comparison with a hex letter found in %s' % (units,))


def run_dot_root(run, P, units=('coap_uri.c',)):
    """R-URI-CLASS (dot-dot stops at the root): resolving a `..` segment deletes the last element of the option list, starting at a
    position the converting function chose.  A `..` that has no path segment left to remove must remove nothing (RFC 3986 5.2.4), in
    particular none of the options the caller's chain already held (coap_uri_into_optlist() puts Uri-Host and Uri-Port there first).
    Structural form: 'trimming' helpers = functions of the URI unit with a `T **` parameter that delete an element reached from it and
    cut it off (`->next = NULL` / `*param = NULL`); in every caller the position handed to such a helper is a local whose definitions
    are `= <the chain parameter>` and `= &(*local)->next` inside a loop that runs while `*local` (i.e. the local ends up behind the
    LAST element the chain held at entry) -- any other definition (`&(*chain)->next`: behind the FIRST element only) is the violation."""
    from rules.r_sizefill import natural_loops
    run.rule('R-URI-CLASS')
    trimmers = {}
    for f in P.lib_funcs():
        if units and f['unit'] not in units:
            continue
        for i, p in enumerate(f.get('params') or ()):
            if not (p.get('t') or '').endswith('**'):
                continue
            pk = 'v%s' % p['id']
            deletes = cuts = False
            for b, ev in P.events(f):
                t = ev['e']
                if t.get('k') == 'call' and (t.get('fn') or '').startswith('coap_delete_'):
                    deletes = True
                if t.get('k') == 'asg' and t.get('op') == '=' and (const_int(t['r']) == 0 or is_null_const(t['r'])):
                    l = strip(t['l'])
                    if isinstance(l, dict) and ((l.get('k') == 'mem' and l.get('f') == 'next') or (l.get('k') == 'un' and l.get('op') == '*' and ap(l.get('e')) == pk)):
                        cuts = True
            if deletes and cuts:
                trimmers[(f['name'], i)] = p['n']
    n = 0
    for f in sorted(P.lib_funcs(), key=lambda f: f['name']):
        if units and f['unit'] not in units:
            continue
        pos = {}
        for b, ev in P.events(f):
            t = ev['e']
            if t.get('k') == 'call' and ev.get('top', True):
                for (fn, i), pn in trimmers.items():
                    if t.get('fn') == fn and len(t.get('a') or ()) > i:
                        a = strip(t['a'][i])
                        if isinstance(a, dict) and a.get('k') == 'var' and a.get('pi') is None:
                            pos[ap(a)] = (a['n'], fn, ev['loc'])
                        elif isinstance(a, dict) and a.get('k') == 'var' and a.get('pi') is not None and (a.get('t') or '').count('*') >= 2:
                            # the chain PARAMETER itself: the trimming starts at the head of what the caller supplied
                            n += 1
                            run.instance('R-URI-CLASS', '%s: the chain parameter %s itself is handed to %s()' % (f['name'], a['n'], fn))
                            run.oblige('R-URI-CLASS', False, '%s:%s:trim-position-behind-callers-chain' % (f['name'], a['n']))
                            run.violation('R-URI-CLASS', f['name'], ev['loc'], 'dot-dot-can-remove-callers-option:%s' % a['n'],
                                          '%s() resolves ".." by letting %s() delete the last element starting from the chain parameter %s itself, not from the end of what the caller '
                                          'supplied: a ".." at the root of the path deletes an option that was in the chain before (Uri-Port after Uri-Host)' % (f['name'], fn, a['n']), [])
        if not pos:
            continue
        loops = natural_loops(f)
        B = f['B']
        params = set('v%s' % p['id'] for p in f.get('params') or ())
        for vk, (vn, fn, loc) in sorted(pos.items()):
            bad = None
            ndefs = 0
            for b, ev in P.events(f):
                t = ev['e']
                if not (t.get('k') == 'asg' and t.get('op') == '=' and ev.get('top', True) and ap(t['l']) == vk):
                    continue
                ndefs += 1
                r = strip(t['r'])
                if isinstance(r, dict) and r.get('k') == 'var' and ap(r) in params:
                    continue                                 # = the chain parameter
                ok = False
                if isinstance(r, dict) and r.get('k') == 'un' and r.get('op') == '&':
                    m = strip(r['e'])
                    if isinstance(m, dict) and m.get('k') == 'mem' and m.get('f') == 'next':
                        base = strip(m['b'])
                        if isinstance(base, dict) and base.get('k') == 'un' and base.get('op') == '*' and ap(base.get('e')) == vk:
                            for h, body in loops.items():
                                c = (B[h].get('term') or {}).get('cond')
                                if b['id'] in body and c is not None and any(isinstance(x, dict) and x.get('k') == 'un' and x.get('op') == '*' and ap(x.get('e')) == vk for x in walk(c)):
                                    ok = True
                if not ok:
                    bad = bad or ev
            n += 1
            run.instance('R-URI-CLASS', '%s: the position %s handed to %s() is the end of the chain the caller supplied' % (f['name'], vn, fn))
            run.oblige('R-URI-CLASS', bad is None and ndefs > 0, '%s:%s:trim-position-behind-callers-chain' % (f['name'], vn))
            if bad is not None or not ndefs:
                e = bad or {'loc': loc, 'e': None}
                run.violation('R-URI-CLASS', f['name'], e['loc'], 'dot-dot-can-remove-callers-option:%s' % vn,
                              '%s() resolves ".." by letting %s() delete the last element from position %s on, and %s is defined by `%s`, which is not "the chain parameter, '
                              'advanced while *%s": a ".." at the root of the path deletes an option that was in the chain before (Uri-Port after Uri-Host)'
                              % (f['name'], fn, vn, vn, short(bad['e'])[:60] if bad else 'nothing', vn), [])
    run.require_count(n >= 1 or run.fixture_mode or run.cfg != 'base', 'R-URI-CLASS(dot-dot): no call of a list-trimming helper with a local position found (expected coap_path_into_optlist -> backup_optlist)')


def run_default_ports(run, P, table='coap_uri_scheme', fname='coap_uri_into_optlist'):
    """R-URI-CLASS (default ports agree): the splitter takes a scheme's default port from the table `coap_uri_scheme[]`; the converter to
    options decides with its own switch whether the port is the default (no Uri-Port option) or not.  The two must agree for every scheme:
    at every comparison of uri->port in the converter, each scheme that can reach it (the case labels of the switch, as interval facts on
    uri->scheme) has, in the table, exactly the constant it is compared with -- or, where the port is compared with the computed
    CoAP default (secure ? 5684 : 5683), one of those two.  A scheme that falls out of its case group is compared with 5683: its explicit
    port 5683 is dropped (the next hop reconstructs 80) and its real default gets a superfluous option."""
    from core.psts import Env, solve, relevance, apply_generic
    run.rule('R-URI-CLASS')
    g = P.globals.get(table)
    if not g or not P.has(fname):
        run.require(run.fixture_mode or run.cfg != 'base', 'R-URI-CLASS(default ports): table %s or function %s() not found' % (table, fname))
        return
    rows = {}
    init = strip(g.get('init'))
    for r in (init or {}).get('a') or ():
        r = strip(r)
        cells = [const_int(c) for c in (r.get('a') or ())]
        ints = [c for c in cells if c is not None]
        if len(ints) >= 3:
            rows[ints[-1]] = ints[0]            # scheme enumerator (last cell) -> port (first integer cell)
    run.require(len(rows) >= 4, 'R-URI-CLASS(default ports): could not read scheme/port rows from %s[]' % table)
    coap_defaults = {P.const_named('COAP_DEFAULT_PORT'), P.const_named('COAPS_DEFAULT_PORT')} - {None}
    f = P.func(fname)
    scheme_aps = set()
    tests = {}
    for b in f['blocks']:
        t = b.get('term') or {}
        c = t.get('cond')
        if c is None:
            continue
        if t.get('c') == 'SwitchStmt':
            for x in walk(c):
                if isinstance(x, dict) and x.get('k') == 'mem' and x.get('f') == 'scheme' and ap(x):
                    scheme_aps.add(ap(x))
        for x in walk(c):
            if isinstance(x, dict) and x.get('k') == 'bin' and x.get('op') in ('!=', '=='):
                for a_, b_ in ((x['l'], x['r']), (x['r'], x['l'])):
                    a0 = strip(a_)
                    if isinstance(a0, dict) and a0.get('k') == 'mem' and a0.get('f') == 'port':
                        tests[b['id']] = (const_int(b_), short(x)[:60], t.get('loc') or f['loc'])
    run.require((scheme_aps and tests) or run.fixture_mode, 'R-URI-CLASS(default ports): switch on the scheme / port comparisons not found in %s()' % fname)
    keys, R = relevance(f, lambda ev: False, scheme_aps)
    keys = set(keys) | set(tests)
    R = set(R) | scheme_aps
    rep = set()
    n = [0]

    def on_branch(b, s, env, ctx):
        if b['id'] not in tests or s != b['succ'][0]:
            return env
        K, txt, loc = tests[b['id']]
        for sa in scheme_aps:
            lo, hi, ex = env.intf(sa)
            for sch, port in sorted(rows.items()):
                if not (lo <= sch <= hi) or sch in ex:
                    continue
                ok = (port == K) if K is not None else (port in coap_defaults)
                n[0] += 1
                run.oblige('R-URI-CLASS', ok, '%s:scheme%d:default-port-agrees' % (fname, sch))
                if not ok and (b['id'], sch) not in rep:
                    rep.add((b['id'], sch))
                    run.violation('R-URI-CLASS', fname, loc, 'default-port-disagrees:scheme%d' % sch,
                                  'scheme %d (default port %d in %s[]) reaches the test `%s`, which takes %s for the default: an explicit port equal to that value is dropped '
                                  'from the options and the scheme\'s real default port gets a superfluous Uri-Port'
                                  % (sch, port, table, txt, K if K is not None else 'the CoAP default (%s)' % '/'.join(str(x) for x in sorted(coap_defaults))), ctx.path())
        return env
    solve(f, Env(), lambda ev, env, ctx: None, None, keys, R, key_fn=lambda e: tuple(e.intf(a) for a in sorted(scheme_aps)), on_branch=on_branch)
    run.instance('R-URI-CLASS', '%s: every scheme is compared with its own default port of %s[] (%d scheme/test pairs)' % (fname, table, n[0]))
    run.require_count(n[0] >= len(rows) or run.fixture_mode, 'R-URI-CLASS(default ports): fewer scheme/test pairs (%d) than schemes (%d) were judged' % (n[0], len(rows)))
