"""R-OWN-LOCAL (C12, C18): function-local owners of coap_string_t / coap_binary_t / coap_bin_const_t /
coap_str_const_t / coap_optlist_t / coap_cache_key_t.  On every path to a return the object obtained from a
creator (computed: functions that return an object they allocated and did not also store) is released by its
destructor, returned, stored, or handed to a callee that keeps it (computed summaries; a non-const pointer
parameter of a function outside the library is a conservative escape)."""
from core.prog import strip, walk, ap, const_int, key
from core.psts import Budget
from rules.own import Spec, Own

TYPES = ('coap_string_t', 'coap_binary_t', 'coap_bin_const_t', 'coap_str_const_t', 'coap_optlist_t', 'coap_cache_key_t')
DESTRUCTORS = {'coap_delete_string': 0, 'coap_delete_binary': 0, 'coap_delete_bin_const': 0, 'coap_delete_str_const': 0,
               'coap_delete_optlist': 0, 'coap_delete_cache_key': 0, 'coap_free_type': 1, 'free': 0}
ALLOC = {'coap_malloc_type', 'malloc', 'calloc'}


class LocalSpec(Spec):
    rule = 'R-OWN-LOCAL'
    ptypes = TYPES
    event_calls = {'coap_lock_lock_func'}

    def __init__(self, P):
        self.creators = dict((c, True) for c in ALLOC)
        self.P = P

    def call_effect(self, fn, idx, call, A):
        if fn in DESTRUCTORS:
            return 'consume' if DESTRUCTORS[fn] == idx else 'borrow'
        if fn is None:
            return None
        f = A.F.get(fn)
        if f is None:
            # outside the library: pointer-to-const borrows, anything else may keep it
            return 'maybe'
        if idx < len(f['params']) and f['params'][idx].get('pc'):
            return 'borrow'
        if idx < len(f['params']) and f['params'][idx].get('pt') == 'void':
            return 'maybe'      # opaque hand-over (app_ptr + release callback idiom): the callee may keep or free it
        return None

    def indirect_effect(self, call, idx):
        return 'maybe'

    def pre_event(self, ev, env, ctx, A, L):
        t = ev['e']
        if t.get('k') == 'call' and t.get('fn') == 'coap_lock_lock_func':
            e = env.copy()
            e.ret[key(t)] = ('nz', 0)
            return [e]
        return None


def candidates(P, spec):
    out = []
    for n, f in sorted(P.funcs.items()):
        for i, p in enumerate(f['params']):
            if spec.is_tracked_type(p) and not p.get('pc'):
                out.append((n, i))
    return out


def _returns_created(A, f):
    spec = A.spec
    if not any(y.get('fn') in spec.creators for b, ev in A.P.events(f) for y in walk(ev['e']) if isinstance(y, dict) and y.get('k') == 'call'):
        return False
    for b, ev in A.P.events(f):
        t = ev['e']
        if t.get('k') == 'ret' and 'e' in t:
            r = strip(t['e'])
            if isinstance(r, dict) and r.get('k') == 'call' and r.get('fn') in spec.creators and r.get('fn') not in ALLOC:
                return True
    hits = []

    def exit_bad(s):
        if s == 'R':
            hits.append(1)
        return False
    spec.exit_bad = exit_bad
    try:
        A.analyze(f, report=False)
    except Budget:
        pass
    finally:
        del spec.exit_bad
    return bool(hits)


def run(run, P, only=None):
    run.rule('R-OWN-LOCAL')
    spec = LocalSpec(P)
    A = Own(run, P, spec)
    cands = candidates(P, spec)
    for rnd in range(4):
        A.summarize(cands)
        n0 = len(spec.creators)
        for n, f in sorted(P.funcs.items()):
            if n not in spec.creators and spec.is_tracked_type(f['ret']) and _returns_created(A, f):
                spec.creators[n] = True
        if len(spec.creators) == n0:
            break
    run.notes.append('local-object creators (computed): ' + ', '.join(sorted(set(spec.creators) - ALLOC)))
    run.notes.append('keeping callees (computed): ' + ', '.join('%s#%d=%s' % (k[0], k[1], v) for k, v in sorted(A.summ.items()) if v != 'never'))
    run.stats['local_creators'] = len(spec.creators)
    for f in sorted(P.lib_funcs(), key=lambda f: f['name']):
        if only and f['name'] not in only:
            continue
        A.analyze(f, report=True)
    run.stats['ownlocal_solver_steps'] = A.steps
    return A
