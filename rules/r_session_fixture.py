from rules import r_session
def run(run, P):
    r_session.run_ref_tmp(run, P)
    r_session.run_ref_hold(run, P)
    r_session.run_sess_evt(run, P)
