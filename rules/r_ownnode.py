"""R-OWN-NODE and R-RETRANS (C06).

R-OWN-NODE  typestate of a coap_queue_t*: O owned here, Q linked in the context send queue, D linked in a session
            delay queue, C deleted (or handed to coap_retransmit, which disposes of it), E stored elsewhere.
            A node becomes O by coap_new_node / coap_pop_next, the out-parameter of a successful
            coap_remove_from_queue, the unlink idiom (LINK = q->next) or as the parameter of coap_retransmit;
            Q by coap_insert_node / coap_wait_ack; D by LL_APPEND(delayqueue), the relink idiom
            (session->delayqueue = q) or coap_session_delay_pdu/coap_send_pdu(.., node) iff the result is
            COAP_PDU_DELAYED; C by coap_delete_node_lkd - legal in O and Q (it unlinks from the send queue), not in D
            or C.  No exit in O, no use in C.
R-RETRANS   in coap_retransmit the retransmission (coap_send_pdu) lies on the true arm of a comparison of
            retransmit_cnt with max_retransmit and passes exactly one retransmit_cnt++; on the give-up arm a
            Confirmable passes coap_handle_nack exactly once before the node is deleted.
"""
from core.prog import strip, walk, ap, key, short, const_int, is_null_const
from core.psts import Env, solve, relevance, apply_generic, INF
from rules.own import Spec, Own

CREATORS = ('coap_new_node', 'coap_pop_next')


class NodeSpec(Spec):
    rule = 'R-OWN-NODE'
    ptypes = ('coap_queue_t',)
    event_calls = {'coap_remove_from_queue', 'coap_lock_lock_func'}

    def __init__(self, P):
        self.creators = dict((c, True) for c in CREATORS)
        self.P = P
        self.delayed = P.const_named('COAP_PDU_DELAYED') if P.has('coap_session_delay_pdu') else -3

    def is_tracked_type(self, node):
        return isinstance(node, dict) and node.get('p') and node.get('prec') == 'coap_queue_t'

    def call_effect(self, fn, idx, call, A):
        return 'borrow'       # every interesting call is handled in pre_event

    def param_contract(self, fname, idx):
        if fname == 'coap_retransmit' and idx == 1:
            return 'always'
        return None

    def entry_nonnull(self, fname):
        # the guard clause `!context` of coap_retransmit is not a disposal path: its only caller passes the context it runs in
        return (0,) if fname == 'coap_retransmit' else ()

    def counts_as_consumed(self, s):
        return s in ('Q', 'D')

    def check_consume(self, s, how):
        if s == 'D':
            return 'it is deleted while it is still linked in a session delay queue (the queue keeps a dangling pointer)'
        return None

    def store_effect(self, tgt_node, s, env, A):
        t = strip(tgt_node)
        if isinstance(t, dict) and t.get('k') == 'mem' and t['f'] == 'delayqueue' and s in ('O',):
            return 'D'
        return None

    def pre_event(self, ev, env, ctx, A, L):
        t = ev['e']
        tv, obj_of, st, setst, bind = L['tv'], L['obj_of'], L['st'], L['setst'], L['bind']
        k = t.get('k')
        if k == 'call':
            fn = t.get('fn')
            args = t.get('a', [])
            if fn == 'coap_lock_lock_func':
                e = env.copy()
                e.ret[key(t)] = ('nz', 0)
                return [e]

            def node_arg(i):
                if i < len(args):
                    a = ap(args[i])
                    if a in tv and obj_of(env, a):
                        return a, obj_of(env, a)
                return None, None
            if fn in ('coap_insert_node', 'coap_wait_ack'):
                a, oid = node_arg(1 if fn == 'coap_insert_node' else 2)
                if oid and st(env, oid) in ('O', 'B'):
                    e = env.copy()
                    setst(e, oid, 'Q')
                    return [apply_generic(ev, e, L['R'])]
                return None
            if fn == 'coap_retransmit':
                a, oid = node_arg(1)
                if oid:
                    e = env.copy()
                    L['consume'](e, env, a, ev, ctx, 'coap_retransmit()')
                    return [apply_generic(ev, e, L['R'])]
                return None
            if fn in ('coap_session_delay_pdu', 'coap_send_pdu'):
                a, oid = node_arg(2)
                if oid and st(env, oid) in ('O', 'Q', 'B'):
                    x = env.copy()
                    setst(x, oid, 'D')
                    x.ret[key(t)] = ('eq', self.delayed)
                    y = env.copy()
                    y.ret[key(t)] = ('ne', self.delayed)
                    return [apply_generic(ev, x, L['R']), apply_generic(ev, y, L['R'])]
                return None
            if fn == 'coap_delete_node_lkd':
                a, oid = node_arg(0)
                if oid:
                    e = env.copy()
                    L['consume'](e, env, a, ev, ctx, 'coap_delete_node_lkd()')
                    return [apply_generic(ev, e, L['R'])]
                return None
            if fn == 'coap_remove_from_queue' and len(args) > 3:
                o = strip(args[3])
                if isinstance(o, dict) and o.get('k') == 'un' and o.get('op') == '&':
                    a = ap(o['e'])
                    if a in tv:
                        oid = 'coap_remove_from_queue@%s' % ev['loc'].rsplit('/', 1)[-1]
                        # failure leaves the out-parameter untouched
                        y = apply_generic(ev, env, L['R']).copy()
                        y.ret[key(t)] = ('eq', 0)
                        cur = obj_of(env, a)
                        if cur and st(env, cur) == 'O' and env.nullf(a) != 'Z':
                            # a node for this (session, mid) is already in hand: the queue holds no second one (stated assumption)
                            return [y]
                        x = apply_generic(ev, env, L['R']).copy()
                        # coap_remove_from_queue(.., X->id, &out): the node taken out is X itself
                        ida = strip(args[2])
                        same = None
                        if isinstance(ida, dict) and ida.get('k') == 'mem' and ida['f'] == 'id' and ap(ida['b']) in tv:
                            same = ap(ida['b'])
                        if same and obj_of(env, same):
                            oid = obj_of(env, same)
                        bind(x, a, oid)
                        if same and not obj_of(env, same):
                            bind(x, same, oid)
                        if not (same and obj_of(env, same)):
                            setst(x, oid, 'O')
                        x.null[a] = 'N'
                        x.ret[key(t)] = ('nz', 0)
                        if L['report']:
                            A.run.instance('R-OWN-NODE', '%s: coap_remove_from_queue(.., &%s)' % (L['name'], tv[a]))
                        return [x, y]
                return None
            return None
        if k == 'asg' and t.get('op') == '=':
            l, r = strip(t['l']), strip(t['r'])
            # LL_APPEND(session->delayqueue, node): the node is linked at the tail of the delay queue
            mac = ev.get('mac') or ()
            if any(m.startswith('LL_APPEND') for m in mac):
                a = ap(r)
                if a in tv and obj_of(env, a) and st(env, obj_of(env, a)) == 'O':
                    e = apply_generic(ev, env, L['R']).copy()
                    setst(e, obj_of(env, a), 'D')
                    return [e]
                return None
            # unlink idiom: LINK = q->next  (LINK a field / dereference, not a cursor variable): q is now detached and ours
            if isinstance(r, dict) and r.get('k') == 'mem' and r['f'] == 'next' and isinstance(l, dict) and l.get('k') in ('mem', 'un'):
                q = ap(r['b'])
                if q in tv and not obj_of(env, q):
                    e = apply_generic(ev, env, L['R']).copy()
                    oid = 'unlink@%s' % ev['loc'].rsplit('/', 1)[-1]
                    bind(e, q, oid)
                    setst(e, oid, 'O')
                    if L['report']:
                        A.run.instance('R-OWN-NODE', '%s: unlink of %s' % (L['name'], tv[q]))
                    return [e]
        return None


def run(run, P, only=None):
    run.rule('R-OWN-NODE')
    spec = NodeSpec(P)
    A = Own(run, P, spec)
    for f in sorted(P.lib_funcs(), key=lambda f: f['name']):
        if only and f['name'] not in only:
            continue
        if f['name'] in ('coap_delete_node_lkd', 'coap_free_node', 'coap_delete_all', 'coap_insert_node', 'coap_pop_next', 'coap_new_node', 'coap_remove_from_queue'):
            continue       # the primitives themselves
        A.analyze(f, report=True)
    run.stats['ownnode_solver_steps'] = A.steps
    return A


def run_retrans(run, P):
    run.rule('R-RETRANS')
    if not P.has('coap_retransmit'):
        if run.fixture_mode:
            return
        run.require(False, 'anchor function coap_retransmit() not found')
    f = P.func('coap_retransmit')
    CON = P.const_named('COAP_MESSAGE_CON') if not run.fixture_mode else 0
    seen = {'gate': False, 'send': 0, 'nack': 0, 'del': 0}

    def is_cnt(node):
        n = strip(node)
        return isinstance(n, dict) and n.get('k') == 'mem' and n['f'] == 'retransmit_cnt'

    def on_branch(b, s, e, ctx):
        c = strip((b.get('term') or {}).get('cond'))
        if not isinstance(c, dict) or c.get('k') != 'bin':
            return e
        truth = s == b['succ'][0]
        if c.get('op') in ('<', '<=', '>', '>=') and (is_cnt(c['l']) or is_cnt(c['r'])):
            other = strip(c['r'] if is_cnt(c['l']) else c['l'])
            if isinstance(other, dict) and other.get('k') == 'mem' and other['f'] == 'max_retransmit':
                seen['gate'] = True
                below = (c['op'] in ('<', '<=')) == is_cnt(c['l'])
                e2 = e.copy()
                e2.ts['arm'] = 'retrans' if below == truth else 'giveup'
                return e2
        if c.get('op') in ('==', '!=') and const_int(c['r']) == CON:
            l = strip(c['l'])
            if isinstance(l, dict) and l.get('k') == 'mem' and l['f'] == 'type':
                e2 = e.copy()
                e2.ts['con'] = (c['op'] == '==') == truth
                return e2
        return e

    def on_event(ev, env, ctx):
        t = ev['e']
        if t.get('k') == 'un' and t.get('op') == '++' and is_cnt(t['e']):
            e = env.copy()
            e.ts['inc'] = min(3, env.ts.get('inc', 0) + 1)
            return [apply_generic(ev, e, None)]
        if t.get('k') == 'asg' and is_cnt(t['l']):
            e = env.copy()
            e.ts['inc'] = min(3, env.ts.get('inc', 0) + 1) if t.get('op') == '+=' and const_int(t['r']) == 1 else 9
            return [apply_generic(ev, e, None)]
        if t.get('k') == 'call' and t.get('fn') == 'coap_send_pdu':
            seen['send'] += 1
            ok = env.ts.get('arm') == 'retrans' and env.ts.get('inc', 0) == 1
            run.oblige('R-RETRANS', ok, 'retransmit-gated-and-counted')
            if not ok:
                run.violation('R-RETRANS', 'coap_retransmit', ev['loc'], 'retransmission-ungated' if env.ts.get('arm') != 'retrans' else 'retransmit-count',
                              'the retransmission is reached %s' % ('on a path that did not take the "retransmit_cnt below max_retransmit" arm: the message can be '
                                                                      'retransmitted more than MAX_RETRANSMIT times' if env.ts.get('arm') != 'retrans' else
                                                                      'after retransmit_cnt was changed %s times instead of exactly once: the back-off schedule / the limit is wrong'
                                                                      % env.ts.get('inc', 0)), ctx.path())
            return None
        if t.get('k') == 'call' and t.get('fn') == 'coap_handle_nack':
            seen['nack'] += 1
            e = env.copy()
            e.ts['nack'] = min(3, env.ts.get('nack', 0) + 1)
            return [apply_generic(ev, e, None)]
        if t.get('k') == 'call' and t.get('fn') == 'coap_delete_node_lkd' and env.ts.get('arm') == 'giveup':
            seen['del'] += 1
            n = env.ts.get('nack', 0)
            con = env.ts.get('con')
            ok = (con is True and n == 1) or (con is False and n == 0)
            run.oblige('R-RETRANS', ok, 'giveup-nack-once:%s' % con)
            if not ok:
                run.violation('R-RETRANS', 'coap_retransmit', ev['loc'], 'giveup-nack:%s:%d' % (con, n),
                              'on the give-up arm the node is deleted after %d NACK call(s) on a path where the message is %s: a Confirmable that is given up '
                              'must be reported by exactly one NACK' % (n, 'Confirmable' if con else 'not known to be Confirmable' if con is None else 'not Confirmable'), ctx.path())
        return None

    def key_fn(e):
        return (e.ts.get('arm'), e.ts.get('inc', 0), e.ts.get('nack', 0), e.ts.get('con'))
    solve(f, Env(), on_event, None, None, None, key_fn=key_fn, on_branch=on_branch, max_envs=64)
    run.instance('R-RETRANS', 'coap_retransmit: gate on retransmit_cnt < max_retransmit %s' % ('present' if seen['gate'] else 'MISSING'))
    run.instance('R-RETRANS', 'coap_retransmit: %d retransmission visit(s), %d give-up deletion visit(s)' % (seen['send'], seen['del']))
    if not seen['gate']:
        run.oblige('R-RETRANS', False, 'gate-present')
        run.violation('R-RETRANS', 'coap_retransmit', f['loc'], 'no-retransmit-limit', 'retransmit_cnt is never compared with max_retransmit: retransmission never stops')
    run.require(seen['send'] > 0 or not seen['gate'], 'R-RETRANS: coap_send_pdu is not called from coap_retransmit any more')


def run_queue_key(run, P):
    """R-QUEUE-KEY: coap_remove_from_queue identifies a message by (session, message id): every path that hands a node
    out through the out-parameter holds BOTH `session == X->session` and `id == X->id` for that node X."""
    run.rule('R-QUEUE-KEY')
    fname = 'coap_remove_from_queue'
    if not P.has(fname):
        if run.fixture_mode:
            return
        run.require(False, 'anchor function %s() not found' % fname)
    f = P.func(fname)
    ids = dict((p['n'], 'v%d' % p['id']) for p in f['params'])
    run.require('session' in ids and 'id' in ids and 'node' in ids, 'R-QUEUE-KEY: parameters session/id/node of %s() not found' % fname)
    S, I, N = ids['session'], ids['id'], ids['node']
    n = [0]

    def holds(env, x, pa, fld):
        """is `param == x->fld` known on this path"""
        want = x + '->' + fld
        for ak, av in env.atoms.items():
            if pa in ak and want in ak:
                if ('==' in ak and av is True) or ('!=' in ak and av is False):
                    return True
        return False

    def on_event(ev, env, ctx):
        t = ev['e']
        if t.get('k') == 'asg' and t.get('op') == '=':
            l = strip(t['l'])
            if isinstance(l, dict) and l.get('k') == 'un' and l.get('op') == '*' and ap(l['e']) == N:
                x = ap(t['r'])
                if x is None:
                    return None
                n[0] += 1
                run.instance('R-QUEUE-KEY', '%s: *node = %s' % (fname, short(t['r'])))
                ks, ki = holds(env, x, S, 'session'), holds(env, x, I, 'id')
                ok = ks and ki
                run.oblige('R-QUEUE-KEY', ok, '%s:both-keys:%s' % (fname, short(t['r'])))
                if not ok:
                    run.violation('R-QUEUE-KEY', fname, ev['loc'], 'partial-key:%s' % short(t['r']),
                                  'a node is taken out of the send queue on a path where %s is not known to hold: an ACK/RST for one message can retire a different '
                                  'Confirmable (which is then never retransmitted nor NACKed)' % (' and '.join(w for w, k in (('session == node->session', ks), ('id == node->id', ki)) if not k)), ctx.path())
        return None
    solve(f, Env(), on_event, None, None, None, key_fn=lambda e: tuple(sorted((k, v) for k, v in e.atoms.items() if S in k or I in k)), max_envs=128)
    run.require_count(n[0] >= 1, 'R-QUEUE-KEY: no store through the out-parameter found in %s()' % fname)


# ---------------------------------------------------------------------------------------------------------------
def run_waitack(run, P):
    """R-RETRANS (queue admission): coap_retransmit() re-sends whatever sits in the send queue with back-off unless the node
    is flagged is_mcast (one delayed transmission, then deletion).  So a node may be handed to coap_wait_ack() only
      - with its PDU known to be Confirmable on the path (N->pdu->type == CON, or P->type == CON for the P stored in N->pdu), or
      - with N->is_mcast = 1 assigned on the path.
    A Non-confirmable response queued without the flag is transmitted MAX_RETRANSMIT + 1 times: several replies to one
    request datagram."""
    run.rule('R-RETRANS')
    CON = P.const_named('COAP_MESSAGE_CON')
    WAIT = 'coap_wait_ack'
    n = 0
    for f in sorted(P.lib_funcs(), key=lambda f: f['name']):
        sites = [ev for b, ev in P.events(f) if ev['e'].get('k') == 'call' and ev['e'].get('fn') == WAIT and len(ev['e'].get('a', [])) == 3]
        if not sites:
            continue
        name = f['name']
        nodes = set(ap(ev['e']['a'][2]) for ev in sites if ap(ev['e']['a'][2]))
        typeaps = set()
        for b in f['blocks']:
            c = (b.get('term') or {}).get('cond')
            if c is not None:
                for x in walk(c):
                    if isinstance(x, dict) and x.get('k') == 'mem' and x.get('f') == 'type' and ap(x):
                        typeaps.add(ap(x))

        def is_rule_event(ev):
            t = ev['e']
            if any(ev is s for s in sites):
                return True
            if t.get('k') == 'asg':
                l = strip(t['l'])
                return isinstance(l, dict) and l.get('k') == 'mem' and l.get('f') in ('is_mcast', 'pdu') and ap(l.get('b')) in nodes
            return False
        keys, R = relevance(f, is_rule_event, typeaps)
        R = set(R) | typeaps
        for b in f['blocks']:
            c = (b.get('term') or {}).get('cond')
            if c is not None and any(isinstance(x, dict) and x.get('k') == 'mem' and x.get('f') == 'type' for x in walk(c)):
                keys = set(keys) | {b['id']}

        def on_event(ev, env, ctx):
            t = ev['e']
            if t.get('k') == 'asg' and t.get('op') == '=':
                l = strip(t['l'])
                if isinstance(l, dict) and l.get('k') == 'mem' and ap(l.get('b')) in nodes:
                    nv = ap(l['b'])
                    if l.get('f') == 'is_mcast':
                        e = apply_generic(ev, env, R).copy()
                        mc = dict(env.ts.get('mc', ()))
                        mc[nv] = const_int(t['r']) == 1
                        e.ts['mc'] = tuple(sorted(mc.items()))
                        return [e]
                    if l.get('f') == 'pdu' and ap(t['r']):
                        e = apply_generic(ev, env, R).copy()
                        po = dict(env.ts.get('po', ()))
                        po[nv] = ap(t['r'])
                        e.ts['po'] = tuple(sorted(po.items()))
                        # the type known for the PDU variable is the type of the node's PDU
                        return [e]
                return None
            if any(ev is s for s in sites):
                nv = ap(t['a'][2])
                mc = dict(env.ts.get('mc', ())).get(nv)
                po = dict(env.ts.get('po', ())).get(nv)
                cands = ['%s->pdu->type' % nv] + (['%s->type' % po] if po else [])
                con = any(env.intf(a)[0] == env.intf(a)[1] == CON for a in cands)
                ok = bool(mc) or con
                run.oblige('R-RETRANS', ok, '%s:wait-ack-admission' % name)
                if not ok:
                    run.violation('R-RETRANS', name, ev['loc'], 'queued-non-con-unflagged',
                                  'a node is handed to coap_wait_ack() on a path that neither knows its PDU to be Confirmable nor set node->is_mcast: coap_retransmit() '
                                  'will re-send it with back-off like an unacknowledged Confirmable (a Non-confirmable reply goes out several times)', ctx.path())
            return None
        for s in sites:
            n += 1
            run.instance('R-RETRANS', '%s: coap_wait_ack(%s)' % (name, short(s['e']['a'][2])))
        ctx = solve(f, Env({'mc': (), 'po': ()}), on_event, None, keys, R,
                    key_fn=lambda e: (e.ts.get('mc'), e.ts.get('po'), tuple(e.intf(a)[:2] for a in sorted(typeaps))), max_envs=512)
        run.stats['waitack_solver_steps'] += ctx.steps
    run.require_count(n >= (3 if run.cfg == 'base' else 2) or run.fixture_mode, 'R-RETRANS: fewer than 3 (base) / 2 (reduced configurations) call sites of coap_wait_ack() found')
