"""R-CODEC-TAB (C01, C03): writer and reader use the same extension tables.

Oracle: RFC 7252 section 3.1 (option delta / length: 0-12 direct, 13 -> +13, 14 -> +269, 15 reserved),
RFC 8323 section 3.2 (TCP Len nibble: 13 -> +13, 14 -> +269, 15 -> +65805), RFC 8974 section 2.1 (TKL 13/14, 15
reserved; bias 13 / 269).

(1) partitions: for the frozen (function, variable) table the set of boundaries induced by comparisons and
    case labels on that variable equals the expected set (value side) resp. {13,14,15} (nibble side).
(2) arm offsets, codec units: wherever `V - K` is computed with K one of the codec offsets and the solver
    knows the interval of V on that path, K equals the interval's lower bound (the arm writes its own offset).
(3) decoder offsets: in the decoder functions an additive codec constant on an arm where exactly one nibble
    variable is known to be n in {13,14,15} equals the offset the RFC gives for n.
(4) the decoder's bound on the running option number, as folded by the compiler in that unit, is the
    maximum of the 16-bit option number type.
"""
import collections
from core.prog import strip, walk, ap, key, short, const_int, aps_of
from core.psts import Env, solve, relevance, apply_generic, INF

OFFSETS = {13: 13, 14: 269, 15: 65805}
CODEC_CONSTS = (13, 269, 65805)
SWAP = {'<': '>', '<=': '>=', '>': '<', '>=': '<=', '==': '==', '!=': '!='}

# (1) function -> {variable/field name: ('value'|'nibble', kind)}
VALUE_SIDE = {
    'coap_opt_setheader': {'delta': 'opt', 'length': 'opt'},
    'coap_opt_encode_size': {'delta': 'opt', 'length': 'opt'},
    'coap_remove_option': {'opt_delta': 'opt'},
    'coap_insert_option': {'opt_delta': 'opt'},
    'coap_add_token': {'len': 'tok'},
    'coap_update_token': {'len': 'tok'},
    'coap_pdu_encode_header': {'len': 'tcp'},
}
NIBBLE_SIDE = {
    'coap_opt_parse': ('delta', 'length'),
    'coap_pdu_parse_header_size': ('len',),
    'coap_pdu_parse_size': ('len', 'tkl'),
    'coap_pdu_parse_header': ('e_token_length',),
}
DECODERS = ('coap_opt_parse', 'coap_opt_length', 'coap_pdu_parse_size', 'coap_pdu_parse_header')
CODEC_UNITS = ('coap_pdu.c', 'coap_option.c')


def _sel(names):
    def sel(x):
        x = strip(x)
        if not isinstance(x, dict):
            return None
        if x.get('k') == 'var' and x['n'] in names:
            return x['n']
        if x.get('k') == 'mem' and x['f'] in names and strip(x['b']).get('k') == 'var':
            return x['f']
        return None
    return sel


def boundaries(f, sel):
    out = collections.defaultdict(set)

    def visit(c):
        c = strip(c)
        if not isinstance(c, dict):
            return
        if c.get('k') == 'bin' and c.get('op') in SWAP:
            for x, y, o in ((c['l'], c['r'], c['op']), (c['r'], c['l'], SWAP[c['op']])):
                K = const_int(y)
                lab = sel(x)
                if K is not None and lab:
                    if o in ('<', '>='):
                        out[lab].add(K)
                    elif o in ('<=', '>'):
                        out[lab].add(K + 1)
                    else:
                        out[lab].add(K)
                        out[lab].add(K + 1)
    for b in f['blocks']:
        t = b.get('term')
        if t and t.get('cond') is not None:
            if t.get('c') == 'SwitchStmt':
                lab = sel(t['cond'])
                if lab:
                    for s in b['succ']:
                        if s is None:
                            continue
                        l = f['B'][s].get('label')
                        if l and l.get('k') == 'case':
                            out[lab].add(l['lo'])
                            out[lab].add(l['lo'] + 1)
            else:
                visit(t['cond'])
        for ev in b['elems']:
            for y in walk(ev['e']):
                if isinstance(y, dict) and y.get('k') == 'cond':
                    visit(y['c'])
    return out


def run(run, P):
    run.rule('R-CODEC-TAB')
    ext_max = None
    try:
        ext_max = P.const_named('COAP_TOKEN_EXT_MAX')
    except Exception:
        if not run.fixture_mode:
            raise
    expected = {'opt': {13, 269}, 'tcp': {13, 269, 65805}, 'tok': {13, 269, (ext_max + 1) if ext_max is not None else None}}
    # ---- (1) partitions
    for fn, vars_ in sorted(VALUE_SIDE.items()):
        if not P.has(fn):
            if run.fixture_mode:
                continue
            run.require(False, 'anchor function %s() of R-CODEC-TAB not found' % fn)
        f = P.func(fn)
        bs = boundaries(f, _sel(tuple(vars_)))
        for v, kind in sorted(vars_.items()):
            got = set(x for x in bs.get(v, ()) if x > 1)        # x == 0 / x < 1 tests are not table boundaries
            run.require(bool(got) or run.fixture_mode, 'R-CODEC-TAB: no comparison on %s in %s()' % (v, fn))
            if not got:
                continue
            exp = expected[kind]
            run.instance('R-CODEC-TAB', '%s: %s boundaries %s' % (fn, v, sorted(got)))
            ok = got == exp
            run.oblige('R-CODEC-TAB', ok, '%s:partition:%s' % (fn, v))
            if not ok:
                run.violation('R-CODEC-TAB', fn, f['loc'], 'partition:%s' % v,
                              'the thresholds applied to %s are %s, the %s table is %s: writer and reader disagree about which values use which extension form'
                              % (v, sorted(got), {'opt': 'RFC 7252 option delta/length', 'tcp': 'RFC 8323 TCP length', 'tok': 'RFC 8974 token length'}[kind], sorted(exp)))
    for fn, vars_ in sorted(NIBBLE_SIDE.items()):
        if not P.has(fn):
            if run.fixture_mode:
                continue
            run.require(False, 'anchor function %s() of R-CODEC-TAB not found' % fn)
        f = P.func(fn)
        bs = boundaries(f, _sel(vars_))
        for v in vars_:
            got = set(x for x in bs.get(v, ()) if x > 1)
            run.require(bool(got) or run.fixture_mode, 'R-CODEC-TAB: no comparison on nibble %s in %s()' % (v, fn))
            if not got:
                continue
            # boundaries between 13 / 14 / 15 (a test `== 15` contributes 15 and 16)
            got = set(x for x in got if x <= 15)
            run.instance('R-CODEC-TAB', '%s: nibble %s boundaries %s' % (fn, v, sorted(got)))
            ok = got <= {13, 14, 15} and 13 in got and 14 in got
            run.oblige('R-CODEC-TAB', ok, '%s:nibble:%s' % (fn, v))
            if not ok:
                run.violation('R-CODEC-TAB', fn, f['loc'], 'nibble:%s' % v,
                              'the nibble %s is split at %s, expected the reserved values 13/14/15' % (v, sorted(got)))
    # ---- (2) arm offsets in the codec units, (3) decoder offsets
    for f in sorted(P.lib_funcs(), key=lambda f: f['name']):
        if f['unit'] not in CODEC_UNITS and not run.fixture_mode:
            continue
        name = f['name']
        subs = []
        adds = []
        for b, ev in P.events(f):
            if ev['e'].get('k') not in ('asg', 'decl', 'ret', 'call'):
                continue
            for y in walk(ev['e']):
                if isinstance(y, dict) and y.get('k') == 'bin' and y.get('op') == '-' and ap(y['l']) and const_int(y['r']) is not None and (
                        const_int(y['r']) in CODEC_CONSTS or (const_int(y['r']) >= 2 and _sel(tuple(VALUE_SIDE.get(name, ())))(y['l']))):
                    subs.append((id(ev), y))
                if isinstance(y, dict) and y.get('k') == 'bin' and y.get('op') == '+' and name in DECODERS:
                    for side in ('l', 'r'):
                        if const_int(y[side]) in CODEC_CONSTS:
                            adds.append((id(ev), y, const_int(y[side])))
        if not subs and not adds:
            continue
        evids = set(i for i, _ in subs) | set(i for i, _, _ in adds)
        extra = set(ap(y['l']) for _, y in subs)
        nib_aps = set()
        if adds:
            for b in f['blocks']:
                t = b.get('term')
                if t and t.get('cond') is not None:
                    c = strip(t['cond'])
                    if t.get('c') == 'SwitchStmt' and ap(c):
                        nib_aps.add(ap(c))
                    elif isinstance(c, dict) and c.get('k') == 'bin' and c.get('op') == '==' and ap(c['l']) and const_int(c['r']) in OFFSETS:
                        nib_aps.add(ap(c['l']))
        extra |= nib_aps
        sel_aps = set(nib_aps)
        for b in f['blocks']:
            t = b.get('term')
            if t and t.get('cond') is not None and t.get('c') == 'SwitchStmt' and ap(t['cond']):
                sel_aps.add(ap(t['cond']))
        extra |= sel_aps
        sel_list = sorted(sel_aps)

        def is_rule_event(ev):
            return id(ev) in evids
        keys, R = relevance(f, is_rule_event, extra)
        R = R | extra
        seen = set()

        def on_event(ev, env, ctx):
            if id(ev) not in evids:
                return None
            for i, y in subs:
                if i != id(ev):
                    continue
                K = const_int(y['r'])
                lo, hi, ex = env.intf(ap(y['l']))
                if lo == -INF:
                    continue
                what = '%s - %d with %s in [%s, %s]' % (short(y['l']), K, short(y['l']), lo, hi)
                run.instance('R-CODEC-TAB', '%s: %s' % (name, what))
                ok = lo == K
                run.oblige('R-CODEC-TAB', ok, '%s:arm-offset:%s-%d:%s' % (name, short(y['l']), K, lo))
                if not ok and (name, K, lo) not in seen:
                    seen.add((name, K, lo))
                    run.violation('R-CODEC-TAB', name, ev['loc'], 'arm-offset:%s-%d' % (short(y['l']), K),
                                  '%s - %d is written on an arm where %s >= %s: the offset of this extension form does not match the arm\'s lower bound '
                                  '(the reader adds %d back)' % (short(y['l']), K, short(y['l']), lo, K), ctx.path())
            for i, y, K in adds:
                if i != id(ev):
                    continue
                ns = set()
                for a in nib_aps:
                    lo, hi, ex = env.intf(a)
                    if lo == hi and lo in OFFSETS:
                        ns.add(lo)
                    elif lo == hi and (lo >> 4) in OFFSETS and (lo & 0x0f) == 0:
                        ns.add(lo >> 4)
                if len(ns) != 1:
                    continue
                n = ns.pop()
                run.instance('R-CODEC-TAB', '%s: + %d on the arm for nibble %d' % (name, K, n))
                ok = K == OFFSETS[n]
                run.oblige('R-CODEC-TAB', ok, '%s:decoder-offset:%d:%d' % (name, n, K))
                if not ok and (name, 'add', n, K) not in seen:
                    seen.add((name, 'add', n, K))
                    run.violation('R-CODEC-TAB', name, ev['loc'], 'decoder-offset:nibble%d' % n,
                                  'the decoder adds %d on the arm for nibble %d, the table says %d' % (K, n, OFFSETS[n]), ctx.path())
            return None
        ctx = solve(f, Env(), on_event, None, keys, R, key_fn=lambda e: tuple(e.intf(a)[:2] for a in sel_list))
        run.stats['codec_solver_steps'] += ctx.steps
    # ---- (4) the decoder's option-number bound as folded: decided by enumeration, whatever the spelling of the comparison
    # (`*max_opt + delta > K`, `delta > K - *max_opt`, ...): the condition separates exactly the pairs with max_opt + delta > 65535
    if P.has('next_option_safe'):
        f = P.func('next_option_safe')
        found = False

        def role(t):
            t = strip(t)
            if isinstance(t, dict) and t.get('k') == 'un' and t.get('op') == '*' and isinstance(strip(t.get('e')), dict) and strip(t['e']).get('k') == 'var' \
               and strip(t['e']).get('pi') is not None:
                return 'M'
            if isinstance(t, dict) and t.get('k') == 'mem' and t.get('f') == 'delta':
                return 'D'
            return None

        def ev4(t, env):
            t = strip(t)
            if role(t):
                return env[role(t)]
            c = const_int(t)
            if c is not None:
                return c
            if isinstance(t, dict) and t.get('k') == 'bin':
                a, b2 = ev4(t['l'], env), ev4(t['r'], env)
                op = t['op']
                if op in ('+', '-'):
                    return a + b2 if op == '+' else a - b2
                if op in ('<', '>', '<=', '>=', '==', '!='):
                    return int({'<': a < b2, '>': a > b2, '<=': a <= b2, '>=': a >= b2, '==': a == b2, '!=': a != b2}[op])
            raise ValueError(short(t)[:40])
        for b in f['blocks']:
            t = b.get('term')
            if not t or t.get('cond') is None:
                continue
            for c in walk(t['cond']):
                if not (isinstance(c, dict) and c.get('k') == 'bin' and c.get('op') in ('>', '>=', '<', '<=')):
                    continue
                roles = set(role(x) for x in walk(c) if isinstance(x, dict) and role(x))
                if roles != {'M', 'D'}:
                    continue
                try:
                    base = ev4(c, {'M': 0, 'D': 0})
                    bad = None
                    for M in (0, 1, 12, 269, 65000, 65534, 65535):
                        for D in (0, 1, 13, 268, 269, 535, 65535 - M - 1, 65535 - M, 65535 - M + 1, 65535):
                            if D < 0:
                                continue
                            got = ev4(c, {'M': M, 'D': D})
                            if (got == base) != (M + D <= 65535) and bad is None:
                                bad = (M, D, got != base)
                except ValueError:
                    continue
                found = True
                run.instance('R-CODEC-TAB', 'next_option_safe: `%s` separates exactly the running option numbers above 65535 (as folded in this unit)' % short(c)[:60])
                ok = bad is None
                run.oblige('R-CODEC-TAB', ok, 'next_option_safe:max-opt')
                if not ok:
                    run.violation('R-CODEC-TAB', 'next_option_safe', t['loc'], 'max-option-number',
                                  'with the running option number at %d and a delta of %d the decoder\'s bound test `%s` %s the option (number %d) although the builder accepts '
                                  'exactly the 16-bit option numbers up to 65535 (constants as the compiler folded them in this unit): %s'
                                  % (bad[0], bad[1], short(c)[:60], 'rejects' if bad[2] else 'accepts', bad[0] + bad[1],
                                     'a message the API builds is refused by the parser' if bad[2] else 'the number wraps'))
        run.require(found, 'R-CODEC-TAB: bound comparison on the running option number not found in next_option_safe()')
    elif not run.fixture_mode:
        run.require(False, 'anchor function next_option_safe() not found')


# ---------------------------------------------------------------------------------------------------------------
def run_toklen(run, P, units=('coap_pdu.c',)):
    """(5) the token's size on the wire.  A PDU carries two token lengths: actual_token.length (the application's token) and
    e_token_length (what the token occupies in the buffer: RFC 8974 extension bytes included).  Everything that measures
    or walks the buffer -- `used_size - X`, `used_size < X`, `token + X`, `alloc_size`/`max_size` comparisons with X -- has to
    use the on-wire size.  Sibling agreement: every such expression in the codec unit uses e_token_length; one that uses
    actual_token.length is off by the 1 or 2 extension bytes for tokens of 13 bytes and more (the TCP Len field then cuts
    the stream at the wrong place, options are parsed from inside the token)."""
    run.rule('R-CODEC-TAB')
    BUF = ('used_size', 'alloc_size', 'max_size')
    n = 0

    def tok_kind(x):
        x = strip(x)
        if isinstance(x, dict) and x.get('k') == 'mem':
            if x.get('f') == 'e_token_length':
                return 'wire'
            if x.get('f') == 'length':
                b = strip(x.get('b'))
                if isinstance(b, dict) and b.get('k') == 'mem' and b.get('f') == 'actual_token':
                    return 'app'
        return None

    def is_buf(x):
        x = strip(x)
        return isinstance(x, dict) and x.get('k') == 'mem' and x.get('f') in BUF

    def is_tokptr(x):
        x = strip(x)
        return isinstance(x, dict) and x.get('k') == 'mem' and x.get('f') == 'token' and x.get('p')
    for f in sorted(P.lib_funcs(), key=lambda f: f['name']):
        if f['unit'] not in units:
            continue
        seen = set()
        for b in f['blocks']:
            exprs = [(ev['e'], ev['loc']) for ev in b['elems']]
            if b.get('term') and b['term'].get('cond') is not None:
                exprs.append((b['term']['cond'], b['term']['loc']))
            for e, loc in exprs:
                for x in walk(e):
                    if not (isinstance(x, dict) and x.get('k') == 'bin'):
                        continue
                    pairs = []
                    if x.get('op') in ('-', '<', '<=', '>', '>=') and is_buf(x['l']) and tok_kind(x['r']):
                        pairs.append((short(x['l']), tok_kind(x['r'])))
                    if x.get('op') in ('<', '<=', '>', '>=') and is_buf(x['r']) and tok_kind(x['l']):
                        pairs.append((short(x['r']), tok_kind(x['l'])))
                    if x.get('op') == '+' and is_tokptr(x['l']) and tok_kind(x['r']):
                        pairs.append((short(x['l']), tok_kind(x['r'])))
                    for what, kind in pairs:
                        k2 = (loc, short(x)[:80])
                        if k2 in seen:
                            continue
                        seen.add(k2)
                        n += 1
                        run.instance('R-CODEC-TAB', '%s: %s' % (f['name'], short(x)[:70]))
                        run.oblige('R-CODEC-TAB', kind == 'wire', '%s:toklen' % f['name'])
                        if kind != 'wire':
                            run.violation('R-CODEC-TAB', f['name'], loc, 'token-size-field:%s' % what.split('>')[-1].split('.')[-1],
                                          '%s measures the buffer with actual_token.length, every sibling uses e_token_length: for tokens of 13 bytes and more the two differ by the '
                                          'RFC 8974 extension bytes, so the size written / position computed is off by 1 or 2' % short(x)[:70], [])
    run.require_count(n >= 6 or run.fixture_mode, 'R-CODEC-TAB(5): only %d buffer/token-size expressions found in %s' % (n, units))


# ---------------------------------------------------------------------------------------------------------------
TOKEN_EXT = {'COAP_TOKEN_EXT_1B_BIAS': 1, 'COAP_TOKEN_EXT_2B_BIAS': 2}


def run_tokext(run, P, units=('coap_pdu.c',)):
    """(6) RFC 8974 extended token length on the read side.  Wherever a decoder turns the extension byte(s) into the size the token
    occupies on the wire it adds the bias of that form AND the number of extension bytes (1 resp. 2): `token[0] + BIAS_1B + 1`,
    `(token[0] << 8) + token[1] + BIAS_2B + 2`.  Every additive chain in the codec unit that contains one of the two bias macros
    and a byte loaded from the buffer must sum its constants to bias + extension bytes -- coap_pdu_parse_size() (stream framing)
    and coap_pdu_parse_header() have to agree, otherwise a stream is cut 1 or 2 bytes short for tokens of 13 bytes and more."""
    run.rule('R-CODEC-TAB')
    n = 0

    def flatten(x, out):
        x = strip(x)
        if isinstance(x, dict) and x.get('k') == 'bin' and x.get('op') == '+':
            flatten(x['l'], out)
            flatten(x['r'], out)
        else:
            out.append(x)

    for f in sorted(P.lib_funcs(), key=lambda f: f['name']):
        if f['unit'] not in units:
            continue
        seen = set()
        for b, ev in P.events(f):
            t = ev['e']
            if t.get('k') != 'asg':
                continue
            rhs = strip(t['r'])
            if not (isinstance(rhs, dict) and rhs.get('k') == 'bin' and rhs.get('op') == '+'):
                continue
            terms = []
            flatten(rhs, terms)
            macro = None
            csum = 0
            loads = 0
            for x in terms:
                if isinstance(x, dict) and x.get('k') == 'int':
                    csum += x['v']
                    if x.get('mn') in TOKEN_EXT:
                        macro = x['mn']
                elif isinstance(x, dict) and any(isinstance(y, dict) and y.get('k') in ('idx', 'sub') for y in walk(x)):
                    loads += 1
            if not macro or not loads:
                continue
            k2 = (ev['loc'], short(rhs)[:60])
            if k2 in seen:
                continue
            seen.add(k2)
            n += 1
            bias = P.const_named(macro)
            want = bias + TOKEN_EXT[macro]
            run.instance('R-CODEC-TAB', '%s: %s' % (f['name'], short(t)[:80]))
            ok = csum == want
            run.oblige('R-CODEC-TAB', ok, '%s:tokext:%s' % (f['name'], macro))
            if not ok:
                run.violation('R-CODEC-TAB', f['name'], ev['loc'], 'token-extension-bytes:%s' % macro,
                              '%s adds constants summing to %d; the on-wire size of a token in this extension form is value + %d (bias) + %d (extension length byte%s) = + %d: '
                              'this decoder and its sibling disagree by %d byte(s)' % (short(t)[:70], csum, bias, TOKEN_EXT[macro], 's' if TOKEN_EXT[macro] > 1 else '', want, abs(want - csum)), [])
    run.require_count(n >= 4 or run.fixture_mode, 'R-CODEC-TAB(6): only %d extended-token size expressions found in %s' % (n, units))


def run_tokbias(run, P, units=('coap_pdu.c',)):
    """(7) the RFC 8974 partition of token lengths.  A token of 0-12 bytes has its length in the TKL nibble, 13-268 bytes use one
    extension byte, 269 and more use two.  Every ordering comparison in the codec unit between a token length and a constant that is
    written with one of the bias macros (COAP_TOKEN_EXT_1B_BIAS = 13, COAP_TOKEN_EXT_2B_BIAS = 269) has to cut the APPLICATION token
    lengths exactly at 13 or at 269.  Decided exactly by enumeration over all token lengths 0..65804: for a comparison on the application
    length a the set {a : a OP K}, for a comparison on the on-wire size (e_token_length, which already contains the extension bytes:
    e = a, a + 1, a + 2 in the three forms) the set {a : e(a) OP K} -- either must be {a < 13} or {a < 269} or a complement.
    `e_token_length < COAP_TOKEN_EXT_2B_BIAS` cuts at 268 (a 268 byte token has e_token_length 269); `e_token_length < COAP_TOKEN_EXT_1B_BIAS`
    happens to cut at 13 and is not reported."""
    run.rule('R-CODEC-TAB')
    MAC = ('COAP_TOKEN_EXT_1B_BIAS', 'COAP_TOKEN_EXT_2B_BIAS')
    ALL = range(0, 65805)
    GOOD = [frozenset(a for a in ALL if a < 13), frozenset(a for a in ALL if a < 269)]
    GOOD = GOOD + [frozenset(ALL) - g for g in GOOD]
    OPS = {'<': lambda a, b: a < b, '<=': lambda a, b: a <= b, '>': lambda a, b: a > b, '>=': lambda a, b: a >= b}
    n = 0
    for f in sorted(P.lib_funcs(), key=lambda f: f['name']):
        if f['unit'] not in units:
            continue
        wire_locals = set()
        for b, ev in P.events(f):
            t = ev['e']
            srcs = []
            if t.get('k') == 'asg' and t.get('op') == '=':
                srcs.append((ap(t['l']), t['r']))
            for d in t.get('d') or ():
                if d.get('init') is not None:
                    srcs.append(('v%d' % d['id'], d['init']))
            for l, r in srcs:
                r0 = strip(r)
                if l and isinstance(r0, dict) and r0.get('k') == 'mem' and r0.get('f') == 'e_token_length':
                    wire_locals.add(l)
        seen = set()
        for b in f['blocks']:
            exprs = [(ev['e'], ev['loc']) for ev in b['elems']]
            if b.get('term') and b['term'].get('cond') is not None:
                exprs.append((b['term']['cond'], b['term']['loc']))
            for e, loc in exprs:
                for x in walk(e):
                    if not (isinstance(x, dict) and x.get('k') == 'bin' and x.get('op') in OPS):
                        continue
                    for m, o, left in ((x['r'], x['l'], False), (x['l'], x['r'], True)):
                        m0 = strip(m)
                        if not (isinstance(m0, dict) and m0.get('k') == 'int' and m0.get('mn') in MAC and isinstance(m0.get('v'), int)):
                            continue
                        o0 = strip(o)
                        if not (ap(o0) or (isinstance(o0, dict) and o0.get('k') == 'mem')):
                            continue
                        k2 = (loc, short(x)[:80])
                        if k2 in seen:
                            continue
                        seen.add(k2)
                        n += 1
                        K = m0['v']
                        op = x['op'] if not left else {'<': '>', '<=': '>=', '>': '<', '>=': '<='}[x['op']]
                        wire = (isinstance(o0, dict) and o0.get('k') == 'mem' and o0.get('f') == 'e_token_length') or ap(o0) in wire_locals
                        if wire:
                            T = frozenset(a for a in ALL if OPS[op](a + (0 if a < 13 else 1 if a < 269 else 2), K))
                        else:
                            T = frozenset(a for a in ALL if OPS[op](a, K))
                        ok = T in GOOD
                        run.instance('R-CODEC-TAB', '%s: %s' % (f['name'], short(x)[:70]))
                        run.oblige('R-CODEC-TAB', ok, '%s:tokbias-partition' % f['name'])
                        if not ok:
                            cut = min(T) if T and 0 not in T else (min(frozenset(ALL) - T) if T else 0)
                            run.violation('R-CODEC-TAB', f['name'], loc, 'token-length-partition:%s' % m0['mn'],
                                          '%s cuts the application token lengths at %d (%s), not at 13 or 269 where RFC 8974 changes the form of the token length: the boundary '
                                          'tokens take the wrong arm' % (short(x)[:70], cut, 'comparison on the on-wire size, which contains the extension bytes' if wire else 'comparison on the application length'), [])
    run.require_count(n >= (6 if run.cfg == 'base' else 4) or run.fixture_mode, 'R-CODEC-TAB(7): only %d comparisons with the extended-token bias macros found' % n)


def run_tokmax(run, P):
    """(8) the largest token the library accepts.  RFC 8974 2.1: the extended token length is 13 + 256 + 65535 = 65804 at most.  The header
    picks COAP_TOKEN_EXT_MAX with a preprocessor test of UINT_MAX; what matters is the value the compiler folded into the library's own
    comparisons (the same mechanism that once made COAP_MAX_OPT 65534: a test of a macro that is not defined yet silently takes the small
    branch).  On a platform whose unsigned int holds 65804 -- every platform this check runs on -- the folded value is 65804."""
    run.rule('R-CODEC-TAB')
    try:
        v = P.const_named('COAP_TOKEN_EXT_MAX')
    except Exception:
        run.require(run.fixture_mode, 'R-CODEC-TAB(8): COAP_TOKEN_EXT_MAX is not used anywhere in the library any more')
        return
    uint_max = None
    try:
        uint_max = P.const_named('UINT_MAX')
    except Exception:
        pass
    want = 65804
    run.instance('R-CODEC-TAB', 'COAP_TOKEN_EXT_MAX as folded into the library: %s' % v)
    ok = v == want
    run.oblige('R-CODEC-TAB', ok, 'token-ext-max')
    if not ok:
        loc = None
        for f in P.lib_funcs():
            for b in f['blocks']:
                items = [(ev['e'], ev['loc']) for ev in b['elems']]
                if b.get('term') and b['term'].get('cond') is not None:
                    items.append((b['term']['cond'], b['term'].get('loc')))
                for it, l in items:
                    if loc is None and any(isinstance(y, dict) and y.get('mn') == 'COAP_TOKEN_EXT_MAX' for y in walk(it)):
                        loc = (f['name'], l)
        run.violation('R-CODEC-TAB', loc[0] if loc else 'coap_add_token', loc[1] if loc else None, 'token-ext-max-folded:%s' % v,
                      'COAP_TOKEN_EXT_MAX is %s in the library, RFC 8974 allows tokens of up to %d bytes: the preprocessor test that chooses the value took its '
                      'small-platform branch (a macro it tests is not defined at that point of the header), so tokens longer than %s bytes are refused' % (v, want, v), [])


def run_marker(run, P, units=('coap_pdu.c',)):
    """(9) no payload marker without payload.  The decoder rejects a message that ends in the payload marker 0xFF (RFC 7252 3: "the presence
    of a marker followed by a zero-length payload MUST be processed as a message format error") -- R-PARSE-GATE checks that it does.  So the
    encoder must never produce one: in every function of the codec unit that stores COAP_PAYLOAD_START into a PDU buffer, the path from
    that store to the return increases the PDU's used_size by an amount that is known to be at least 1 (the length parameter tested
    against 0 before, a constant, ...)."""
    from core.psts import Env, solve, relevance, apply_generic
    run.rule('R-CODEC-TAB')
    try:
        MARK = P.const_named('COAP_PAYLOAD_START')
    except Exception:
        MARK = 0xFF
    n = 0
    for f in sorted(P.lib_funcs(), key=lambda f: f['name']):
        if f['unit'] not in units:
            continue
        stores = []
        for b, ev in P.events(f):
            t = ev['e']
            if t.get('k') == 'asg' and t.get('op') == '=' and const_int(t['r']) == MARK and isinstance(strip(t['r']), dict) and strip(t['r']).get('mn') == 'COAP_PAYLOAD_START':
                l = strip(t['l'])
                if isinstance(l, dict) and l.get('k') in ('idx', 'sub', 'un'):
                    stores.append(ev)
        if not stores:
            continue
        name = f['name']
        n += 1
        run.instance('R-CODEC-TAB', '%s: the payload marker is followed by at least one payload byte' % name)

        def grow(t):
            if t.get('k') == 'asg' and t.get('op') == '+=':
                l = strip(t['l'])
                if isinstance(l, dict) and l.get('k') == 'mem' and l.get('f') == 'used_size':
                    return t['r']
            return None
        lenvars = set()
        for b, ev in P.events(f):
            g = grow(ev['e'])
            if g is not None:
                for x in walk(g):
                    if isinstance(x, dict) and ap(x):
                        lenvars.add(ap(x))

        def is_rule_event(ev):
            return any(ev is s for s in stores) or grow(ev['e']) is not None or ev['e'].get('k') == 'ret'
        keys, R = relevance(f, is_rule_event, lenvars)
        R = set(R) | lenvars
        keys = set(keys)
        for b in f['blocks']:
            c = (b.get('term') or {}).get('cond')
            if c is not None and any(isinstance(x, dict) and ap(x) in lenvars for x in walk(c)):
                keys.add(b['id'])

        def on_event(ev, env, ctx):
            t = ev['e']
            if any(ev is s for s in stores):
                e = apply_generic(ev, env, R).copy()
                e.ts['open'] = ev['loc']
                return [e]
            g = grow(t)
            if g is not None and env.ts.get('open'):
                K = const_int(g)
                pos = K is not None and K >= 1
                if not pos and ap(strip(g)):
                    lo, hi, ex = env.intf(ap(strip(g)))
                    unsigned = strip(g).get('s') == 0
                    pos = lo >= 1 or ((lo >= 0 or unsigned) and 0 in ex)
                if pos:
                    e = apply_generic(ev, env, R).copy()
                    e.ts['open'] = None
                    return [e]
                return None
            if t.get('k') == 'ret' and env.ts.get('open'):
                run.oblige('R-CODEC-TAB', False, '%s:marker-followed-by-payload' % name)
                run.violation('R-CODEC-TAB', name, env.ts['open'], 'marker-without-payload',
                              'the payload marker is stored and the function returns on a path that did not add a payload of known non-zero length behind it: the message ends '
                              'in 0xFF, which every decoder (this library\'s included) rejects as a format error', ctx.path())
            elif t.get('k') == 'ret':
                run.oblige('R-CODEC-TAB', True, '%s:marker-followed-by-payload' % name)
            return None
        solve(f, Env(), on_event, None, keys, R, key_fn=lambda e: (e.ts.get('open'), tuple((e.intf(v)[0] >= 1, 0 in e.intf(v)[2]) for v in sorted(lenvars))))
    run.require_count(n >= 1 or run.fixture_mode, 'R-CODEC-TAB(9): no function of %s stores the payload marker any more' % (units,))


def run_opt_cursor(run, P):
    """R-CODEC-TAB (10) (walking encoded options): an encoded option is 1 header byte plus 0-2 delta-extension bytes plus 0-2 length-extension
    bytes plus the value; only coap_opt_size() / coap_opt_parse() know that.  A byte cursor over encoded options that is advanced by an
    expression built from coap_opt_length() (the VALUE length) assumes a one-byte header: right for values of up to 12 bytes, one or
    two bytes short from 13 / 269 bytes on -- the next option is then written over the tail of the previous one.  Library-wide: no
    `cursor += E` / `cursor = cursor + E` whose E calls coap_opt_length() on that cursor."""
    run.rule('R-CODEC-TAB')
    n = 0
    for f in sorted(P.lib_funcs(), key=lambda f: f['name']):
        for b, ev in P.events(f):
            t = ev['e']
            if not (ev.get('top', True) and t.get('k') == 'asg' and ap(t['l'])):
                continue
            l = ap(t['l'])
            e = None
            if t.get('op') == '+=':
                e = t['r']
            elif t.get('op') == '=':
                r = strip(t['r'])
                if isinstance(r, dict) and r.get('k') == 'bin' and r.get('op') == '+' and (ap(strip(r['l'])) == l or ap(strip(r['r'])) == l):
                    e = r['r'] if ap(strip(r['l'])) == l else r['l']
            if e is None:
                continue
            calls = [x for x in walk(e) if isinstance(x, dict) and x.get('k') == 'call' and x.get('fn') in ('coap_opt_length', 'coap_opt_size') and x.get('a') and ap(strip(x['a'][0])) == l]
            if not calls:
                continue
            n += 1
            bad = any(c['fn'] == 'coap_opt_length' for c in calls)
            run.instance('R-CODEC-TAB', '%s: option cursor advanced by %s' % (f['name'], short(e)[:40]))
            run.oblige('R-CODEC-TAB', not bad, '%s:option-cursor-advanced-by-encoded-size' % f['name'])
            if bad:
                run.violation('R-CODEC-TAB', f['name'], ev['loc'], 'option-cursor-advanced-by-value-length',
                              '`%s` steps over an encoded option by its VALUE length plus a constant: options with a value of 13 bytes or more have a longer header '
                              '(coap_opt_size() knows), so the cursor stops inside the option and the next one is written over its tail' % short(t)[:70], [])
    run.require_count(n >= 1 or run.fixture_mode or run.cfg != 'base', 'R-CODEC-TAB(10): no cursor advanced by coap_opt_size() found (expected backup_segment)')


# RFC 7252 Table 4, RFC 7641 (Observe), RFC 7959 (Block1/2, Size2), RFC 7967 (No-Response), RFC 8613 (OSCORE), RFC 8768 (Hop-Limit),
# RFC 9175 (Echo, Request-Tag), RFC 9177 (Q-Block1/2): option number -> (minimum, maximum) value length in bytes
RFC_OPTION_LENGTHS = {
    1: (0, 8), 3: (1, 255), 4: (1, 8), 5: (0, 0), 6: (0, 3), 7: (0, 2), 8: (0, 255), 9: (0, 255), 11: (0, 255), 12: (0, 2), 14: (0, 4),
    15: (0, 255), 16: (1, 1), 17: (0, 2), 19: (0, 3), 20: (0, 255), 23: (0, 3), 27: (0, 3), 28: (0, 4), 31: (0, 3), 35: (1, 1034),
    39: (1, 255), 60: (0, 4), 252: (1, 40), 258: (0, 1), 292: (0, 8),
}


def run_option_limits(run, P):
    """R-CODEC-TAB (11): the per-option length limits the decoder enforces - (min, max) per option number, extracted from the switch of
    coap_pdu_parse_opt_base() by running the typestate solver over it with interval facts on the length parameter - equal the RFC tables
    row by row.  A row that is too tight rejects a well-formed message, a row that is too loose or missing accepts one outside the limits.
    Option numbers the RFC table above does not list are counted and not judged."""
    run.rule('R-CODEC-TAB')
    from rules import r_range
    from core.facts import AnalysisBroken
    tab = r_range.option_length_table(P)
    if not tab:
        raise AnalysisBroken('R-CODEC-TAB (11): the option length table of coap_pdu_parse_opt_base could not be extracted')
    for num, want in sorted(RFC_OPTION_LENGTHS.items()):
        got = tab.get(num)
        run.instance('R-CODEC-TAB', 'option %d: decoder accepts lengths %s, RFC %d-%d' % (num, ('%d-%d' % got) if got else 'any', want[0], want[1]))
        ok = got == want
        run.oblige('R-CODEC-TAB', ok, 'option-length-row:%d' % num)
        if not ok:
            f = P.func('coap_pdu_parse_opt_base')
            run.violation('R-CODEC-TAB', 'coap_pdu_parse_opt_base', f['loc'], 'option-length-row:%d' % num,
                          'the decoder accepts value lengths %s for option %d, the RFC table says %d-%d: %s' % (
                              ('%d-%d' % got) if got else 'of any size (no row)', num, want[0], want[1],
                              'well-formed messages are rejected' if got and (got[0] > want[0] or got[1] < want[1]) else 'messages outside the per-option limits are accepted'))
    run.stats['option_length_rows_not_judged'] = len(set(tab) - set(RFC_OPTION_LENGTHS))
