"""R-WRITE-CAP (C02): a function that was given the capacity of the buffer it fills compares against it before it copies.

Instances are computed, not listed:
  * a (buffer, capacity) parameter pair (B, N) of a library function is established by call-site evidence: at some call the argument for
    B is a local fixed-size array and the argument for N is sizeof of that array (transitively: a caller that hands on its own pair);
  * a judged copy is a memcpy / memmove / memset in that function whose destination is derived from B and whose size is not a constant.
Obligation (NDEBUG build -- assert() is compiled out and counts for nothing), on every path to every judged copy: a real comparison was
passed that mentions a value derived from N (N itself, locals assigned from it, `rem -= x` chains) together with something related to the
size that is copied (the size expression's own terms, locals defined from them or that they are defined from, and what those are compared
with elsewhere in the function); a size expression that is itself a clamp against N (`min < len ? min : len`) is covered by construction.

Necessary for "no out-of-bounds write": without such a comparison the only thing between a long string and the end of the caller's array is
the caller's luck.  It is not sufficient (the comparison could be the wrong way round -- the interval rules of R-RANGE judge that where the
destination's size is visible), and functions that only delegate to the CBOR cursor primitives are not judged here (their sizes are
bounded by set-up checks that are not visible in the function: ids <= 7 bytes)."""
import collections
from core.prog import strip, walk, ap, short, const_int
from core.psts import Env, solve, relevance, apply_generic

COPY = ('memcpy', 'memmove', 'memset', '__builtin_memcpy', '__builtin___memcpy_chk', '__builtin___memmove_chk', '__builtin___memset_chk', '__memcpy_chk')


def _pv(p):
    return 'v%d' % p['id']


def _defs(P, f):
    """(target access path, defining expression, is-compound) for every assignment / initialiser of the function"""
    out = []
    for b, ev in P.events(f):
        for t in walk(ev['e']):
            if not isinstance(t, dict):
                continue
            if t.get('k') == 'asg' and ap(t['l']):
                out.append((ap(t['l']), t['r'], t.get('op') != '='))
        for d in ev['e'].get('d') or ():
            if d.get('init') is not None:
                out.append(('v%d' % d['id'], d['init'], False))
    return out


def tops(x):
    """maximal access paths of an expression (c->kid.length, not also c->kid and c)"""
    out = set()

    def rec(n):
        if isinstance(n, dict):
            n0 = strip(n)
            a = ap(n0) if isinstance(n0, dict) and n0.get('k') in ('var', 'mem', 'un', 'idx', 'sub') else None
            if a and not (isinstance(n0, dict) and n0.get('k') == 'un' and n0.get('op') == '&'):
                out.add(a)
                # the index of a[i] is a separate term
                if n0.get('k') in ('idx', 'sub') and n0.get('i') is not None:
                    rec(n0['i'])
                return
            for v in n.values():
                if isinstance(v, (dict, list)):
                    rec(v)
        elif isinstance(n, list):
            for v in n:
                rec(v)
    rec(x)
    return out


def _mentions(x, S):
    return bool(tops(x) & S)


def _mentions_any(x, S):
    return any(isinstance(n, dict) and ap(n) in S for n in walk(x))


def _has_call(x):
    return any(isinstance(n, dict) and n.get('k') == 'call' for n in walk(x))


def derived_ptr(P, f, seed):
    D = set(seed)
    ch = True
    defs = _defs(P, f)
    while ch:
        ch = False
        for l, r, comp in defs:
            if l not in D and l.startswith('v') and '-' not in l and '[' not in l and _mentions_any(r, D) and not _has_call(r):
                D.add(l)
                ch = True
    return D


def derived_cap(P, f, seed):
    """values derived from the capacity by plain arithmetic: rem = N; rem -= x; left = N - used.  A local counts only when EVERY
    definition of it is over capacity-derived values (a size that is clamped with `n = len` on one path is still a size)"""
    D = set(seed)
    defs = _defs(P, f)
    bytarget = collections.defaultdict(list)
    for l, r, comp in defs:
        bytarget[l].append((r, comp))
    ch = True
    while ch:
        ch = False
        for l, ds in bytarget.items():
            if l in D or not l.startswith('v') or '-' in l or '[' in l or '.' in l:
                continue
            if all((comp and l in D) or (_mentions(r, D) and not _has_call(r)) for r, comp in ds) and any(not comp for r, comp in ds):
                D.add(l)
                ch = True
    return D


def pairs(P):
    ev = collections.defaultdict(set)
    # direct evidence: (array, sizeof array)
    for f in P.lib_funcs():
        for b, e in P.events(f):
            for t in walk(e['e']):
                if isinstance(t, dict) and t.get('k') == 'call' and t.get('fn') and P.has(t['fn']):
                    A = t.get('a') or []
                    for i, a in enumerate(A):
                        a0 = strip(a)
                        if not (isinstance(a0, dict) and a0.get('k') == 'var' and a0.get('alen')):
                            continue
                        for j, c in enumerate(A):
                            c0 = strip(c)
                            if isinstance(c0, dict) and c0.get('k') == 'int' and c0.get('so') and c0.get('v') == a0['alen']:
                                g = P.func(t['fn'])
                                if i < len(g['params']) and j < len(g['params']) and g['params'][i].get('p') and not g['params'][i].get('pc'):
                                    ev[(t['fn'], i, j)].add(f['name'])
    # transitive: a paired function hands (B, N) on unchanged
    ch = True
    while ch:
        ch = False
        for (fn, i, j) in list(ev):
            g = P.func(fn)
            vb, vn = _pv(g['params'][i]), _pv(g['params'][j])
            for b, e in P.events(g):
                for t in walk(e['e']):
                    if isinstance(t, dict) and t.get('k') == 'call' and t.get('fn') and P.has(t['fn']):
                        A = [ap(x) for x in t.get('a') or []]
                        if vb in A and vn in A:
                            h = P.func(t['fn'])
                            k = (t['fn'], A.index(vb), A.index(vn))
                            if k not in ev and k[1] < len(h['params']) and k[2] < len(h['params']):
                                ev[k].add(fn)
                                ch = True
    return ev


def run(run, P):
    run.rule('R-WRITE-CAP')
    prs = pairs(P)
    run.require(len(prs) >= (8 if run.cfg == 'base' else 3) or run.fixture_mode, 'R-WRITE-CAP: fewer than 8 (buffer, sizeof buffer) parameter pairs found at call sites')
    nsites = 0
    judged = []
    for (fn, i, j) in sorted(prs):
        f = P.func(fn)
        pb, pn = f['params'][i], f['params'][j]
        B = derived_ptr(P, f, {_pv(pb)})
        N = derived_cap(P, f, {_pv(pn)})
        sites = []
        for b, ev in P.events(f):
            for t in walk(ev['e']):
                if isinstance(t, dict) and t.get('k') == 'call' and t.get('fn') in COPY and len(t.get('a') or []) >= 3:
                    A = t['a']
                    if _mentions_any(A[0], B) and const_int(A[2]) is None:
                        sites.append((ev, t))
        if not sites:
            continue
        judged.append(fn)
        defs = _defs(P, f)
        conds = [b['term']['cond'] for b in f['blocks'] if (b.get('term') or {}).get('cond') is not None]

        def related(S):
            rel = tops(S)
            rel -= N
            # what the size expression's own locals are computed from (one step back) ...
            for l, r, comp in defs:
                if l in rel and not _has_call(r):
                    rel |= (tops(r) - N)
            ch = True
            while ch:
                ch = False
                # ... and, forwards, everything that is computed from a related value (a total that sums the sizes).  Not backwards through
                # accumulators: `offset += a; offset += b` does not relate a to b
                for l, r, comp in defs:
                    rs = tops(r) - N
                    if l not in rel and l not in N and rs & rel and not _has_call(r):
                        rel.add(l)
                        ch = True
                for c in conds:
                    for n in walk(c):
                        if isinstance(n, dict) and n.get('k') == 'bin' and n.get('op') in ('<', '<=', '>', '>=', '==', '!='):
                            ls = tops(n['l']) - N
                            rs = tops(n['r']) - N
                            if ls and rs and ((ls & rel and not rs <= rel) or (rs & rel and not ls <= rel)):
                                if not (_mentions(n, N)):
                                    rel |= ls | rs
                                    ch = True
            # drop pure constants / the buffer itself
            return set(x for x in rel if x not in B)
        rels = [related(t['a'][2]) for ev, t in sites]
        byclamp = []
        for ev, t in sites:
            S = t['a'][2]
            byclamp.append(any(isinstance(n, dict) and n.get('k') == 'cond' and _mentions(n.get('c'), N) for n in walk(S)))

        def covers(c, k):
            for n in walk(c):
                if isinstance(n, dict) and n.get('k') == 'bin' and n.get('op') in ('<', '<=', '>', '>=') and _mentions(n, N) and _mentions(n, rels[k]):
                    return True
            return False

        def is_rule_event(ev):
            return any(ev is s[0] for s in sites)
        keys, R = relevance(f, is_rule_event)
        keys = set(keys)
        for b in f['blocks']:
            c = (b.get('term') or {}).get('cond')
            if c is not None and _mentions(c, N):
                keys.add(b['id'])
        name = fn

        def on_event(ev, env, ctx):
            for k, (sev, t) in enumerate(sites):
                if ev is sev:
                    ok = byclamp[k] or k in env.ts.get('cov', frozenset())
                    run.instance('R-WRITE-CAP', '%s: %s into `%s` (capacity `%s`)' % (name, short(t)[:60], pb['n'], pn['n']))
                    run.oblige('R-WRITE-CAP', ok, '%s:capacity-compared-before-copy' % name)
                    if not ok:
                        run.violation('R-WRITE-CAP', name, ev['loc'], 'copy-without-capacity-test:%s' % short(t['a'][2])[:40],
                                      '%s copies %s bytes into the caller\'s buffer `%s` on a path that never compared the capacity it was given (`%s`) with anything related to '
                                      'that size; with NDEBUG the assert()s are gone and a long value runs over the end of the caller\'s array' %
                                      (t['fn'], short(t['a'][2])[:40], pb['n'], pn['n']), ctx.path())
            return None

        def on_branch(b, s, env, ctx):
            c = (b.get('term') or {}).get('cond')
            if c is None:
                return env
            add = [k for k in range(len(sites)) if k not in env.ts.get('cov', frozenset()) and covers(c, k)]
            if not add:
                return env
            e = env.copy()
            e.ts['cov'] = frozenset(env.ts.get('cov', frozenset())) | frozenset(add)
            return e
        nsites += len(sites)
        solve(f, Env({'cov': frozenset()}), on_event, None, keys, R, key_fn=lambda e: e.ts.get('cov'), on_branch=on_branch)
    run.notes.append('R-WRITE-CAP: %d parameter pairs with call-site evidence, judged (direct variable-size copies): %s' % (len(prs), judged))
    run.require_count(nsites >= (3 if run.cfg == 'base' else 1) or run.fixture_mode, 'R-WRITE-CAP: fewer than 3 variable-size copies into capacity-paired buffers found')
