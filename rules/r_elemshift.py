"""R-ELEM-SHIFT (C02, C09): block moves inside arrays of records.

Library-wide, every memmove / memcpy whose destination (or source) is the address of an element of an array of records
(`&A[i]`, pointee a struct type) is judged:

 (1) element size: the byte count is a product with a constant factor >= 2 (the folded `sizeof(A[0])`), or a `sizeof` of the
     whole object.  A count of ELEMENTS handed over as a count of BYTES moves a fraction of the tail.
 (2) direction: when destination and source index the same array (`&A[i+a]`, `&A[i+b]`), dst > src opens a gap (insertion), dst < src
     closes one (deletion).  The element counter that occurs in the byte count is, when the function changes it after the move on
     the path, incremented after an insertion shift and decremented after a deletion shift.  A deletion shift followed by `count++`
     overwrites an element that was in the array and leaves the last counted slot unwritten (uninitialised memory is then read as an
     element).

Arrays of bytes (the PDU editors) are judged by R-FIXUP, not here.
"""
from core.prog import strip, walk, ap, short, const_int, succs

MOVERS = ('memmove', 'memcpy')
RULE = 'R-ELEM-SHIFT'


def _rec_ptr(x):
    x = strip(x)
    return isinstance(x, dict) and x.get('p') and x.get('prec')


def _has_elem_factor(sz):
    """a multiplication with a constant >= 2 somewhere in the size expression (sizeof folds to a constant)"""
    for y in walk(sz):
        if isinstance(y, dict) and y.get('k') == 'bin' and y.get('op') == '*':
            for side in (y['l'], y['r']):
                c = const_int(side)
                if c is not None and c >= 2:
                    return True
    c = const_int(sz)
    return c is not None and c >= 2


def _index_of(x):
    """&A[i + k]  ->  (ap(A), key of i, k)  for constant k"""
    x = strip(x)
    if not (isinstance(x, dict) and x.get('k') == 'un' and x.get('op') == '&'):
        return None
    s = strip(x['e'])
    if not (isinstance(s, dict) and s.get('k') == 'sub'):
        return None
    base = ap(s['b'])
    i = strip(s['i'])
    k = 0
    while isinstance(i, dict) and i.get('k') == 'cast':
        i = strip(i.get('e'))
    if isinstance(i, dict) and i.get('k') == 'bin' and i.get('op') in ('+', '-') and const_int(i['r']) is not None:
        k = const_int(i['r']) * (1 if i['op'] == '+' else -1)
        i = strip(i['l'])
        while isinstance(i, dict) and i.get('k') == 'cast':
            i = strip(i.get('e'))
    c = const_int(i)
    if c is not None:
        return base, '#', c + k
    return base, ap(i) or short(i), k


def run(run, P):
    run.rule(RULE)
    n = 0
    for f in sorted(P.lib_funcs(), key=lambda f: f['name']):
        name = f['name']
        B = f['B']
        for b, ev in P.events(f):
            t = ev['e']
            if not (t.get('k') == 'call' and t.get('fn') in MOVERS and ev.get('top') and len(t.get('a') or ()) == 3):
                continue
            dst, src, sz = t['a']
            if not (_rec_ptr(dst) or _rec_ptr(src)):
                continue
            # an ELEMENT of an array of records (`&A[i]`); copies of one whole object (`&x`, a plain pointer) carry their own byte length
            if not ((_rec_ptr(dst) and _index_of(dst)) or (_rec_ptr(src) and _index_of(src))):
                continue
            n += 1
            run.instance(RULE, '%s: %s' % (name, short(t)[:70]))
            ok = _has_elem_factor(sz)
            run.oblige(RULE, ok, '%s:element-size' % name)
            if not ok:
                run.violation(RULE, name, ev['loc'], 'element-count-as-byte-count',
                              '%s() moves elements of type %s but its size `%s` has no element-size factor: a number of ELEMENTS is used as a number of BYTES, only a fraction '
                              'of the tail is moved' % (t['fn'], strip(dst).get('prec') or strip(src).get('prec'), short(sz)[:60]))
            di, si = _index_of(dst), _index_of(src)
            if t['fn'] != 'memmove' or not di or not si or di[0] != si[0] or di[1] != si[1] or di[2] == si[2]:
                continue
            up = di[2] > si[2]
            counters = set(ap(y) for y in walk(sz) if isinstance(y, dict) and y.get('k') in ('var', 'mem', 'un') and ap(y)) - {di[1]}
            # first change of a counter reachable from the move
            seen, work, first = set(), [(b['id'], True)], []
            while work:
                bid, start = work.pop()
                if (bid, start) in seen:
                    continue
                seen.add((bid, start))
                evs = B[bid]['elems']
                if start:
                    idx = [i for i, e2 in enumerate(evs) if e2 is ev]
                    evs = evs[idx[0] + 1:] if idx else evs
                hit = False
                for e2 in evs:
                    t2 = e2['e']
                    if t2.get('k') == 'un' and t2.get('op') in ('++', '--') and ap(t2.get('e')) in counters:
                        first.append((t2['op'], e2))
                        hit = True
                        break
                    if t2.get('k') == 'asg' and ap(t2.get('l')) in counters:
                        op = {'+=': '++', '-=': '--'}.get(t2.get('op'))
                        if op:
                            first.append((op, e2))
                        hit = True
                        break
                if not hit and not B[bid].get('noret'):
                    for s_ in succs(B[bid]):
                        work.append((s_, False))
            for op, e2 in first:
                good = (op == '++') == up
                run.oblige(RULE, good, '%s:shift-direction' % name)
                if not good:
                    run.violation(RULE, name, ev['loc'], 'shift-direction-contradicts-count',
                                  'the move shifts the tail %s (destination index %+d, source index %+d: %s) but the element count is then %s (%s): %s'
                                  % ('up' if up else 'down', di[2], si[2], 'a gap is opened for an insertion' if up else 'a gap is closed, as for a deletion',
                                     'decremented' if op == '--' else 'incremented', e2['loc'].rsplit('/', 1)[-1],
                                     'the inserted element overwrites one that was in the array and the last counted slot is never written' if not up else
                                     'the element behind the gap is dropped from the count'))
    run.require_count(n >= (4 if run.cfg == 'base' else 1) or run.fixture_mode, 'R-ELEM-SHIFT: fewer than 4 block moves over arrays of records found')
    return n
