"""R-CMP-BOUND (C02, C20): a length-delimited byte string is compared only over bytes it has.

libcoap's strings are (s, length) pairs without terminator guarantee (coap_string_t, coap_str_const_t, coap_binary_t,
coap_bin_const_t, and pointer/length locals cut out of a received buffer).  For every  memcmp(X, Y, n) / strncmp  whose
operand X (or Y) is the `s` of such a pair E, on every path to the call  n <= E.length  must be known: n is E.length
itself, or a comparison on the path established  n == E.length / n <= E.length  (in either spelling).  For a local
pointer p cut out of a buffer the paired length is the local that is defined as a pointer difference `q - p`
(token / token_length in match()).  Operands without a derivable pair are not judged (counted as declined).

The dominant idiom (55 of 65 sites) is  a.length == b.length && memcmp(a.s, b.s, a.length) == 0 ; the rule is that idiom
made exact.  A violation is an over-read driven by a peer-controlled length."""
import collections
from core.prog import strip, walk, ap, key, short, const_int
from core.psts import Env, solve, relevance, apply_generic

CMP = {'memcmp': (0, 1, 2), 'strncmp': (0, 1, 2), 'strncasecmp': (0, 1, 2)}
STRRECS = ('coap_string_t', 'coap_str_const_t', 'coap_binary_t', 'coap_bin_const_t')


FINDERS = set()


def _pair_len_ap(x, f, ptrdiff):
    """access path of the length paired with pointer expression x, or None"""
    x = strip(x)
    if not isinstance(x, dict):
        return None
    if x.get('k') == 'mem' and x.get('f') == 's' and x.get('rec') in STRRECS:
        b = ap(x['b'])
        if b:
            return b + ('->' if x.get('arrow') else '.') + 'length'
        return None
    a = ap(x)
    if a and a in ptrdiff:
        return ptrdiff[a]
    # naming convention of the repository: <name> / <name>_length (record fields and locals/parameters)
    if x.get('k') == 'mem' and x.get('rec') in RECS[0]:
        fl = {y['n'] for y in RECS[0][x['rec']]}
        for suf in ('_length', '_len'):
            if x['f'] + suf in fl:
                b = ap(x['b'])
                if b:
                    return b + ('->' if x.get('arrow') else '.') + x['f'] + suf
    if x.get('k') == 'var' and a:
        for suf in ('_length', '_len', 'len'):
            v = f.get('_vars', {}).get(x['n'] + suf)
            if v:
                return v
    return None


RECS = [None]


def _local_vars(P, f):
    """name -> access path of the locals and parameters of f"""
    out = {}
    for p in f['params']:
        out[p['n'] if 'n' in p else p.get('name')] = 'v%d' % p['id']
    for b, ev in P.events(f):
        t = ev['e']
        if t.get('k') == 'decl':
            for d in t['d']:
                if d.get('n'):
                    out[d['n']] = 'v%d' % d['id']
    return out


def _ptrdiff_pairs(P, f):
    """local pointer p -> local length L where some definition is  L = q - p"""
    out = {}
    for b, ev in P.events(f):
        t = ev['e']
        l = r = None
        if t.get('k') == 'asg' and t.get('op') == '=':
            l, r = ap(t['l']), strip(t['r'])
        if l and isinstance(r, dict) and r.get('k') == 'bin' and r.get('op') == '-':
            p = ap(r['r'])
            rt = strip(r['r'])
            if p and isinstance(rt, dict) and rt.get('p') and '.' not in p and '>' not in p:
                out[p] = l
    return out


def _le(rel, a, b2, seen=()):
    """a <= b2 known from the relation set?"""
    if a == b2:
        return True
    for (kind, x, y) in rel:
        if kind == 'eq' and (x == a or y == a):
            o = y if x == a else x
            if o not in seen and _le(rel, o, b2, seen + (a,)):
                return True
        if kind == 'le' and x == a and y not in seen and _le(rel, y, b2, seen + (a,)):
            return True
    return False


def _eq(rel, a, b2, seen=()):
    if a == b2:
        return True
    for (kind, x, y) in rel:
        if kind == 'eq' and (x == a or y == a):
            o = y if x == a else x
            if o not in seen and _eq(rel, o, b2, seen + (a,)):
                return True
    return False


def _assign(rel, tgt, src):
    """relation set after  tgt = src  (src an access path or None)"""
    ups = set()
    if src:
        univ = {x for (_k, x, y) in rel} | {y for (_k, x, y) in rel}
        ups = {z for z in univ if z != tgt and _le(rel, src, z)}
    out = {x for x in rel if tgt not in (x[1], x[2])}
    for z in ups:
        out.add(('le', tgt, z))
    if src and src != tgt:
        out.add(('eq', tgt, src))
    return frozenset(out)


def run(run, P, only=None, units=None):
    run.rule('R-CMP-BOUND')
    nsite = 0
    ndecl = 0
    for f in P.lib_funcs():
        if only and f['name'] not in only:
            continue
        if units and not f['loc'].split(':')[0].endswith(tuple(units)):
            continue
        sites = [(b, ev) for b, ev in P.events(f) if ev['e'].get('k') == 'call' and ev['e'].get('fn') in CMP and len(ev['e'].get('a', [])) == 3
                 and const_int(ev['e']['a'][2]) is None]
        if not sites:
            continue
        name = f['name']
        RECS[0] = P.records
        f['_vars'] = _local_vars(P, f)
        ptrdiff = _ptrdiff_pairs(P, f)
        judged = []
        lens = set()
        all_pairs = set()
        retvars = set(ap(ev['e'].get('e')) for b, ev in P.events(f) if ev['e'].get('k') == 'ret' and ev['e'].get('e') is not None and ap(ev['e'].get('e')) and '->' not in ap(ev['e'].get('e')))
        for b, ev in sites:
            t = ev['e']
            n_ap = ap(t['a'][2])
            pairs = [(i, _pair_len_ap(t['a'][i], f, ptrdiff)) for i in (0, 1)]
            pairs = [(i, L) for i, L in pairs if L]
            if not n_ap or not pairs:
                ndecl += 1
                continue
            judged.append(ev)
            lens.add(n_ap)
            for _i, L in pairs:
                lens.add(L)
                all_pairs.add(L)
        if not judged:
            continue

        def is_rule_event(ev):
            if any(ev is j for j in judged):
                return True
            t = ev['e']
            if t.get('k') == 'asg' and (ap(t['l']) in lens or ap(t['r']) in lens):
                return True
            if t.get('k') == 'un' and t.get('op') in ('++', '--') and ap(t['e']) in lens:
                return True
            if t.get('k') == 'decl' and any(('v%d' % d['id']) in lens or ('init' in d and ap(d['init']) in lens) for d in t['d']):
                return True
            return False
        keys, R = relevance(f, is_rule_event, lens)
        for b in f['blocks']:
            c = (b.get('term') or {}).get('cond')
            if c is not None and any(ap(x) in lens for x in walk(c) if isinstance(x, dict)):
                keys = set(keys) | {b['id']}

        def on_event(ev, env, ctx):
            t = ev['e']
            rel0 = env.ts.get('rel', frozenset())
            if t.get('k') == 'decl':
                e = None
                for d in t['d']:
                    v = 'v%d' % d['id']
                    src = ap(d['init']) if 'init' in d else None
                    if v in lens or src in lens or any(v in (x[1], x[2]) for x in rel0):
                        e = e or env.copy()
                        e.ts['rel'] = _assign(e.ts.get('rel', frozenset()), v, src)
                if e is not None:
                    return [apply_generic(ev, e, R)]
                return None
            tgt = None
            src = None
            if t.get('k') == 'asg':
                tgt = ap(t['l'])
                src = ap(t['r']) if t.get('op') == '=' else None
            elif t.get('k') == 'un' and t.get('op') in ('++', '--'):
                tgt = ap(t['e'])
            if tgt and (tgt in lens or any(tgt in (x[1], x[2]) for x in rel0)):
                e = env.copy()
                e.ts['rel'] = _assign(rel0, tgt, src)
                return [apply_generic(ev, e, R)]
            if any(ev is j for j in judged):
                n_ap = ap(t['a'][2])
                rel = env.ts.get('rel', frozenset())

                mine = [_pair_len_ap(t['a'][i], f, ptrdiff) for i in (0, 1)]
                # (finder) a look-up that RETURNS the element one operand belongs to decides an exact match: both lengths equal the compared length
                if retvars and all(mine):
                    owner = [v for v in retvars for i in (0, 1) if (ap(t['a'][i]) or '').startswith(v + '->')]
                    if owner:
                        exact = all(n_ap == L or _eq(rel, n_ap, L) for L in mine)
                        run.oblige('R-CMP-BOUND', exact, '%s:%s:finder-exact' % (name, t['fn']))
                        FINDERS.add((name, ev['loc']))
                        if not exact:
                            run.violation('R-CMP-BOUND', name, ev['loc'], 'finder-matches-prefix',
                                          '%s() returns the element whose name is compared here, but %s(%s) is reached on a path that does not know BOTH strings to have the compared length '
                                          '(%s): an element whose name merely begins with the name asked for is returned as the match' %
                                          (name, t['fn'], short(t)[len(t['fn']) + 1:][:70], ' / '.join(short_len(L) for L in mine)), ctx.path())
                others = [L2 for L2 in all_pairs if L2 not in mine and L2 != n_ap and _eq(rel, n_ap, L2)]
                for i in (0, 1):
                    L = mine[i]
                    if not L:
                        continue
                    if others and not _eq(rel, n_ap, L) and n_ap != L:
                        run.oblige('R-CMP-BOUND', False, '%s:%s#%d:pair' % (name, t['fn'], i))
                        run.violation('R-CMP-BOUND', name, ev['loc'], 'length-of-other-string:arg%d' % i,
                                      '%s(%s) is reached on a path whose exact-length test compared %s with the length of a different string (%s), not with the length of `%s`: '
                                      'an exact match is decided against the wrong length' % (t['fn'], short(t)[len(t['fn']) + 1:][:80], short(t['a'][2])[:30],
                                                                                             ', '.join(short_len(o) for o in others), short(t['a'][i])[:30]), ctx.path())
                        continue
                    ok = _le(rel, n_ap, L)
                    run.oblige('R-CMP-BOUND', ok, '%s:%s#%d' % (name, t['fn'], i))
                    if not ok:
                        run.violation('R-CMP-BOUND', name, ev['loc'], 'compare-beyond-length:arg%d' % i,
                                      '%s(%s) compares %s bytes of `%s` on a path that does not know that length to be within the %s bytes that operand has: '
                                      'bytes behind the string are read' % (t['fn'], short(t)[len(t['fn']) + 1:][:80], short(t['a'][2])[:30], short(t['a'][i])[:30], short_len(L)), ctx.path())
            return None

        def short_len(L):
            return L.split('>')[-1].split('.')[-1] if L else '?'

        def on_branch(b, s, env, ctx):
            term = b.get('term') or {}
            c = term.get('cond')
            if c is None or len(b['succ']) != 2:
                return env
            truth = s == b['succ'][0]
            c = strip(c)
            while isinstance(c, dict) and c.get('k') == 'un' and c.get('op') == '!':
                c = strip(c['e'])
                truth = not truth
            if not (isinstance(c, dict) and c.get('k') == 'bin' and c.get('op') in ('==', '!=', '<', '<=', '>', '>=')):
                return env
            a, b2 = ap(c['l']), ap(c['r'])
            if not a or not b2 or (a not in lens and b2 not in lens):
                return env
            op = c['op']
            if not truth:
                op = {'==': '!=', '!=': '==', '<': '>=', '<=': '>', '>': '<=', '>=': '<'}[op]
            fact = None
            if op == '==':
                fact = ('eq', a, b2)
            elif op in ('<=', '<'):
                fact = ('le', a, b2)
            elif op in ('>=', '>'):
                fact = ('le', b2, a)
            if fact is None:
                return env
            e = env.copy()
            e.ts['rel'] = env.ts.get('rel', frozenset()) | {fact}
            return e
        for ev in judged:
            nsite += 1
            run.instance('R-CMP-BOUND', '%s: %s' % (name, short(ev['e'])[:90]))
        ctx = solve(f, Env({'rel': frozenset()}), on_event, None, keys, R, key_fn=lambda e: e.ts.get('rel'), on_branch=on_branch, max_envs=512)
        run.stats['cmpbound_solver_steps'] += ctx.steps
    run.stats['cmpbound_declined_sites'] = ndecl
    return nsite



def run_identity(run, P):
    """R-CMP-BOUND (a bounded comparison that decides identity): two clauses, library-wide.
    (1) strncmp / strncasecmp bounded by the `.length` of a string record (a run-time length, not the size of a literal) says "one is a
        prefix of the other".  Where names are told apart that way -- the Observe-counter file keeps one line per resource name -- `temp`
        also matches `temp2`: rewriting the line of one resource drops the lines of all resources it is a prefix of.  No such call exists
        today (every strn*cmp in the library is bounded by a literal's size); identity of counted strings is coap_binary_equal() /
        length equality plus memcmp.
    (2) where a condition compares a length n with strlen(S) and memcmp()s over n bytes against S, the length comparison is `==`:
        `n <= strlen(S)` makes every proper prefix of a known name (a truncated URI scheme, the empty string) equal to it."""
    run.rule('R-CMP-BOUND')
    n1 = n2 = 0
    for f in sorted(P.lib_funcs(), key=lambda f: f['name']):
        nodes = [(ev['loc'], ev['e']) for b, ev in P.events(f) if ev.get('top') or ev['e'].get('k') == 'decl']
        conds = []
        for b in f['blocks']:
            c = (b.get('term') or {}).get('cond')
            if c is not None:
                nodes.append(((b['term'].get('loc') or f['loc']), c))
                conds.append(((b['term'].get('loc') or f['loc']), c))
        seen = set()
        for loc, t in nodes:
            for x in walk(t):
                if not (isinstance(x, dict) and x.get('k') == 'call' and x.get('fn') in ('strncmp', 'strncasecmp') and len(x.get('a') or ()) == 3):
                    continue
                if (loc, short(x)) in seen:
                    continue
                seen.add((loc, short(x)))
                n1 += 1
                b3 = strip(x['a'][2])
                bad = isinstance(b3, dict) and b3.get('k') == 'mem' and b3.get('f') == 'length' and b3.get('rec') in STRRECS
                run.oblige('R-CMP-BOUND', not bad, '%s:strncmp-bound-is-a-literal-size' % f['name'])
                if bad:
                    run.violation('R-CMP-BOUND', f['name'], loc, 'prefix-test-decides-identity',
                                  '`%s` is bounded by the run-time length of one operand: it holds whenever that operand is a PREFIX of the other, so names that extend each other '
                                  '(temp / temp2, a / a/b) are taken for the same' % short(x)[:70], [])
        # (2) n op strlen(S) next to memcmp(.., S.., n)
        strlens = []
        for loc, c in conds:
            for x in walk(c):
                if isinstance(x, dict) and x.get('k') == 'bin' and x.get('op') in ('==', '!=', '<', '<=', '>', '>='):
                    for a_, b_ in ((x['l'], x['r']), (x['r'], x['l'])):
                        calls = [y for y in walk(b_) if isinstance(y, dict) and y.get('k') == 'call' and y.get('fn') == 'strlen']
                        if calls and not [y for y in walk(a_) if isinstance(y, dict) and y.get('k') == 'call']:
                            strlens.append((loc, x, short(strip(calls[0]['a'][0])), short(a_)))
        if strlens:
            mem = []
            for loc, t in nodes:
                for y in walk(t):
                    if isinstance(y, dict) and y.get('k') == 'call' and y.get('fn') in ('memcmp', 'strncmp', 'strncasecmp') and len(y.get('a') or ()) == 3:
                        mem.append(y)
            for loc, x, s_txt, n_txt in strlens:
                hit = [y for y in mem if any(short(strip(a)) == s_txt for a in y['a'][:2]) and n_txt.strip('()') in short(y['a'][2])]
                if not hit:
                    continue
                n2 += 1
                ok = x['op'] in ('==', '!=')          # `!=` is the same test on the rejecting side
                run.instance('R-CMP-BOUND', '%s: the length compared over is tested for equality with strlen(%s)' % (f['name'], s_txt[:30]))
                run.oblige('R-CMP-BOUND', ok, '%s:length-equals-strlen' % f['name'])
                if not ok:
                    run.violation('R-CMP-BOUND', f['name'], loc, 'prefix-of-known-name-accepted',
                                  '`%s` lets the comparison `%s` run over fewer bytes than the known name has: every proper prefix of the name (and the empty string) compares '
                                  'equal to it' % (short(x)[:60], short(hit[0])[:60]), [])
    run.instance('R-CMP-BOUND', 'strn*cmp calls bounded by a literal size: %d; strlen-equality sites: %d' % (n1, n2))
    run.require_count((n1 >= 5 and n2 >= 1) or run.fixture_mode or run.cfg != 'base', 'R-CMP-BOUND(identity): expected >= 5 strn*cmp calls and >= 1 strlen equality next to a memcmp (coap_split_uri_sub)')
