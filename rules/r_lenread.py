"""R-LEN-READ (C16): reads on length-delimited text stay inside the delimited bytes.

Style A (cursor, remaining length) - frozen pairs of the URI scanners: the solver tracks
        avail = lb(length) - lead, where guards raise lb(length), `length -= k` lowers it and `lead` is how far the
        cursor ran ahead of the length; a read cursor[k] (or *cursor, k = 0) needs avail >= k + 1.
Style B (index, length)  - coap_replace_percents: data[i + k] needs a guard `length - i >= m`, m >= k + 1 (k = 0: `i < length`).
Style C (constant index) - coap_host_is_unix_domain: s[k] needs length >= k + 1.
decode_segment relies on its caller: in make_decoded_option its call is preceded on every path by a tested
check_segment() on the same arguments (must-precede).
"""
from core.prog import strip, walk, ap, key, short, const_int
from core.psts import Env, solve, relevance, apply_generic, INF

PAIRS_A = {'check_segment': ('s', 'length'), 'dots': ('s', 'len'), 'strnchr': ('s', 'len')}
RELIES_ON_CALLER = {'decode_segment': ('make_decoded_option', 'check_segment')}
STYLE_B = {'coap_replace_percents': ('data', 'length', 'i')}
STYLE_C = {'coap_host_is_unix_domain': ('s', 'length')}


def run(run, P):
    run.rule('R-LEN-READ')
    # ---------------------------------------------------------------- style A
    for name, (cur, ln) in sorted(PAIRS_A.items()):
        if not P.has(name):
            if run.fixture_mode:
                continue
            run.require(False, 'anchor function %s() of R-LEN-READ not found' % name)
        f = P.func(name)
        ids = dict((p['n'], 'v%d' % p['id']) for p in f['params'])
        run.require(cur in ids and ln in ids, 'R-LEN-READ: parameters %s/%s of %s() not found' % (cur, ln, name))
        C, L = ids[cur], ids[ln]

        def lbL(env):
            lo, hi, ex = env.intf(L)
            if lo == -INF or lo < 0:
                lo = 0
            while lo in ex:
                lo += 1
            return lo

        def cond_is(b, t):
            term = b.get('term')
            return bool(term and term.get('cond') is not None and key(term['cond']) == key(t))
        nreads = [0]

        def on_event(ev, env, ctx):
            t = ev['e']
            k = t.get('k')
            d = env.ts.get('d', 0)

            def read(i, txt):
                nreads[0] += 1
                run.instance('R-LEN-READ', '%s: read %s' % (name, txt))
                av = lbL(env) - d
                ok = av >= i + 1
                run.oblige('R-LEN-READ', ok, '%s:%s' % (name, txt))
                if not ok:
                    run.violation('R-LEN-READ', name, ev['loc'], 'overread:%s' % txt,
                                  'read of %s needs %d byte(s) to be available but only %d are proven on this path (lower bound of %s is %d, cursor lead %d): '
                                  'the byte behind the length-delimited input is read' % (txt, i + 1, av, ln, lbL(env), d), ctx.path())
            if k == 'sub' and ap(t['b']) == C:
                i = const_int(t['i'])
                if i is not None:
                    read(i, '%s[%d]' % (cur, i))
                return None
            if k == 'un' and t.get('op') == '*':
                e0 = strip(t['e'])
                if ap(e0) == C:
                    read(0, '*' + cur)
                elif isinstance(e0, dict) and e0.get('k') == 'un' and e0.get('op') in ('++', '--') and e0.get('post') and ap(e0['e']) == C:
                    # *s++ : the ++ event ran first (lead already advanced): the byte read is the old one
                    nreads[0] += 1
                    run.instance('R-LEN-READ', '%s: read *%s++' % (name, cur))
                    av = lbL(env) - (d - 1)
                    ok = av >= 1
                    run.oblige('R-LEN-READ', ok, '%s:*%s++' % (name, cur))
                    if not ok:
                        run.violation('R-LEN-READ', name, ev['loc'], 'overread:*%s++' % cur,
                                      'read of *%s++ needs 1 byte to be available but %d are proven on this path' % (cur, av), ctx.path())
                return None

            def upd_cursor(K):
                e = env.copy()
                e.ts['d'] = max(-8, min(8, d + K))
                return [e]

            def upd_len(K):
                e = env.copy()
                lo, hi, ex = env.intf(L)
                lo = lbL(env)
                e.ints[L] = (lo - K, hi - K if hi != INF else INF, frozenset())
                e.ts['d'] = max(-8, min(8, d - K))
                return [e]
            if k == 'un' and t.get('op') in ('++', '--'):
                a = ap(t['e'])
                if a == C:
                    return upd_cursor(1 if t['op'] == '++' else -1)
                if a == L:
                    if t.get('post') and cond_is(ctx.block, t):
                        e = env.copy()
                        e.ts['postdec'] = 1      # handled at the branch
                        return [e]
                    return upd_len(1 if t['op'] == '--' else -1)
            if k == 'asg' and t.get('op') in ('+=', '-='):
                a = ap(t['l'])
                K = const_int(t['r'])
                if K is not None:
                    if a == C:
                        return upd_cursor(K if t['op'] == '+=' else -K)
                    if a == L:
                        return upd_len(K if t['op'] == '-=' else -K)
            if k == 'asg' and ap(t['l']) in (C, L):
                e = env.copy()
                e.kill(ap(t['l']))
                e.ts['d'] = 0
                return [e]
            return None

        def on_branch(b, s, e, ctx):
            if e.ts.get('postdec'):
                e2 = e.copy()
                del e2.ts['postdec']
                truth = s == b['succ'][0]
                lo = lbL(e)
                if truth:
                    e2.ints[L] = (max(lo, 1) - 1, INF, frozenset())
                    e2.ts['d'] = max(-8, min(8, e.ts.get('d', 0) - 1))
                else:
                    e2.ints.pop(L, None)
                return e2
            return e

        def key_fn(e):
            return (e.ts.get('d', 0), e.ts.get('postdec'), lbL(e))
        ctx = solve(f, Env(ts={'d': 0}), on_event, None, None, None, key_fn=key_fn, on_branch=on_branch, max_envs=128)
        run.stats['lenread_solver_steps'] += ctx.steps
        run.require(nreads[0] > 0 or run.fixture_mode, 'R-LEN-READ: no read through %s found in %s()' % (cur, name))
    # ---------------------------------------------------------------- callers that vouch for a scanner
    for callee, (caller, checker) in sorted(RELIES_ON_CALLER.items()):
        if not P.has(caller) or not P.has(callee):
            if run.fixture_mode:
                continue
            run.require(False, 'anchor %s()/%s() of R-LEN-READ not found' % (caller, callee))
        f = P.func(caller)

        def is_rule_event(ev):
            t = ev['e']
            return any(isinstance(y, dict) and y.get('k') == 'call' and y.get('fn') in (callee, checker) for y in walk(t))
        keys, R = relevance(f, is_rule_event)
        seen = [0]

        def on_event(ev, env, ctx):
            t = ev['e']
            if t.get('k') == 'call' and t.get('fn') == checker:
                e = env.copy()
                e.ts['chk'] = (key(t), key(t['a'][0]), key(t['a'][1]))
                return [apply_generic(ev, e, R)]
            if t.get('k') == 'asg' and env.ts.get('chk') and isinstance(strip(t['r']), dict) and strip(t['r']).get('k') == 'call' and strip(t['r']).get('fn') == checker:
                e = apply_generic(ev, env, R).copy()
                e.ts['chkvar'] = ap(t['l'])
                return [e]
            if t.get('k') == 'call' and t.get('fn') == callee:
                seen[0] += 1
                run.instance('R-LEN-READ', '%s: %s(%s, %s) relies on a preceding %s()' % (caller, callee, short(t['a'][0]), short(t['a'][1]), checker))
                chk = env.ts.get('chk')
                ok = False
                if chk and chk[1] == key(t['a'][0]) and chk[2] == key(t['a'][1]):
                    rc = env.ret.get(chk[0])
                    v = env.ts.get('chkvar')
                    iv = env.intf(v) if v else (-INF, INF, frozenset())
                    if rc and ((rc[0] == 'eq' and rc[1] >= 0) or (rc[0] == 'rng' and rc[1][0] >= 0)):
                        ok = True
                    if iv[0] >= 0:
                        ok = True
                run.oblige('R-LEN-READ', ok, '%s:%s-after-%s' % (caller, callee, checker))
                if not ok:
                    run.violation('R-LEN-READ', caller, ev['loc'], 'unchecked-%s' % callee,
                                  '%s() (which reads two bytes behind every %%) is called on a path where %s() on the same arguments has not been '
                                  'tested to succeed' % (callee, checker), ctx.path())
            return None
        ctx = solve(f, Env(), on_event, None, keys, None, key_fn=lambda e: (e.ts.get('chk'), e.ts.get('chkvar')))
        run.require(seen[0] > 0, 'R-LEN-READ: %s() is not called from %s() any more' % (callee, caller))
    # ---------------------------------------------------------------- style B: index / length
    for name, (arr, ln, idx) in sorted(STYLE_B.items()):
        if not P.has(name):
            if run.fixture_mode:
                continue
            run.require(False, 'anchor function %s() of R-LEN-READ not found' % name)
        f = P.func(name)
        nreads = [0]

        def parse_idx(i):
            """index expression i + k -> (key of i, k)"""
            i = strip(i)
            if isinstance(i, dict) and i.get('k') == 'bin' and i.get('op') == '+' and const_int(i['r']) is not None:
                return key(i['l']), const_int(i['r'])
            return key(i), 0

        def on_event(ev, env, ctx):
            t = ev['e']
            if t.get('k') == 'sub':
                b = strip(t['b'])
                if isinstance(b, dict) and b.get('k') == 'mem' and b['f'] == arr:
                    ik, k = parse_idx(t['i'])
                    base = key(b['b'])
                    lk = base + '->' + ln
                    ok = False
                    # guard `length - i >= m` / `i < length` among the atoms of this path
                    for ak, av in env.atoms.items():
                        if not av:
                            continue
                        if ak == '((%s-%s)>=%d)' % (lk, ik, k + 1) or any(ak == '((%s-%s)>=%d)' % (lk, ik, m) for m in range(k + 1, k + 8)):
                            ok = True
                        if ak == '((%s-%s)>%d)' % (lk, ik, k) or any(ak == '((%s-%s)>%d)' % (lk, ik, m) for m in range(k, k + 8)):
                            ok = True
                        if k == 0 and ak == '(%s<%s)' % (ik, lk):
                            ok = True
                    written = ik != key({'k': 'var', 'id': 0, 'n': ''}) and False
                    # stores at the output index o <= i are covered by the same loop guard: only reads/writes at idx-based positions are judged
                    names = [y['n'] for y in walk(t['i']) if isinstance(y, dict) and y.get('k') == 'var']
                    if idx not in names:
                        return None
                    nreads[0] += 1
                    txt = '%s[%s]' % (arr, short(t['i']))
                    run.instance('R-LEN-READ', '%s: access %s' % (name, txt))
                    run.oblige('R-LEN-READ', ok, '%s:%s' % (name, txt))
                    if not ok:
                        run.violation('R-LEN-READ', name, ev['loc'], 'overread:%s' % txt,
                                      'access to %s is not guarded by a comparison proving %s - %s >= %d on this path' % (txt, ln, idx, k + 1), ctx.path())
            # the index changes: guards on the old value are void (atoms are killed by the generic transfer)
            return None
        ctx = solve(f, Env(), on_event, None, None, None)
        run.stats['lenread_solver_steps'] += ctx.steps
        run.require(nreads[0] > 0 or run.fixture_mode, 'R-LEN-READ: no indexed access found in %s()' % name)
    # ---------------------------------------------------------------- style C: constant index
    for name, (arr, ln) in sorted(STYLE_C.items()):
        if not P.has(name):
            if run.fixture_mode:
                continue
            run.require(False, 'anchor function %s() of R-LEN-READ not found' % name)
        f = P.func(name)
        nreads = [0]

        def on_event(ev, env, ctx):
            t = ev['e']
            if t.get('k') == 'sub':
                b = strip(t['b'])
                i = const_int(t['i'])
                if isinstance(b, dict) and b.get('k') == 'mem' and b['f'] == arr and i is not None:
                    la = ap(b['b']) + '->' + ln if ap(b['b']) else None
                    lo = env.intf(la)[0] if la else -INF
                    nreads[0] += 1
                    txt = '%s[%d]' % (arr, i)
                    run.instance('R-LEN-READ', '%s: read %s' % (name, txt))
                    ok = lo >= i + 1
                    run.oblige('R-LEN-READ', ok, '%s:%s' % (name, txt))
                    if not ok:
                        run.violation('R-LEN-READ', name, ev['loc'], 'overread:%s' % txt,
                                      'read of %s needs %s >= %d, proven lower bound %s' % (txt, ln, i + 1, lo), ctx.path())
            return None
        ctx = solve(f, Env(), on_event, None, None, None)
        run.stats['lenread_solver_steps'] += ctx.steps
        run.require(nreads[0] > 0 or run.fixture_mode, 'R-LEN-READ: no constant-index read found in %s()' % name)


# ---------------------------------------------------------------------------------------------------------------
def run_outcap(run, P, units=('coap_uri.c',)):
    """R-LEN-READ (output side): a destination pointer that travels with its remaining capacity (<name> / <name>len parameters or
    locals: buf / buflen) is handed to a callee that writes through it WITHOUT being told the capacity (the callee has no size
    parameter for it: decode_segment) only when the capacity was compared with something since the last time the pointer or the
    capacity was changed -- a check made before `buf += written; buflen -= written` says nothing about what is left after it."""
    from core.prog import strip, walk, ap, short
    from core.psts import Env, solve, relevance, apply_generic
    run.rule('R-LEN-READ')
    # callees that store through a pointer parameter and have no integer parameter after it that could be its capacity
    writers = {}
    for g in P.lib_funcs():
        if g['unit'] not in units:
            continue
        for i, p in enumerate(g['params']):
            if not p.get('p') or p.get('pc'):
                continue
            pv = 'v%d' % p['id']
            stores = False
            for b, ev in P.events(g):
                t = ev['e']
                if t.get('k') == 'asg':
                    l = strip(t['l'])
                    if isinstance(l, dict) and ((l.get('k') == 'un' and l.get('op') == '*' and ap(l.get('e')) == pv) or (l.get('k') in ('idx', 'sub') and ap(l.get('b')) == pv)):
                        stores = True
            if not stores:
                continue
            # capacity parameter = an integer parameter whose name relates to this pointer's name (buflen, <p>_len, len, size) placed after it
            pn = p.get('n') or ''
            capnames = (pn + 'len', pn + '_len', pn + '_length', pn + 'size', pn + '_size', 'maxlen')
            if any((q.get('n') in capnames) for q in g['params']):
                continue
            writers[(g['name'], i)] = pn
    n = 0
    for f in sorted(P.lib_funcs(), key=lambda f: f['name']):
        if f['unit'] not in units:
            continue
        name = f['name']
        vars_ = {}
        for p in f['params']:
            vars_[p.get('n')] = 'v%d' % p['id']
        for b, ev in P.events(f):
            t = ev['e']
            if t.get('k') == 'decl':
                for d in t['d']:
                    if d.get('n'):
                        vars_[d['n']] = 'v%d' % d['id']
        sites = []
        for b, ev in P.events(f):
            t = ev['e']
            if t.get('k') == 'call' and t.get('fn'):
                for i, a in enumerate(t.get('a', [])):
                    if (t['fn'], i) in writers:
                        a0 = strip(a)
                        if isinstance(a0, dict) and a0.get('k') == 'var' and a0.get('n'):
                            cap = None
                            for suf in ('len', '_len', '_length'):
                                if a0['n'] + suf in vars_:
                                    cap = vars_[a0['n'] + suf]
                            if cap:
                                sites.append((ev, ap(a0), cap))
        if not sites:
            continue
        watched = set()
        for _e, d, c in sites:
            watched |= {d, c}

        def is_rule_event(ev):
            t = ev['e']
            if any(ev is s[0] for s in sites):
                return True
            if t.get('k') == 'asg' and ap(t['l']) in watched:
                return True
            if t.get('k') == 'un' and t.get('op') in ('++', '--') and ap(t.get('e')) in watched:
                return True
            return False
        keys, R = relevance(f, is_rule_event, watched)
        for b in f['blocks']:
            c = (b.get('term') or {}).get('cond')
            if c is not None and any(ap(x) in watched for x in walk(c) if isinstance(x, dict)):
                keys = set(keys) | {b['id']}

        def on_event(ev, env, ctx):
            t = ev['e']
            tgt = None
            if t.get('k') == 'asg':
                tgt = ap(t['l'])
            elif t.get('k') == 'un' and t.get('op') in ('++', '--'):
                tgt = ap(t.get('e'))
            if tgt in watched:
                e = apply_generic(ev, env, R).copy()
                e.ts['fresh'] = frozenset(x for x in env.ts.get('fresh', frozenset()) if tgt not in x)
                return [e]
            for (sev, d, c) in sites:
                if ev is sev:
                    ok = any(c in x and ('D:' + d) in x for x in env.ts.get('fresh', frozenset()))
                    run.oblige('R-LEN-READ', ok, '%s:outcap' % name)
                    if not ok:
                        run.violation('R-LEN-READ', name, ev['loc'], 'capacity-check-stale:%s' % t.get('fn'),
                                      '%s() writes through `%s` without knowing its capacity, and the remaining capacity `%s` has not been compared with anything since `%s` / `%s` were '
                                      'last changed: a check made before the adjustment does not cover what is written now' %
                                      (t.get('fn'), short(t['a'][[i for i, a in enumerate(t['a']) if ap(a) == d][0]]), [k for k, v in vars_.items() if v == c][0],
                                       [k for k, v in vars_.items() if v == d][0], [k for k, v in vars_.items() if v == c][0]), ctx.path())
            return None

        def on_branch(b, s, env, ctx):
            c = (b.get('term') or {}).get('cond')
            if c is None:
                return env
            caps = set(cc for _e, _d, cc in sites)
            hit = [ap(x) for x in walk(c) if isinstance(x, dict) and ap(x) in caps]
            if not hit:
                return env
            e = env.copy()
            fr = set(env.ts.get('fresh', frozenset()))
            for cc in hit:
                # the check is about the capacity AND the current pointer position (both unchanged since)
                for (_e, d, c2) in sites:
                    if c2 == cc:
                        fr.add((cc, 'D:' + d))
            e.ts['fresh'] = frozenset(fr)
            return e
        for sev, d, c in sites:
            n += 1
            run.instance('R-LEN-READ', '%s: %s(.., %s) with capacity %s' % (name, sev['e']['fn'], [k for k, v in vars_.items() if v == d][0], [k for k, v in vars_.items() if v == c][0]))
        # kill must also apply when the destination pointer moves: encode by making the tuple contain 'D:<ptr>' and filtering on the raw ap
        solve(f, Env({'fresh': frozenset()}), lambda ev, env, ctx: _outcap_event(ev, env, ctx, on_event, watched), None, keys, R, key_fn=lambda e: e.ts.get('fresh'), on_branch=on_branch)
    run.require_count(n >= 1 or run.fixture_mode, 'R-LEN-READ(output): no write through an unsized callee parameter with a travelling capacity found in %s' % (units,))


def _outcap_event(ev, env, ctx, inner, watched):
    from core.prog import ap
    t = ev['e']
    tgt = None
    if t.get('k') == 'asg':
        tgt = ap(t['l'])
    elif t.get('k') == 'un' and t.get('op') in ('++', '--'):
        tgt = ap(t.get('e'))
    if tgt in watched:
        from core.psts import apply_generic
        e = apply_generic(ev, env, None).copy()
        e.ts['fresh'] = frozenset(x for x in env.ts.get('fresh', frozenset()) if tgt not in x and ('D:' + tgt) not in x)
        return [e]
    return inner(ev, env, ctx)


def run_accum_guard(run, P, units=('coap_uri.c',)):
    """R-LEN-READ (accumulator guard): a scanner that accumulates a number from digits -- `while (more input && V <= K1) V = V * 10 + digit` --
    stops early when the value guard fails, with digits still unread.  The check that follows the loop has to reject every value the loop
    can leave through its value guard, or the unread digits are silently dropped and a number that is out of range is accepted as a
    smaller one: {v : not (v op1 K1)} is a subset of {v : v op2 K2} (two comparisons of one variable with constants: decided by evaluating
    both at the boundary values).  The rejecting arm of the check is the one from which V is not read any more."""
    from core.prog import strip, walk, ap, short, const_int, succs
    from rules.r_sizefill import natural_loops
    run.rule('R-LEN-READ')
    OPS = {'<': lambda a, b: a < b, '<=': lambda a, b: a <= b, '>': lambda a, b: a > b, '>=': lambda a, b: a >= b, '==': lambda a, b: a == b, '!=': lambda a, b: a != b}
    FLIP = {'<': '>', '<=': '>=', '>': '<', '>=': '<=', '==': '==', '!=': '!='}

    def cmp_const(c):
        c = strip(c)
        if isinstance(c, dict) and c.get('k') == 'bin' and c.get('op') in OPS:
            if ap(c['l']) and const_int(c['r']) is not None:
                return ap(c['l']), c['op'], const_int(c['r'])
            if ap(c['r']) and const_int(c['l']) is not None:
                return ap(c['r']), FLIP[c['op']], const_int(c['l'])
        return None
    n = 0
    for f in sorted(P.lib_funcs(), key=lambda f: f['name']):
        if units and f['unit'] not in units:
            continue
        B = f['B']
        try:
            loops = natural_loops(f)
        except KeyError:
            continue
        for h, body in sorted(loops.items()):
            # guards of the loop: branch blocks inside the body with an edge out of the loop
            for bid in sorted(body):
                b = B[bid]
                c = (b.get('term') or {}).get('cond')
                if c is None or len(b['succ']) != 2 or b['succ'][0] not in body or b['succ'][1] in body:
                    continue          # true arm stays inside, false arm leaves
                cc = cmp_const(c)
                if not cc or not cc[0].startswith('v'):
                    continue
                V, op1, K1 = cc
                # V is accumulated inside the loop: assigned an expression that mentions V
                acc = any(ev['e'].get('k') == 'asg' and ap(ev['e']['l']) == V and any(isinstance(x, dict) and ap(x) == V for x in walk(ev['e']['r']))
                          for bb in body for ev in B[bb]['elems'])
                if not acc:
                    continue
                # first comparison of V with a constant after the loop
                work, seen, post = [b['succ'][1]], set(), None
                while work and post is None:
                    x = work.pop(0)
                    if x in seen or x in body:
                        continue
                    seen.add(x)
                    c2 = (B[x].get('term') or {}).get('cond')
                    cc2 = cmp_const(c2) if c2 is not None else None
                    if cc2 and cc2[0] == V and len(B[x]['succ']) == 2:
                        post = (x, cc2)
                        break
                    if any(ev['e'].get('k') == 'asg' and ap(ev['e']['l']) == V for ev in B[x]['elems']):
                        continue
                    work.extend(succs(B[x]))
                if post is None:
                    continue
                pb, (_v, op2, K2) = post

                def reads_v(start):
                    work, seen = [start], set()
                    while work:
                        x = work.pop()
                        if x in seen or x is None:
                            continue
                        seen.add(x)
                        for ev in B[x]['elems']:
                            t = ev['e']
                            rhs = [t.get('r')] if t.get('k') == 'asg' else [t]
                            if any(isinstance(y, dict) and ap(y) == V for r in rhs for y in walk(r)):
                                return True
                            if t.get('k') == 'asg' and ap(t['l']) == V:
                                break
                        else:
                            c3 = (B[x].get('term') or {}).get('cond')
                            if c3 is not None and any(isinstance(y, dict) and ap(y) == V for y in walk(c3)):
                                return True
                            work.extend(succs(B[x]))
                    return False
                rt, rf = reads_v(B[pb]['succ'][0]), reads_v(B[pb]['succ'][1])
                if rt == rf:
                    continue          # cannot tell the rejecting arm: not judged
                reject_when_true = not rt
                n += 1
                run.instance('R-LEN-READ', '%s: accumulator guard %s %s %d, range check %s %d' % (f['name'], [p for p in ('v',)][0], op1, K1, op2, K2))
                cex = None
                for v in sorted(set(k + d for k in (K1, K2) for d in (-2, -1, 0, 1, 2))):
                    leaves = not OPS[op1](v, K1)
                    rejected = OPS[op2](v, K2) == reject_when_true
                    if leaves and not rejected:
                        cex = v
                        break
                run.oblige('R-LEN-READ', cex is None, '%s:guard-exit-rejected' % f['name'])
                if cex is not None:
                    run.violation('R-LEN-READ', f['name'], b['term'].get('loc') or f['loc'], 'accumulator-guard-exit-accepted:%d' % cex,
                                  'the digit loop stops when its value guard (%s %d) fails, which it does at the value %d with digits still unread, but the range check after the loop '
                                  '(%s %d) lets %d through: the unread digits are dropped and an out-of-range number is accepted as %d' % (op1, K1, cex, op2, K2, cex, cex), [])
    run.require_count(n >= 1 or run.fixture_mode, 'R-LEN-READ(accumulator guard): no guarded digit accumulation followed by a range check found in %s' % (units,))


def run_pair_advance(run, P, units=('coap_option.c',)):
    """R-LEN-READ (cursor and remaining length move together): a decoder that walks a buffer with a byte cursor and the number of bytes left
    (two parameters, both modified: `const coap_opt_t *opt, size_t length`) changes them in step: every advance of the cursor by k has, in
    the same basic block, a decrease of the remaining length by the same k (the ADVANCE_OPT idiom), and vice versa.  A cursor stepped
    alone leaves the count one too large: the final "value longer than what is left" test then accepts an option whose value is cut by
    one byte, and everything behind reads past the datagram."""
    run.rule('R-LEN-READ')
    n = 0

    def step(t):
        """(variable, signed amount key) for ++v / v++ / v += k / v = v + k / --v / v -= k"""
        if t.get('k') == 'un' and t.get('op') in ('++', 'post++', '--', 'post--') and ap(t.get('e')):
            return ap(t['e']), ('+' if '++' in t['op'] else '-') + '1'
        if t.get('k') == 'asg' and ap(t['l']):
            if t.get('op') in ('+=', '-='):
                return ap(t['l']), t['op'][0] + (str(const_int(t['r'])) if const_int(t['r']) is not None else short(t['r']))
            if t.get('op') == '=':
                r = strip(t['r'])
                if isinstance(r, dict) and r.get('k') == 'bin' and r.get('op') in ('+', '-') and ap(strip(r['l'])) == ap(t['l']):
                    return ap(t['l']), r['op'] + (str(const_int(r['r'])) if const_int(r['r']) is not None else short(r['r']))
        return None
    for f in sorted(P.lib_funcs(), key=lambda f: f['name']):
        if units and f['unit'] not in units:
            continue
        ps = f.get('params') or ()
        ptrs = set('v%s' % p['id'] for p in ps if p.get('p') and (p.get('pt') or '').replace('const ', '') in ('unsigned char', 'uint8_t', 'coap_opt_t'))
        lens = set('v%s' % p['id'] for p in ps if not p.get('p') and (p.get('t') or '') in ('size_t', 'unsigned int', 'uint32_t', 'int'))
        if not ptrs or not lens:
            continue
        per_block = {}
        for b in f['blocks']:
            for ev in b['elems']:
                for x in walk(ev['e']) if not ev.get('top') else [ev['e']]:
                    pass
            for ev in b['elems']:
                t = ev['e']
                cands = [t] if ev.get('top') else []
                # a step buried in an expression (result->value = ++opt)
                if ev.get('top'):
                    cands += [x for x in walk(t) if isinstance(x, dict) and x is not t and x.get('k') in ('un', 'asg')]
                for x in cands:
                    s_ = step(x)
                    if s_ and (s_[0] in ptrs or s_[0] in lens):
                        per_block.setdefault(b['id'], []).append((s_, ev['loc'], short(x)))
        modp = set(s_[0][0] for v in per_block.values() for s_ in v if s_[0][0] in ptrs)
        modl = set(s_[0][0] for v in per_block.values() for s_ in v if s_[0][0] in lens)
        if len(modp) != 1 or len(modl) != 1:
            continue
        cur, rem = list(modp)[0], list(modl)[0]
        n += 1
        run.instance('R-LEN-READ', '%s: cursor and remaining length are stepped together (%d block(s))' % (f['name'], len(per_block)))
        for bid, steps in sorted(per_block.items()):
            adv = sorted(a[1:] for (v, a), _l, _s in steps if v == cur and a[0] == '+')
            dec = sorted(a[1:] for (v, a), _l, _s in steps if v == rem and a[0] == '-')
            ok = adv == dec
            run.oblige('R-LEN-READ', ok, '%s:cursor-and-count-in-step' % f['name'])
            if not ok:
                loc = steps[0][1]
                run.violation('R-LEN-READ', f['name'], loc, 'cursor-and-count-out-of-step',
                              'in this block the cursor is advanced by [%s] while the remaining length is lowered by [%s] (%s): the count no longer says how many bytes are '
                              'left behind the cursor, and the truncation test that follows compares with the wrong number'
                              % (', '.join(adv) or 'nothing', ', '.join(dec) or 'nothing', '; '.join(s for _a, _l, s in steps)[:80]), [])
    run.require_count(n >= 1 or run.fixture_mode or run.cfg != 'base', 'R-LEN-READ(pair advance): no decoder that steps a cursor parameter and a remaining-length parameter found (expected coap_opt_parse)')
