"""R-FRESH-LABEL (C09): counters that exist to hand out fresh labels -- record fields whose only writers in the whole library are `++`
(computed; today the context's ETag counter, the session's message-id and Request-Tag counters) -- are stepped before every use: a
plain read of such a field whose value goes anywhere but into a comparison with a constant lies, on every path of the function, behind
a `++` of the same field.  The ETag libcoap picks for a large response is the only thing that lets the receiver tell the blocks of
two representations apart; reading the counter without stepping it gives every body the same ETag, and the blocks of a changed
resource are silently spliced into the body the client is still assembling."""
import collections
from core.prog import strip, walk, ap, short, const_int
from core.psts import Env, solve, relevance, apply_generic

STEP = ('++', 'post++')


def label_fields(P):
    W = collections.defaultdict(collections.Counter)
    for f in P.lib_funcs():
        for b, ev in P.events(f):
            if not ev.get('top', True):
                continue
            for x in walk(ev['e']):
                if not isinstance(x, dict):
                    continue
                if x.get('k') == 'un' and x.get('op') in ('++', 'post++', '--', 'post--'):
                    e = strip(x['e'])
                    if isinstance(e, dict) and e.get('k') == 'mem':
                        W[(e.get('rec'), e.get('f'))][x['op']] += 1
                if x.get('k') == 'asg':
                    e = strip(x['l'])
                    if isinstance(e, dict) and e.get('k') == 'mem':
                        W[(e.get('rec'), e.get('f'))]['asg'] += 1
    return set(k for k, c in W.items() if (c['++'] + c['post++']) > 0 and not c['--'] and not c['post--'] and not c['asg']
               and k[0] in ('coap_context_t', 'coap_session_t'))


def run(run, P):
    run.rule('R-FRESH-LABEL')
    L = label_fields(P)
    run.require(('coap_context_t', 'etag') in L or run.fixture_mode or run.cfg != 'base',
                'R-FRESH-LABEL: the context\'s ETag counter is no longer a field that is only ever stepped (writers changed)')
    n = 0

    def is_label(x):
        return isinstance(x, dict) and x.get('k') == 'mem' and (x.get('rec'), x.get('f')) in L

    for f in sorted(P.lib_funcs(), key=lambda f: f['name']):
        reads = []
        steps = []
        for b, ev in P.events(f):
            t = ev['e']
            if not ev.get('top', True):
                continue
            stepped_nodes = set()
            for x in walk(t):
                if isinstance(x, dict) and x.get('k') == 'un' and x.get('op') in STEP and is_label(strip(x['e'])):
                    stepped_nodes.add(id(strip(x['e'])))
                    steps.append((ev, strip(x['e'])['f']))
                if isinstance(x, dict) and x.get('k') == 'un' and x.get('op') == '&' and is_label(strip(x.get('e'))):
                    stepped_nodes.add(id(strip(x['e'])))            # seeded through its address (random start value)
            part = t['r'] if t.get('k') == 'asg' else (t if t.get('k') in ('call', 'ret', 'decl') else None)
            if part is None:
                continue
            for x in walk(part):
                if is_label(x) and id(x) not in stepped_nodes:
                    reads.append((ev, x['f'], short(t)[:60]))
        if not reads:
            continue
        name = f['name']

        def is_rule_event(ev):
            return any(ev is r[0] for r in reads) or any(ev is s[0] for s in steps)
        keys, R = relevance(f, is_rule_event)
        keys = set(keys)
        # a step inside a condition (`if (++ctx->etag == 0)`) is an event of the branching block
        rep = set()

        def on_event(ev, env, ctx):
            out = None
            for sev, fld in steps:
                if ev is sev:
                    e = (out or env).copy()
                    e.ts['s:' + fld] = 1
                    out = e
            for rev, fld, txt in reads:
                if ev is rev:
                    ok = bool((out or env).ts.get('s:' + fld))
                    run.oblige('R-FRESH-LABEL', ok, '%s:%s:stepped-before-read' % (name, fld))
                    if not ok and ev['loc'] not in rep:
                        rep.add(ev['loc'])
                        run.violation('R-FRESH-LABEL', name, ev['loc'], 'label-read-without-step:%s' % fld,
                                      '`%s` takes the value of the label counter %s on a path that has not stepped it in this call: two objects get the same label '
                                      '(two bodies the same ETag -- the receiver cannot tell their blocks apart)' % (txt, fld), ctx.path())
            return [out] if out is not None else None
        for rev, fld, txt in reads:
            n += 1
            run.instance('R-FRESH-LABEL', '%s: %s read only after it was stepped (%s)' % (name, fld, txt))
        solve(f, Env(), on_event, None, keys, R, key_fn=lambda e: tuple(sorted(k for k in e.ts if k.startswith('s:'))))
    run.require_count(n >= 1 or run.fixture_mode or run.cfg != 'base', 'R-FRESH-LABEL: no plain read of a label counter found (expected coap_add_data_large_internal: etag = context->etag)')
