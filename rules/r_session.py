"""Session reference / event rules of C12.

R-REF-TMP   a statement-form coap_session_reference_lkd(x); (value unused: a temporary hold) is matched by
            coap_session_release_lkd(x) on every path of the function.  Exception table below.
R-REF-HOLD  record types with a field assigned from coap_session_reference_lkd() are computed ("holders");
            every path that frees a holder object (coap_free_type, directly or through a helper that frees
            its parameter without releasing) has released obj-><field> (exact path, or any release since the
            previous free) or knows it NULL; a holder field is not overwritten with NULL without a release.
R-SESS-EVT  every coap_session_free(s) that may concern a server session is preceded on its path by
            coap_handle_event_lkd(.., COAP_EVENT_SERVER_SESSION_DEL, s), unless s was made in the same
            function and no SERVER_SESSION_NEW for it lies on the path, or s is known to be a client session;
            a function that raises SERVER_SESSION_NEW raises it at most once per path for a session.
"""
import collections
from core.prog import strip, walk, ap, key, short, const_int, is_null_const
from core.psts import Env, solve, relevance, apply_generic, Budget

REF, REL = 'coap_session_reference_lkd', 'coap_session_release_lkd'
FREE = 'coap_free_type'
# statement-form references that are deliberately not released in the same function (one symbol, one reason)
REF_TMP_EXCEPTIONS = {
    'coap_session_create_client': "the application's own reference on the client session it is being handed",
    'coap_session_set_type_client': 'a server session converted to a client session gains the application reference',
    'coap_session_free': 'self-hold while tearing down; the object is freed with ref == 1',
    'coap_session_reference': 'public API: the application takes the reference',
}


def _stmt_ref(ev):
    t = ev['e']
    return t.get('k') == 'call' and t.get('fn') == REF and ev.get('top')


def holders(P):
    """record name -> set of fields assigned from coap_session_reference_lkd()"""
    h = collections.defaultdict(set)
    sites = []
    for f in P.funcs.values():
        for b, ev in P.events(f):
            t = ev['e']
            if t.get('k') == 'asg' and t.get('op') == '=':
                r = strip(t['r'])
                l = strip(t['l'])
                if isinstance(r, dict) and r.get('k') == 'call' and r.get('fn') == REF and isinstance(l, dict) and l.get('k') == 'mem' and l.get('rec'):
                    h[l['rec']].add(l['f'])
                    sites.append((f['name'], ev['loc'], l['rec'], l['f']))
    return h, sites


def run_ref_tmp(run, P, only=None):
    run.rule('R-REF-TMP')
    for f in sorted(P.lib_funcs(), key=lambda f: f['name']):
        if only and f['name'] not in only:
            continue
        refs = [ev for b, ev in P.events(f) if _stmt_ref(ev)]
        if not refs:
            continue
        name = f['name']
        for ev in refs:
            run.instance('R-REF-TMP', '%s: %s;' % (name, short(ev['e'])))
        if name in REF_TMP_EXCEPTIONS:
            run.notes.append('R-REF-TMP exception %s: %s' % (name, REF_TMP_EXCEPTIONS[name]))
            continue

        def is_rule_event(ev):
            t = ev['e']
            return t.get('k') == 'call' and t.get('fn') in (REF, REL)
        keys, R = relevance(f, is_rule_event)

        def on_event(ev, env, ctx):
            t = ev['e']
            if _stmt_ref(ev):
                a = key(t['a'][0])
                e = env.copy()
                e.ts['ref:' + a] = min(3, e.ts.get('ref:' + a, 0) + 1)
                e.ts['at:' + a] = ev['loc']
                return [e]
            if t.get('k') == 'call' and t.get('fn') == REL:
                a = key(t['a'][0])
                if env.ts.get('ref:' + a, 0) > 0:
                    e = env.copy()
                    e.ts['ref:' + a] -= 1
                    if e.ts['ref:' + a] == 0:
                        del e.ts['ref:' + a]
                        e.ts.pop('at:' + a, None)
                    return [e]
                return None
            # re-assignment of the session variable while holding: the hold is on the old value; keep the key
            return None

        def on_exit(env, ctx):
            held = [(k, v) for k, v in env.ts.items() if k.startswith('ref:') and v > 0]
            run.oblige('R-REF-TMP', not held, '%s:balanced' % name)
            for k, v in held:
                run.violation('R-REF-TMP', name, env.ts.get('at:' + k[4:], f['loc']), 'unreleased-temporary-reference',
                              'a path returns while the temporary reference taken by coap_session_reference_lkd() is still held '
                              '(the session can never be freed)', ctx.path())

        def key_fn(e):
            return tuple(sorted((k, v) for k, v in e.ts.items() if k.startswith('ref:')))
        ctx = solve(f, Env(), on_event, on_exit, keys, R, key_fn=key_fn)
        run.stats['session_solver_steps'] += ctx.steps


REL_OWED_EXCEPTIONS = {
    'coap_session_release': "public API: the application gives back the reference it was handed",
}


def run_rel_owed(run, P, only=None):
    """R-REF-TMP (release is owed): the mirror image of the temporary-hold rule.  A statement `coap_session_release_lkd(S)` on a
    PARAMETER S of the function drops a reference somebody must own.  The function owns one when it took it itself earlier on the
    path (`coap_session_reference_lkd(S);`), or when it is dismantling a holder object (a record type with a field assigned from
    coap_session_reference_lkd(), computed) and frees that object raw in the same function - the holder's reference goes with it.
    Otherwise the release takes a reference that belongs to someone else: the count reaches zero while an observation, a queued
    message or the application still points at the session."""
    run.rule('R-REF-TMP')
    hrecs, _ = holders(P)
    n = 0
    for f in sorted(P.lib_funcs(), key=lambda f: f['name']):
        if only and f['name'] not in only:
            continue
        name = f['name']
        pvars = set('v%d' % p['id'] for p in f['params'])
        rels = []
        assigned = set()
        frees_holder = False
        for b, ev in P.events(f):
            t = ev['e']
            if t.get('k') == 'call' and t.get('fn') == REL and ev.get('top') and t.get('a'):
                a = strip(t['a'][0])
                if isinstance(a, dict) and a.get('k') == 'var' and ap(a) in pvars:
                    rels.append(ev)
            elif t.get('k') == 'asg' and ap(t['l']):
                assigned.add(ap(t['l']))
            elif t.get('k') == 'call' and t.get('fn') == FREE and len(t.get('a') or []) >= 2:
                h = strip(t['a'][1])
                if isinstance(h, dict) and h.get('prec') in hrecs:
                    frees_holder = True
        rels = [ev for ev in rels if ap(ev['e']['a'][0]) not in assigned]
        if not rels:
            continue
        for ev in rels:
            n += 1
            run.instance('R-REF-TMP', '%s: %s; (parameter)' % (name, short(ev['e'])))
        if name in REL_OWED_EXCEPTIONS:
            run.notes.append('R-REF-TMP (release owed) exception %s: %s' % (name, REL_OWED_EXCEPTIONS[name]))
            continue
        if frees_holder:
            for ev in rels:
                run.oblige('R-REF-TMP', True, '%s:release-for-dismantled-holder' % name)
            continue

        def is_rule_event(ev):
            t = ev['e']
            return t.get('k') == 'call' and t.get('fn') in (REF, REL)
        keys, R = relevance(f, is_rule_event)

        def on_event(ev, env, ctx):
            t = ev['e']
            if _stmt_ref(ev):
                a = key(t['a'][0])
                e = env.copy()
                e.ts['ref:' + a] = min(3, e.ts.get('ref:' + a, 0) + 1)
                return [e]
            if t.get('k') == 'call' and t.get('fn') == REL and t.get('a'):
                a = key(t['a'][0])
                if env.ts.get('ref:' + a, 0) > 0:
                    e = env.copy()
                    e.ts['ref:' + a] -= 1
                    if e.ts['ref:' + a] == 0:
                        del e.ts['ref:' + a]
                    if any(ev is r for r in rels):
                        run.oblige('R-REF-TMP', True, '%s:release-of-own-reference' % name)
                    return [e]
                if any(ev is r for r in rels):
                    run.oblige('R-REF-TMP', False, '%s:release-of-own-reference' % name)
                    run.violation('R-REF-TMP', name, ev['loc'], 'release-without-reference',
                                  '%s releases a reference on its parameter that this function did not take on this path and that no holder object freed here '
                                  'owns: the reference of another owner (an observation, a queued message, the application) is dropped and the session can be '
                                  'freed while that owner still points at it' % short(t), ctx.path())
            return None

        def key_fn(e):
            return tuple(sorted((k, v) for k, v in e.ts.items() if k.startswith('ref:')))
        ctx = solve(f, Env(), on_event, None, keys, R, key_fn=key_fn)
        run.stats['session_solver_steps'] += ctx.steps
    run.require_count(n >= (5 if run.cfg == 'base' else 1) or run.fixture_mode, 'R-REF-TMP (release owed): fewer than 5 releases of a session parameter found')


def run_ref_hold(run, P, only=None):
    run.rule('R-REF-HOLD')
    H, sites = holders(P)
    for s in sites:
        run.instance('R-REF-HOLD', 'holder %s.%s assigned in %s' % (s[2], s[3], s[0]))
    run.notes.append('reference holders (computed): ' + ', '.join('%s.%s' % (r, f) for r, fs in sorted(H.items()) for f in sorted(fs)))
    if not H:
        return H
    F = P.funcs

    def holder_rec(node):
        node = strip(node)
        if isinstance(node, dict) and node.get('p') and node.get('prec') in H:
            return node['prec']
        return None
    # rawfree[(fn)] = set of param indexes that are freed without a release on some path
    rawfree = collections.defaultdict(set)

    def analyze(f, report):
        name = f['name']
        pidx = dict(('v%d' % p['id'], i) for i, p in enumerate(f['params']))
        found = {'raw': set()}

        def free_arg(t):
            """holder-typed pointer freed by this call, or None"""
            fn = t.get('fn')
            if fn == FREE and len(t['a']) > 1 and holder_rec(t['a'][1]):
                return t['a'][1]
            if fn in rawfree:
                for i in rawfree[fn]:
                    if i < len(t['a']) and holder_rec(t['a'][i]):
                        return t['a'][i]
            return None

        def is_rule_event(ev):
            t = ev['e']
            if t.get('k') == 'call' and (t.get('fn') == REL or free_arg(t) is not None):
                return True
            if t.get('k') == 'asg':
                l = strip(t['l'])
                if isinstance(l, dict) and l.get('k') == 'mem' and l.get('rec') in H and l['f'] in H[l['rec']]:
                    return True
                if holder_rec(t['l']) and isinstance(strip(t['r']), dict) and strip(t['r']).get('k') == 'call':
                    return True
            if t.get('k') == 'decl':
                for d in t['d']:
                    r = strip(d.get('init'))
                    if d.get('prec') in H and isinstance(r, dict) and r.get('k') == 'call':
                        return True
            return False
        if not any(is_rule_event(ev) and (ev['e'].get('k') != 'call' or ev['e'].get('fn') != REL) for b, ev in P.events(f)):
            return found
        extra = set()
        for b, ev in P.events(f):
            t = ev['e']
            if t.get('k') == 'call':
                x = free_arg(t)
                if x is not None and ap(x):
                    for fld in H[holder_rec(x)]:
                        extra.add(ap(x) + '->' + fld)
        keys, R = relevance(f, is_rule_event, extra)
        R = R | extra

        def on_event(ev, env, ctx):
            t = ev['e']
            if t.get('k') == 'call' and t.get('fn') == REL:
                e = env.copy()
                e.ts['nrel'] = 1
                a = ap(t['a'][0])
                if a:
                    rs = set(env.ts.get('rel', ()))
                    rs.add(a)
                    rs.add(env.canon(a))
                    e.ts['rel'] = tuple(sorted(rs))
                return [apply_generic(ev, e, R)]
            if t.get('k') == 'call':
                x = free_arg(t)
                if x is not None:
                    rec = holder_rec(x)
                    xa = ap(x)
                    ok = False
                    for fld in H[rec]:
                        pth = (xa + '->' + fld) if xa else None
                        if pth and (pth in env.ts.get('rel', ()) or env.canon(pth) in env.ts.get('rel', ()) or env.nullf(pth) == 'Z'):
                            ok = True
                    if not ok and env.ts.get('nrel'):
                        ok = True
                    if xa and env.nullf(xa) == 'Z':
                        ok = True
                    if xa and env.ts.get('fresh:' + xa):
                        ok = True      # allocated here and no reference stored into it yet
                    isparam = xa in pidx
                    if report:
                        run.instance('R-REF-HOLD', '%s: frees a %s (%s)' % (name, rec, short(x)))
                    if not ok and isparam:
                        found['raw'].add(pidx[xa])
                        ok = True      # obligation moves to the callers
                    if report:
                        run.oblige('R-REF-HOLD', ok, '%s:free:%s' % (name, rec))
                        if not ok:
                            run.violation('R-REF-HOLD', name, ev['loc'], 'free-without-release:%s' % rec,
                                          'a %s is freed on a path that neither released its session reference (%s) nor knows it NULL: '
                                          'the session stays referenced forever' % (rec, ', '.join('%s->%s' % (short(x), fl) for fl in H[rec])), ctx.path())
                    e = env.copy()
                    e.ts.pop('nrel', None)
                    return [apply_generic(ev, e, R)]
                return None
            if t.get('k') == 'asg' and t.get('op') == '=' and holder_rec(t['l']) and isinstance(strip(t['r']), dict) and strip(t['r']).get('k') == 'call':
                a = ap(t['l'])
                if a:
                    e = apply_generic(ev, env, R).copy()
                    e.ts['fresh:' + a] = 1
                    return [e]
            if t.get('k') == 'decl':
                e = None
                for d in t['d']:
                    r = strip(d.get('init'))
                    if d.get('prec') in H and isinstance(r, dict) and r.get('k') == 'call':
                        e = e or apply_generic(ev, env, R).copy()
                        e.ts['fresh:v%d' % d['id']] = 1
                if e is not None:
                    return [e]
            if t.get('k') == 'asg' and t.get('op') == '=':
                l = strip(t['l'])
                if isinstance(l, dict) and l.get('k') == 'mem' and l.get('rec') in H and l['f'] in H[l['rec']] and not is_null_const(t['r']):
                    b = ap(l['b'])
                    if b and env.ts.get('fresh:' + b):
                        e = apply_generic(ev, env, R).copy()
                        del e.ts['fresh:' + b]
                        return [e]
                if isinstance(l, dict) and l.get('k') == 'mem' and l.get('rec') in H and l['f'] in H[l['rec']] and is_null_const(t['r']):
                    pth = ap(l)
                    ok = bool(pth and (pth in env.ts.get('rel', ()) or env.nullf(pth) == 'Z')) or bool(env.ts.get('nrel'))
                    if report:
                        run.instance('R-REF-HOLD', '%s: clears %s' % (name, short(l)))
                        run.oblige('R-REF-HOLD', ok, '%s:clear:%s' % (name, l['rec']))
                        if not ok:
                            run.violation('R-REF-HOLD', name, ev['loc'], 'clear-without-release:%s' % l['rec'],
                                          '%s is set to NULL without releasing the reference it holds' % short(l), ctx.path())
                return None
            return None

        def key_fn(e):
            return (e.ts.get('nrel', 0), e.ts.get('rel', ()), tuple(sorted(k for k in e.ts if k.startswith('fresh:'))))
        ctx = solve(f, Env(), on_event, None, keys, R, key_fn=key_fn)
        run.stats['session_solver_steps'] += ctx.steps
        return found
    # summaries to a fixed point, then report
    for rnd in range(4):
        changed = False
        for n, f in sorted(F.items()):
            r = analyze(f, report=False)
            if r['raw'] - rawfree[n]:
                rawfree[n] |= r['raw']
                changed = True
        if not changed:
            break
    run.notes.append('helpers that free a holder parameter without releasing (obligation on callers): ' + ', '.join(sorted(n for n in rawfree if rawfree[n])))
    for f in sorted(P.lib_funcs(), key=lambda f: f['name']):
        if only and f['name'] not in only:
            continue
        analyze(f, report=True)
    run.rawfree = dict(rawfree)
    return H


def run_ref_stale(run, P):
    """R-REF-HOLD (stale): after coap_session_release_lkd(X->session) on a reference holder X (queue node, subscription, async entry) the
    holder no longer owns a reference.  On every path from there to the end of the function the field is overwritten (NULL or a new reference)
    or X is freed raw (coap_free_type / a helper that frees its parameter without releasing).  A holder that stays alive with the old
    pointer in place is released a second time by its destructor: the session loses a reference somebody else owns."""
    run.rule('R-REF-HOLD')
    H, _sites = holders(P)
    rawfree = getattr(run, 'rawfree', {})
    n = 0
    for f in sorted(P.lib_funcs(), key=lambda f: f['name']):
        name = f['name']
        rels = []
        for b, ev in P.events(f):
            t = ev['e']
            if t.get('k') == 'call' and t.get('fn') == REL and t.get('a'):
                a = strip(t['a'][0])
                if isinstance(a, dict) and a.get('k') == 'mem' and a.get('rec') in H and a['f'] in H[a['rec']] and ap(a) and ap(a.get('b')):
                    rels.append((ev, ap(a), ap(a['b'])))
        if not rels:
            continue
        paths = set(r[1] for r in rels)
        bases = set(r[2] for r in rels)

        def frees(t):
            fn = t.get('fn')
            out = []
            if fn == FREE and len(t.get('a') or []) > 1 and ap(t['a'][1]) in bases:
                out.append(ap(t['a'][1]))
            if fn in rawfree:
                for i in rawfree[fn]:
                    if i < len(t['a']) and ap(t['a'][i]) in bases:
                        out.append(ap(t['a'][i]))
            return out

        def through(t):
            """holder paths this expression dereferences (X->session->...)"""
            return [ap(x['b']) for x in walk(t) if isinstance(x, dict) and x.get('k') == 'mem' and x.get('arrow') and ap(x.get('b')) in paths]

        def is_rule_event(ev):
            t = ev['e']
            if any(ev is r[0] for r in rels):
                return True
            if t.get('k') == 'call' and frees(t):
                return True
            if through(t):
                return True
            return t.get('k') == 'asg' and ap(t['l']) in (paths | bases)
        keys, R = relevance(f, is_rule_event)
        used = set()

        def on_event(ev, env, ctx):
            t = ev['e']
            for r in rels:
                if ev is r[0]:
                    e = apply_generic(ev, env, R).copy()
                    e.ts['stale'] = tuple(sorted(set(env.ts.get('stale', ())) | {(r[1], r[2], ev['loc'])}))
                    return [e]
            st = env.ts.get('stale', ())
            if not st:
                return None
            if ev.get('top', True):
                for pth in through(t):
                    for x in st:
                        if x[0] == pth and (ev['loc'], pth) not in used:
                            used.add((ev['loc'], pth))
                            run.oblige('R-REF-HOLD', False, '%s:released-reference-not-used' % name)
                            run.violation('R-REF-HOLD', name, ev['loc'], 'released-reference-used',
                                          '`%s` goes through the holder\'s session pointer after the reference it stood for was released (%s): when that was the last '
                                          'reference the session is freed memory here' % (short(t)[:60], x[2].rsplit('/', 1)[-1]), ctx.path())
            if t.get('k') == 'call':
                fr = frees(t)
                if fr:
                    e = apply_generic(ev, env, R).copy()
                    e.ts['stale'] = tuple(x for x in st if x[1] not in fr)
                    return [e]
            if t.get('k') == 'asg' and (ap(t['l']) in paths or ap(t['l']) in bases):
                e = apply_generic(ev, env, R).copy()
                e.ts['stale'] = tuple(x for x in st if x[0] != ap(t['l']) and x[1] != ap(t['l']))
                return [e]
            return None

        def on_exit(env, ctx):
            for pth, base, loc in env.ts.get('stale', ()):
                run.violation('R-REF-HOLD', name, loc, 'released-reference-left-in-holder',
                              'the session reference held by this object is released, but on a path to the end of the function the field keeps the old pointer and the object is '
                              'not freed: its destructor releases the session a second time', ctx.path())
            run.oblige('R-REF-HOLD', not env.ts.get('stale'), '%s:no-stale-reference-at-exit' % name)
        for r in rels:
            n += 1
            run.instance('R-REF-HOLD', '%s: releases the reference held by a holder (%s)' % (name, short(r[0]['e']['a'][0])))
        solve(f, Env(), on_event, on_exit, keys, R, key_fn=lambda e: tuple(x[0] for x in e.ts.get('stale', ())))
    run.require_count(n >= (3 if run.cfg == 'base' else 2) or run.fixture_mode, 'R-REF-HOLD(stale): fewer than 3 releases of holder references found')


def run_sess_evt(run, P, only=None):
    run.rule('R-SESS-EVT')
    DEL = P.const_named('COAP_EVENT_SERVER_SESSION_DEL')
    NEW = P.const_named('COAP_EVENT_SERVER_SESSION_NEW')
    CLIENT = P.const_named('COAP_SESSION_TYPE_CLIENT')
    MAKERS = ('coap_make_session',)
    for f in sorted(P.lib_funcs(), key=lambda f: f['name']):
        if only and f['name'] not in only:
            continue
        name = f['name']
        if name == 'coap_session_free':
            continue
        has = any(ev['e'].get('k') == 'call' and ev['e'].get('fn') == 'coap_session_free' for b, ev in P.events(f))
        hasnew = any(ev['e'].get('k') == 'call' and ev['e'].get('fn') == 'coap_handle_event_lkd' and len(ev['e']['a']) > 1 and const_int(ev['e']['a'][1]) == NEW for b, ev in P.events(f))
        if not has and not hasnew:
            continue

        def is_rule_event(ev):
            t = ev['e']
            if t.get('k') == 'call' and t.get('fn') in ('coap_session_free', 'coap_handle_event_lkd') + MAKERS:
                return True
            return False
        extra = set()
        for b, ev in P.events(f):
            t = ev['e']
            if t.get('k') == 'call' and t.get('fn') == 'coap_session_free':
                a = ap(t['a'][0])
                if a:
                    extra.add(a + '->type')
        keys, R = relevance(f, is_rule_event, extra)
        R = R | extra

        def on_event(ev, env, ctx):
            t = ev['e']
            if t.get('k') == 'call' and t.get('fn') == 'coap_handle_event_lkd' and len(t['a']) > 2:
                evn = const_int(t['a'][1])
                s = ap(t['a'][2])
                if s and evn in (DEL, NEW):
                    e = env.copy()
                    tag = 'del:' if evn == DEL else 'new:'
                    if evn == NEW:
                        run.instance('R-SESS-EVT', '%s: raises SERVER_SESSION_NEW for %s' % (name, short(t['a'][2])))
                        dup = env.ts.get('new:' + s)
                        run.oblige('R-SESS-EVT', not dup, '%s:new-once' % name)
                        if dup:
                            run.violation('R-SESS-EVT', name, ev['loc'], 'session-new-twice', 'SERVER_SESSION_NEW is raised twice for the same session on one path', ctx.path())
                    e.ts[tag + s] = 1
                    return [apply_generic(ev, e, R)]
                return None
            mk = None
            if t.get('k') == 'asg' and t.get('op') == '=':
                r = strip(t['r'])
                if isinstance(r, dict) and r.get('k') == 'call' and r.get('fn') in MAKERS:
                    mk = ap(t['l'])
            elif t.get('k') == 'decl':
                for d in t['d']:
                    r = strip(d.get('init'))
                    if isinstance(r, dict) and r.get('k') == 'call' and r.get('fn') in MAKERS:
                        mk = 'v%d' % d['id']
            if mk:
                e = apply_generic(ev, env, R).copy()
                e.ts['fresh:' + mk] = 1
                e.ts.pop('new:' + mk, None)
                e.ts.pop('del:' + mk, None)
                return [e]
            if t.get('k') == 'call' and t.get('fn') == 'coap_session_free':
                s = ap(t['a'][0])
                run.instance('R-SESS-EVT', '%s: coap_session_free(%s)' % (name, short(t['a'][0])))
                ok = False
                if s:
                    if env.ts.get('del:' + s):
                        ok = True
                    elif env.ts.get('fresh:' + s) and not env.ts.get('new:' + s):
                        ok = True
                    else:
                        iv = env.intf(s + '->type')
                        if iv[0] == iv[1] == CLIENT:
                            ok = True
                    if env.nullf(s) == 'Z':
                        ok = True
                run.oblige('R-SESS-EVT', ok, '%s:free-after-del' % name)
                if not ok:
                    run.violation('R-SESS-EVT', name, ev['loc'], 'free-without-session-del',
                                  'coap_session_free(%s) is reached without COAP_EVENT_SERVER_SESSION_DEL having been raised for it on this path '
                                  '(the application never learns that its server session is gone)' % short(t['a'][0]), ctx.path())
                e = env.copy()
                if s:
                    for tag in ('del:', 'new:', 'fresh:'):
                        e.ts.pop(tag + s, None)
                return [apply_generic(ev, e, R)]
            # the session variable is re-assigned (loop cursor): old tags no longer apply
            if t.get('k') == 'asg' and t.get('op') == '=':
                a = ap(t['l'])
                if a and any(k.endswith(':' + a) for k in env.ts):
                    e = apply_generic(ev, env, R).copy()
                    for tag in ('del:', 'new:', 'fresh:'):
                        e.ts.pop(tag + a, None)
                    return [e]
            return None
        ctx = solve(f, Env(), on_event, None, keys, R)
        run.stats['session_solver_steps'] += ctx.steps


# ---------------------------------------------------------------------------------------------------------------
GATED_FREE = 'coap_free_endpoint_lkd'     # frees only the sessions whose reference count is 0
TEARDOWN = 'coap_free_context_lkd'


def run_teardown(run, P):
    """R-TEARDOWN: coap_free_endpoint_lkd() frees a server session only when nothing references it (`ref == 0`, the
    assert is compiled out).  So in the context destructor every call that drains a collection of reference holders
    (computed: call closure contains a release of a holder's session field, see R-REF-HOLD) has to come before the
    first coap_free_endpoint_lkd() on every path -- a holder drained later leaves its session unfreed and without its
    SERVER_SESSION_DEL event."""
    run.rule('R-TEARDOWN')
    if not (P.has(TEARDOWN) and P.has(GATED_FREE)):
        if run.fixture_mode:
            return
        run.require(False, 'R-TEARDOWN anchors %s()/%s() not found' % (TEARDOWN, GATED_FREE))
    H, _ = holders(P)
    # (1) the gate exists: the endpoint destructor frees sessions under a `ref == 0` test
    g = P.func(GATED_FREE)
    gated = False
    for b in g['blocks']:
        c = (b.get('term') or {}).get('cond')
        if c is None:
            continue
        for n in walk(c):
            if isinstance(n, dict) and n.get('k') == 'bin' and n.get('op') in ('==', '!=') and const_int(n['r']) == 0:
                l = strip(n['l'])
                if isinstance(l, dict) and l.get('k') == 'mem' and l.get('f') == 'ref':
                    gated = True
    run.notes.append('R-TEARDOWN: %s() %s sessions on ref == 0' % (GATED_FREE, 'gates' if gated else 'does NOT gate'))
    if not gated:
        run.instance('R-TEARDOWN', 'no ref gate in %s(): ordering carries no obligation' % GATED_FREE)
        run.oblige('R-TEARDOWN', True, 'ungated')
        return
    # (2) releasers of holder fields and the call closure above them
    releasers = set()
    for f in P.funcs.values():
        for b, ev in P.events(f):
            t = ev['e']
            if t.get('k') == 'call' and t.get('fn') == REL and t.get('a'):
                a = strip(t['a'][0])
                if isinstance(a, dict) and a.get('k') == 'mem' and a.get('rec') in H and a.get('f') in H[a['rec']]:
                    releasers.add(f['name'])
    run.require(bool(releasers) or not H, 'R-TEARDOWN: holder types exist but no function releases a holder field')
    cg = P.callgraph()
    reach = set(releasers)
    changed = True
    while changed:
        changed = False
        for fn, cs in cg.items():
            if fn in (REL, 'coap_session_free', 'coap_session_release', GATED_FREE):
                continue      # tearing down one session (its own nodes) is not a drain of the context's holders
            if fn not in reach and any(c in reach for c in cs):
                reach.add(fn)
                changed = True
    f = P.func(TEARDOWN)
    n = [0, 0]

    def is_rule_event(ev):
        t = ev['e']
        return t.get('k') == 'call' and (t.get('fn') == GATED_FREE or (t.get('fn') in reach and t.get('fn') != GATED_FREE))
    keys, R = relevance(f, is_rule_event)

    def on_event(ev, env, ctx):
        t = ev['e']
        if t.get('k') != 'call':
            return None
        fn = t.get('fn')
        if fn == GATED_FREE:
            n[0] += 1
            e = env.copy()
            e.ts['ep'] = 1
            return [apply_generic(ev, e, R)]
        if fn in reach:
            n[1] += 1
            run.instance('R-TEARDOWN', '%s: holder drain %s()' % (TEARDOWN, fn))
            ok = not env.ts.get('ep')
            run.oblige('R-TEARDOWN', ok, 'drain-before-endpoints:%s' % fn)
            if not ok:
                run.violation('R-TEARDOWN', TEARDOWN, ev['loc'], 'drain-after-endpoint-free:%s' % fn,
                              '%s() releases session references held by %s only after %s() has run: sessions still referenced at that '
                              'point were skipped there (ref != 0), are never freed and never get SERVER_SESSION_DEL' %
                              (fn, '/'.join(sorted(H)), GATED_FREE), ctx.path())
        return None
    ctx = solve(f, Env({'ep': 0}), on_event, None, keys, R, key_fn=lambda e: e.ts.get('ep'))
    run.stats['teardown_solver_steps'] += ctx.steps
    run.require(n[0] > 0, 'R-TEARDOWN: %s() does not call %s()' % (TEARDOWN, GATED_FREE))
    run.require(n[1] >= 2, 'R-TEARDOWN: fewer than 2 holder drains found in %s()' % TEARDOWN)


# ---------------------------------------------------------------------------------------------------------------
MAKE = 'coap_make_session'
ADD_MACROS = ('SESSIONS_ADD',)
FREEING = ('coap_session_free', 'coap_session_release_lkd', 'coap_session_release')


def _makes(ev):
    t = ev['e']
    out = []
    if t.get('k') == 'asg' and t.get('op') == '=' and isinstance(strip(t['r']), dict) and strip(t['r']).get('fn') == MAKE and ap(t['l']):
        out.append(ap(t['l']))
    for d in t.get('d') or ():
        if isinstance(strip(d.get('init')), dict) and strip(d['init']).get('fn') == MAKE:
            out.append(d['n'])
    return out


def run_hashed(run, P):
    """R-SESS-HASHED: coap_session_free() unlinks the session from the table it belongs to (SESSIONS_DELETE on the endpoint's or the
    context's hash).  uthash's delete of an element that was never added treats its zeroed handle as the last element, frees the
    whole table and sets the head to NULL -- every other session of that endpoint is orphaned (never found again, never reclaimed,
    no SERVER_SESSION_DEL, leaked at context free).  So a session made in a function (coap_make_session) reaches
    coap_session_free() / coap_session_release*() only on paths that passed a SESSIONS_ADD of it -- error paths included."""
    run.rule('R-SESS-HASHED')
    n = 0
    for f in sorted(P.lib_funcs(), key=lambda f: f['name']):
        made = set()
        for b, ev in P.events(f):
            t = ev['e']
            made.update(_makes(ev))
        if not made:
            continue
        name = f['name']
        frees = [ev for b, ev in P.events(f) if ev['e'].get('k') == 'call' and ev['e'].get('fn') in FREEING and ev['e'].get('a') and ap(ev['e']['a'][0]) in made]
        if not frees:
            continue
        n += len(frees)

        def in_add(ev):
            return any(m in ADD_MACROS for m in (ev.get('mac') or ()))

        def is_rule_event(ev):
            t = ev['e']
            if any(ev is x for x in frees) or in_add(ev):
                return True
            return bool(_makes(ev))
        keys, R = relevance(f, is_rule_event, made)
        R = set(R) | made

        def on_event(ev, env, ctx):
            t = ev['e']
            if _makes(ev):
                e = apply_generic(ev, env, R).copy()
                e.ts['added'] = 0
                return [e]
            if in_add(ev) and not env.ts.get('added'):
                e = apply_generic(ev, env, R).copy()
                e.ts['added'] = 1
                return [e]
            for x in frees:
                if ev is x:
                    v = ap(t['a'][0])
                    if env.nullf(v) == 'Z':
                        return None
                    ok = env.ts.get('added') == 1
                    run.instance('R-SESS-HASHED', '%s: %s(%s)' % (name, t['fn'], short(t['a'][0])))
                    run.oblige('R-SESS-HASHED', ok, '%s:hashed-before-free' % name)
                    if not ok:
                        run.violation('R-SESS-HASHED', name, ev['loc'], 'free-of-unhashed-session',
                                      '%s() is reached for the session made in this function on a path that never added it to a session table: the SESSIONS_DELETE inside '
                                      'coap_session_free() then empties the whole table of the endpoint / context and orphans every other session' % t['fn'], ctx.path())
            return None
        solve(f, Env({'added': 0}), on_event, None, keys, R, key_fn=lambda e: (e.ts.get('added'), tuple(e.nullf(v) for v in sorted(made))))
    run.require_count(n >= (2 if getattr(run, 'cfg', 'base') == 'base' else 0) or run.fixture_mode, 'R-SESS-HASHED: fewer than 2 releases of sessions made in the same function found')


def run_touch(run, P):
    """R-SESS-EVT (idle accounting): the function that maps a received datagram to its session (returns a coap_session_t* and refreshes
    last_rx_tx somewhere) refreshes it on every path that returns a session it FOUND BY ITS HASH LOOK-UP (the path every datagram after a
    peer's first one takes; the connection-id path, which re-files a session under a new address, is taken once per address change and is
    not judged): idle reclamation and the choice of the oldest idle session
    measure from that field, so a session that is found without being touched ages while its peer keeps sending -- it is reclaimed in the
    middle of a stream (second NEW event, a second session for the same peer) or evicted instead of a really idle one."""
    run.rule('R-SESS-EVT')
    FIELD = 'last_rx_tx'
    n = 0
    for f in sorted(P.lib_funcs(), key=lambda f: f['name']):
        if f['ret'].get('prec') != 'coap_session_t' and 'coap_session_t' not in (f['ret'].get('t') or ''):
            continue
        touches = []
        for b, ev in P.events(f):
            t = ev['e']
            if t.get('k') == 'asg' and t.get('op') == '=':
                l = strip(t['l'])
                if isinstance(l, dict) and l.get('k') == 'mem' and l.get('f') == FIELD and ap(l.get('b')):
                    touches.append((ev, ap(l['b'])))
        if not touches:
            continue
        svars = set(t[1] for t in touches)
        rets = [ev for b, ev in P.events(f) if ev['e'].get('k') == 'ret' and ev['e'].get('e') is not None and ap(strip(ev['e']['e'])) in svars]
        if not rets:
            continue
        name = f['name']
        n += 1
        run.instance('R-SESS-EVT', '%s: every returned session had %s refreshed' % (name, FIELD))

        def is_rule_event(ev):
            t = ev['e']
            return any(ev is x[0] for x in touches) or any(ev is r for r in rets) or (t.get('k') == 'asg' and ap(t['l']) in svars)
        keys, R = relevance(f, is_rule_event, svars)
        R = set(R) | svars

        def on_event(ev, env, ctx):
            t = ev['e']
            for tev, v in touches:
                if ev is tev:
                    e = apply_generic(ev, env, R).copy()
                    e.ts['t:' + v] = 1
                    return [e]
            if t.get('k') == 'asg' and ap(t['l']) in svars:
                e = apply_generic(ev, env, R).copy()
                e.ts['t:' + ap(t['l'])] = 0
                # where the candidate comes from: the hash look-up (the path every datagram after a peer's first takes) or something else
                e.ts['o:' + ap(t['l'])] = 'find' if any('FIND' in m for m in (ev.get('mac') or ())) else 'other'
                return [e]
            if any(ev is r for r in rets):
                v = ap(strip(t['e']))
                if env.nullf(v) == 'Z' or env.ts.get('o:' + v) != 'find':
                    return None
                ok = bool(env.ts.get('t:' + v))
                run.oblige('R-SESS-EVT', ok, '%s:returned-session-touched' % name)
                if not ok:
                    run.violation('R-SESS-EVT', name, ev['loc'], 'session-returned-untouched',
                                  'a session is returned for a received datagram on a path that did not refresh its %s: it keeps ageing while its peer is sending and is '
                                  'reclaimed or evicted as idle' % FIELD, ctx.path())
            return None
        solve(f, Env(), on_event, None, keys, R, key_fn=lambda e: (tuple(sorted((k, v) for k, v in e.ts.items() if k[:2] in ('t:', 'o:'))), tuple(e.nullf(v) for v in sorted(svars))))
    run.require_count(n >= 1 or run.fixture_mode or run.cfg != 'base', 'R-SESS-EVT(idle accounting): no function that returns a session and refreshes last_rx_tx found')


def run_key_zero(run, P):
    """R-SESS-KEY: sessions are filed and found by the BYTES of a record (uthash hashes and memcmp()s sizeof(key) bytes of
    coap_addr_hash_t, padding and the unused tail of the address union included).  Two keys built from the same peer address are equal as
    bytes only if every byte the field assignments do not reach is the same in both, i.e. the whole record is zeroed before its fields are
    set.  Decided structurally: the key records are taken from the code (the record whose address initialises uthash's byte cursor
    `_hj_key`); every function that assigns fields of such a record through a pointer parameter or in a local has a
    memset(object, 0, sizeof(record)) that dominates those assignments, and every local key record that is hashed is initialised by such a
    memset or by being handed to such a function.  Without it the look-up key carries stack garbage: an existing peer is not found, a
    second session is made for it (second NEW event), and the old one lingers until it idles out."""
    from core.prog import dominators
    run.rule('R-SESS-KEY')
    keyrecs = {}
    for f in P.lib_funcs():
        for b, ev in P.events(f):
            t = ev['e']
            if t.get('k') != 'decl':
                continue
            for d in t['d']:
                if d.get('n') == '_hj_key' and d.get('init'):
                    e = strip(d['init'])
                    if isinstance(e, dict) and e.get('k') == 'un' and e.get('op') == '&' and e.get('prec') in P.records and len(P.records[e['prec']]) > 1:
                        keyrecs.setdefault(e['prec'], set()).add(f['name'])
    run.require(keyrecs or run.fixture_mode, 'R-SESS-KEY: no record is hashed by its bytes any more (uthash _hj_key initialised from &record)')
    sizes = {}
    for f in P.lib_funcs():
        for b, ev in P.events(f):
            t = ev['e']
            if t.get('k') == 'call' and t.get('fn') == 'memcmp' and 'HASH_KEYCMP' in (ev.get('mac') or ()) and len(t['a']) == 3:
                for a in t['a'][:2]:
                    e = strip(a)
                    if isinstance(e, dict) and e.get('k') == 'un' and e.get('op') == '&' and e.get('prec') in keyrecs and const_int(t['a'][2]) is not None:
                        sizes[e['prec']] = const_int(t['a'][2])

    def zeroes(t, rec):
        """object zeroed by this call, as an access path of the POINTER / '&x' for a local"""
        if t.get('k') != 'call' or t.get('fn') != 'memset' or len(t.get('a') or ()) != 3:
            return None
        if const_int(t['a'][1]) != 0 or const_int(t['a'][2]) is None or const_int(t['a'][2]) < sizes.get(rec, 1):
            return None
        e = strip(t['a'][0])
        if isinstance(e, dict) and e.get('prec') == rec:
            if e.get('k') == 'un' and e.get('op') == '&':
                return '&' + (ap(e['e']) or '?')
            return ap(e)
        return None

    zeroing = {}          # (function, parameter index) -> zeroes the record before writing it
    nw = nl = 0
    for rec in sorted(keyrecs):
        for f in sorted(P.lib_funcs(), key=lambda f: f['name']):
            writes = collections.defaultdict(list)
            for b, ev in P.events(f):
                t = ev['e']
                if t.get('k') == 'asg' and ev.get('top', True):
                    l = strip(t['l'])
                    if isinstance(l, dict) and l.get('k') == 'mem' and l.get('rec') == rec:
                        base = strip(l['b'])
                        if l.get('arrow') and isinstance(base, dict) and base.get('k') == 'var':
                            writes[ap(base)].append((b, ev))
                        elif not l.get('arrow') and isinstance(base, dict) and base.get('k') == 'var' and not base.get('g'):
                            writes['&' + ap(base)].append((b, ev))
            if not writes:
                continue
            dom = dominators(f)
            for obj, ws in sorted(writes.items()):
                zs = [(b, ev) for b, ev in P.events(f) if ev.get('top', True) and zeroes(ev['e'], rec) == obj]
                bad = None
                for (wb, wev) in ws:
                    ok = False
                    for (zb, zev) in zs:
                        if zb['id'] == wb['id']:
                            el = wb['elems']
                            ok = ok or [i for i, x in enumerate(el) if x is zev][0] < [i for i, x in enumerate(el) if x is wev][0]
                        else:
                            ok = ok or zb['id'] in dom.get(wb['id'], ())
                    if not ok:
                        bad = bad or wev
                nw += 1
                oname = ([p['n'] for p in f.get('params') or () if 'v%s' % p['id'] == obj] + [short(ws[0][1]['e']['l']).split('->')[0].split('.')[0]])[0]
                run.instance('R-SESS-KEY', '%s: fields of %s %s assigned only after the whole record was zeroed' % (f['name'], rec, oname))
                run.oblige('R-SESS-KEY', bad is None, '%s:%s:zero-before-fields' % (f['name'], oname))
                if bad is not None:
                    run.violation('R-SESS-KEY', f['name'], bad['loc'], 'key-record-fields-set-without-zeroing:%s' % rec,
                                  '%s is hashed and compared by its bytes (%d of them), but %s() assigns its fields (%s) without a memset(%s, 0, sizeof) before: padding and the '
                                  'unused tail of the address keep whatever was there, equal peers give unequal keys, the session of a known peer is not found and a '
                                  'second one is made' % (rec, sizes.get(rec, 0), f['name'], short(bad['e'])[:50], oname), [])
                else:
                    for i, p in enumerate(f.get('params') or ()):
                        if 'v%s' % p['id'] == obj:
                            zeroing[(f['name'], i)] = rec
    for rec in sorted(keyrecs):
        for fn in sorted(keyrecs[rec]):
            f = P.funcs[fn]
            locs = set()
            for b, ev in P.events(f):
                t = ev['e']
                if t.get('k') == 'decl':
                    for d in t['d']:
                        if d.get('n') == '_hj_key' and d.get('init'):
                            e = strip(d['init'])
                            if isinstance(e, dict) and e.get('k') == 'un' and e.get('prec') == rec:
                                x = strip(e['e'])
                                if isinstance(x, dict) and x.get('k') == 'var' and x.get('pi') is None and not x.get('g'):
                                    locs.add((x['n'], ap(x)))
            for v, vk in sorted(locs):
                inits = []
                for b, ev in P.events(f):
                    t = ev['e']
                    if not ev.get('top', True) or t.get('k') != 'call':
                        continue
                    if zeroes(t, rec) == '&' + vk:
                        inits.append('memset')
                    for i, a in enumerate(t.get('a') or ()):
                        e = strip(a)
                        if isinstance(e, dict) and e.get('k') == 'un' and e.get('op') == '&' and ap(e.get('e')) == vk and zeroing.get((t.get('fn'), i)) == rec:
                            inits.append(t['fn'])
                nl += 1
                run.instance('R-SESS-KEY', '%s: local look-up key %s (%s) is built by %s' % (fn, v, rec, ', '.join(sorted(set(inits))) or 'nothing that zeroes it'))
                run.oblige('R-SESS-KEY', bool(inits), '%s:%s:local-key-zeroed' % (fn, v))
                if not inits:
                    run.violation('R-SESS-KEY', fn, f['loc'], 'local-key-not-zeroed:%s' % v,
                                  'the local %s %s is hashed by its bytes but nothing in %s() zeroes it as a whole (no memset of it, no call that hands it to a function '
                                  'that zeroes the record first): its padding is stack garbage and the look-up misses sessions that exist' % (rec, v, fn), [])
    run.require_count((nw >= 1 and nl >= 1) or run.fixture_mode or run.cfg != 'base', 'R-SESS-KEY: expected at least one writer of a byte-hashed key record and one local look-up key (coap_make_addr_hash, coap_endpoint_get_session)')
