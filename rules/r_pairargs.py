"""R-PAIR-ARGS (C10, C02): the four string records (coap_bin_const_t, coap_binary_t, coap_string_t, coap_str_const_t) keep a length next to
the bytes it measures.  A call that is handed `X.length` is handed X's bytes: some other argument is (built from) `X.s`.  Where none is,
and an argument next to the length is a byte pointer that is something else (not a string literal, not the array `X.s` was assigned from
in this function), the callee pairs X's length with foreign bytes: a token copied from the encoded token area (which starts with the
RFC 8974 extension bytes) instead of the token, a comparison that reads the other buffer's bytes with this one's length.
Calls without any byte pointer next to the length (allocators, logging, size helpers) are not judged."""
import collections
from core.prog import strip, walk, ap, short
from core.prog import const_int as const_int_

STR = ('coap_bin_const_t', 'coap_binary_t', 'coap_string_t', 'coap_str_const_t')
BYTEPTR = ('uint8_t *', 'unsigned char *', 'char *', 'void *', 'coap_opt_t *')


def _is_byteptr(o):
    o0 = strip(o)
    if not isinstance(o0, dict) or o0.get('k') == 'str':
        return False
    t = ((o.get('t') if isinstance(o, dict) else None) or o0.get('t') or '').replace('const', '').replace(' ', '')
    return t in [x.replace(' ', '') for x in BYTEPTR] or o0.get('aet') in ('unsigned char', 'char')


def run(run, P, only=None):
    run.rule('R-PAIR-ARGS')
    n = 0
    for f in sorted(P.lib_funcs(), key=lambda f: f['name']):
        if only and f['name'] not in only:
            continue
        alias = collections.defaultdict(set)
        for b, ev in P.events(f):
            t = ev['e']
            if t.get('k') == 'asg' and t.get('op') == '=' and ap(t['l']) and ap(strip(t['r'])):
                alias[ap(t['l'])].add(ap(strip(t['r'])))
        seen = set()
        for b, ev in P.events(f):
            for t in walk(ev['e']):
                if not (isinstance(t, dict) and t.get('k') == 'call'):
                    continue
                A = t.get('a') or []
                for i, a in enumerate(A):
                    a0 = strip(a)
                    if not (isinstance(a0, dict) and a0.get('k') == 'mem' and a0.get('f') == 'length' and a0.get('rec') in STR and ap(a0.get('b'))):
                        continue
                    want = ap(a0['b']) + ('->' if a0.get('arrow') else '.') + 's'
                    others = [x for k, x in enumerate(A) if k != i]
                    if any(any(isinstance(x, dict) and ap(x) == want for x in walk(o)) for o in others):
                        k2 = (ev['loc'], short(t)[:60], i)
                        if k2 not in seen:
                            seen.add(k2)
                            n += 1
                            run.instance('R-PAIR-ARGS')
                            run.oblige('R-PAIR-ARGS', True, '%s:length-with-its-bytes' % f['name'])
                        continue
                    nb = [A[k] for k in (i - 1, i + 1) if 0 <= k < len(A) and _is_byteptr(A[k])]
                    if not nb:
                        continue
                    if any(ap(strip(o)) in alias.get(want, ()) for o in nb):
                        continue
                    k2 = (ev['loc'], short(t)[:60], i)
                    if k2 in seen:
                        continue
                    seen.add(k2)
                    n += 1
                    run.instance('R-PAIR-ARGS', '%s: %s' % (f['name'], short(t)[:70]))
                    run.oblige('R-PAIR-ARGS', False, '%s:length-with-its-bytes' % f['name'])
                    run.violation('R-PAIR-ARGS', f['name'], ev['loc'], 'length-with-foreign-bytes:%s' % (t.get('fn') or 'indirect'),
                                  '%s is given %s but not %s: the bytes next to it (%s) are something else, so the callee measures foreign bytes with this length' %
                                  (t.get('fn') or 'the callee', short(a0)[:50], short(a0)[:50].replace('length', 's'), short(nb[0])[:40]), [])
    run.require_count(n >= (100 if not only else 3) or run.fixture_mode or run.cfg != 'base', 'R-PAIR-ARGS: only %d calls that pass a string record\'s length found' % n)


def run_token_identity(run, P):
    """R-PAIR-ARGS (token identity): a message carries its token twice -- `actual_token` (the token) and the encoded form at `token` with
    `e_token_length` (RFC 8974 extension bytes in front, and counted).  Which exchange a message belongs to is decided on the token: a
    comparison that puts `->e_token_length` next to the `.length` of a string record, or memcmp()s a string record's bytes with the PDU's
    raw `token` pointer, is right for tokens of 0..12 bytes and never matches an extended one -- the observer that registered with a
    16-byte token is never found again: it cannot deregister, cannot be cancelled by a Reset, and a re-registration duplicates it."""
    run.rule('R-PAIR-ARGS')
    n = 0

    def is_strlen(x):
        x = strip(x)
        return isinstance(x, dict) and x.get('k') == 'mem' and x.get('f') == 'length' and x.get('rec') in STR

    def is_elen(x):
        x = strip(x)
        return isinstance(x, dict) and x.get('k') == 'mem' and x.get('f') == 'e_token_length'

    def is_strbytes(x):
        x = strip(x)
        return isinstance(x, dict) and x.get('k') == 'mem' and x.get('f') == 's' and x.get('rec') in STR

    def is_rawtoken(x):
        x = strip(x)
        return isinstance(x, dict) and x.get('k') == 'mem' and x.get('f') == 'token' and x.get('rec') == 'coap_pdu_t'
    seen = set()
    for f in sorted(P.lib_funcs(), key=lambda f: f['name']):
        nodes = []
        for b, ev in P.events(f):
            nodes.append((ev['loc'], ev['e']))
        for b in f['blocks']:
            c = (b.get('term') or {}).get('cond')
            if c is not None:
                nodes.append(((b['term'].get('loc') or f['loc']), c))
        for loc, t in nodes:
            for x in walk(t):
                if not isinstance(x, dict):
                    continue
                bad = None
                if x.get('k') == 'bin' and x.get('op') in ('==', '!='):
                    sides = (x['l'], x['r'])
                    if any(is_strlen(s_) for s_ in sides):
                        n += 1
                        if any(is_elen(s_) for s_ in sides):
                            bad = 'the length of a byte string is compared with e_token_length, the size of the ENCODED token'
                if x.get('k') == 'call' and x.get('fn') in ('memcmp', 'coap_binary_equal') and len(x.get('a') or ()) >= 2:
                    a0, a1 = x['a'][0], x['a'][1]
                    if x['fn'] == 'coap_binary_equal':
                        n += 1
                    if (is_strbytes(a0) and is_rawtoken(a1)) or (is_strbytes(a1) and is_rawtoken(a0)):
                        bad = 'a byte string is compared with the bytes at pdu->token, where the extension bytes of an extended token come first'
                if bad and (loc, short(x)) not in seen:
                    seen.add((loc, short(x)))
                    run.oblige('R-PAIR-ARGS', False, '%s:token-compared-as-token' % f['name'])
                    run.violation('R-PAIR-ARGS', f['name'], loc, 'encoded-token-compared-with-token',
                                  '`%s`: %s -- equal for tokens of up to 12 bytes, never for an RFC 8974 extended token: the look-up by token fails for exactly those '
                                  'exchanges' % (short(x)[:70], bad), [])
    # the empty token is a token: a function that decides identity with coap_binary_equal() on a token parameter has no condition on that
    # parameter's length alone (RFC 7252 5.3.1: a zero-length token is legal and is what many clients use for their only outstanding request)
    nt = 0
    for f in sorted(P.lib_funcs(), key=lambda f: f['name']):
        tps = set('v%s' % p['id'] for p in f.get('params') or () if p.get('prec') in STR)
        if not tps:
            continue
        deciders = set()
        conds = []
        # coap_binary_equal() is a macro: its expansion is recognised by the macro stack of the events / branch terms
        for b, ev in P.events(f):
            if any('coap_binary_equal' in m for m in (ev.get('mac') or ())):
                for x in walk(ev['e']):
                    if isinstance(x, dict) and x.get('k') == 'var' and ap(x) in tps:
                        deciders.add(ap(x))
            for x in walk(ev['e']):
                if isinstance(x, dict) and x.get('k') == 'call' and x.get('fn') == 'coap_binary_equal':
                    for a in x.get('a') or ():
                        if ap(strip(a)) in tps:
                            deciders.add(ap(strip(a)))
        for b in f['blocks']:
            c = (b.get('term') or {}).get('cond')
            if c is not None:
                if any('coap_binary_equal' in m for m in ((b.get('term') or {}).get('mac') or ())) or 'coap_binary_equal' in short(c):
                    for x in walk(c):
                        if isinstance(x, dict) and x.get('k') == 'var' and ap(x) in tps:
                            deciders.add(ap(x))
                else:
                    conds.append((b, c))
        if not deciders:
            continue
        nt += 1
        for b, c in conds:
            c0 = strip(c)
            neg = False
            while isinstance(c0, dict) and c0.get('k') == 'un' and c0.get('op') == '!':
                c0 = strip(c0['e'])
                neg = True
            tested = None
            if isinstance(c0, dict) and c0.get('k') == 'mem' and c0.get('f') == 'length' and ap(strip(c0.get('b'))) in deciders:
                tested = c0
            if isinstance(c0, dict) and c0.get('k') == 'bin' and c0.get('op') in ('==', '!=', '>', '<', '>=', '<='):
                for a_, b_ in ((c0['l'], c0['r']), (c0['r'], c0['l'])):
                    a0 = strip(a_)
                    if isinstance(a0, dict) and a0.get('k') == 'mem' and a0.get('f') == 'length' and ap(strip(a0.get('b'))) in deciders and const_int_(b_) is not None:
                        tested = a0
            run.oblige('R-PAIR-ARGS', tested is None, '%s:no-special-case-on-token-length' % f['name'])
            if tested is not None:
                run.violation('R-PAIR-ARGS', f['name'], (b['term'].get('loc') or f['loc']), 'special-case-on-token-length',
                              '%s() decides which exchange a token names with coap_binary_equal(), and additionally branches on `%s` alone: the zero-length token is a '
                              'legal token like any other -- an exchange that uses it is not found (not cancelled, not matched)' % (f['name'], short(c)[:50]), [])
    run.instance('R-PAIR-ARGS', 'token identity decided on actual_token: %d comparisons of string lengths / coap_binary_equal() calls looked at, %d functions that match by token parameter' % (n, nt))
    run.oblige('R-PAIR-ARGS', True, 'token-identity-sites')
    run.require_count(n >= 10 or run.fixture_mode or run.cfg != 'base', 'R-PAIR-ARGS(token identity): fewer than 10 string-length comparisons found')
