"""R-PAIR-ARGS (C10, C02): the four string records (coap_bin_const_t, coap_binary_t, coap_string_t, coap_str_const_t) keep a length next to
the bytes it measures.  A call that is handed `X.length` is handed X's bytes: some other argument is (built from) `X.s`.  Where none is,
and an argument next to the length is a byte pointer that is something else (not a string literal, not the array `X.s` was assigned from
in this function), the callee pairs X's length with foreign bytes: a token copied from the encoded token area (which starts with the
RFC 8974 extension bytes) instead of the token, a comparison that reads the other buffer's bytes with this one's length.
Calls without any byte pointer next to the length (allocators, logging, size helpers) are not judged."""
import collections
from core.prog import strip, walk, ap, short

STR = ('coap_bin_const_t', 'coap_binary_t', 'coap_string_t', 'coap_str_const_t')
BYTEPTR = ('uint8_t *', 'unsigned char *', 'char *', 'void *', 'coap_opt_t *')


def _is_byteptr(o):
    o0 = strip(o)
    if not isinstance(o0, dict) or o0.get('k') == 'str':
        return False
    t = ((o.get('t') if isinstance(o, dict) else None) or o0.get('t') or '').replace('const', '').replace(' ', '')
    return t in [x.replace(' ', '') for x in BYTEPTR] or o0.get('aet') in ('unsigned char', 'char')


def run(run, P, only=None):
    run.rule('R-PAIR-ARGS')
    n = 0
    for f in sorted(P.lib_funcs(), key=lambda f: f['name']):
        if only and f['name'] not in only:
            continue
        alias = collections.defaultdict(set)
        for b, ev in P.events(f):
            t = ev['e']
            if t.get('k') == 'asg' and t.get('op') == '=' and ap(t['l']) and ap(strip(t['r'])):
                alias[ap(t['l'])].add(ap(strip(t['r'])))
        seen = set()
        for b, ev in P.events(f):
            for t in walk(ev['e']):
                if not (isinstance(t, dict) and t.get('k') == 'call'):
                    continue
                A = t.get('a') or []
                for i, a in enumerate(A):
                    a0 = strip(a)
                    if not (isinstance(a0, dict) and a0.get('k') == 'mem' and a0.get('f') == 'length' and a0.get('rec') in STR and ap(a0.get('b'))):
                        continue
                    want = ap(a0['b']) + ('->' if a0.get('arrow') else '.') + 's'
                    others = [x for k, x in enumerate(A) if k != i]
                    if any(any(isinstance(x, dict) and ap(x) == want for x in walk(o)) for o in others):
                        k2 = (ev['loc'], short(t)[:60], i)
                        if k2 not in seen:
                            seen.add(k2)
                            n += 1
                            run.instance('R-PAIR-ARGS')
                            run.oblige('R-PAIR-ARGS', True, '%s:length-with-its-bytes' % f['name'])
                        continue
                    nb = [A[k] for k in (i - 1, i + 1) if 0 <= k < len(A) and _is_byteptr(A[k])]
                    if not nb:
                        continue
                    if any(ap(strip(o)) in alias.get(want, ()) for o in nb):
                        continue
                    k2 = (ev['loc'], short(t)[:60], i)
                    if k2 in seen:
                        continue
                    seen.add(k2)
                    n += 1
                    run.instance('R-PAIR-ARGS', '%s: %s' % (f['name'], short(t)[:70]))
                    run.oblige('R-PAIR-ARGS', False, '%s:length-with-its-bytes' % f['name'])
                    run.violation('R-PAIR-ARGS', f['name'], ev['loc'], 'length-with-foreign-bytes:%s' % (t.get('fn') or 'indirect'),
                                  '%s is given %s but not %s: the bytes next to it (%s) are something else, so the callee measures foreign bytes with this length' %
                                  (t.get('fn') or 'the callee', short(a0)[:50], short(a0)[:50].replace('length', 's'), short(nb[0])[:40]), [])
    run.require(n >= (100 if not only else 3) or run.fixture_mode or run.cfg != 'base', 'R-PAIR-ARGS: only %d calls that pass a string record\'s length found' % n)
