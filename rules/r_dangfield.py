"""R-DANGLING-FIELD (C02, C18): a field of an object that outlives the call is not left pointing at memory the call released.

  destructors : the computed set of R-USE-AFTER-DESTROY ((g, i): g frees its parameter i on every path on which it is not NULL).
  rule        : after D(X->f) -- X a parameter, a local or a path below one -- every path to a return assigns X->f again (NULL or a new
                object), or assigns / releases an object on the path from X to the field (the holder itself goes away), or hands &X->f
                to a callee.  Otherwise the next user of the object (the next block of the transfer, the session's teardown) frees or
                reads the released block again.
The ETag-mismatch arm of coap_handle_response_get_block() frees lg_crcv->body_data in the middle of a transfer that continues: without
the `= NULL` behind it the next Block2 response frees it a second time -- a double free driven by the peer."""
import collections
from core.prog import strip, walk, ap, short
from core.psts import Env, solve, relevance, apply_generic
from rules.r_uaf import destructors

# functions whose whole job is to release what hangs off an object that their (only) callers release right afterwards
def _prefixes(a):
    out = []
    cur = a
    while True:
        i = max(cur.rfind('->'), cur.rfind('.'), cur.rfind('['))
        if i <= 0:
            break
        cur = cur[:i]
        out.append(cur)
    return out


def _local_record(node):
    """is the outermost holder of this field access a record-typed local variable (not a pointer)?"""
    x = node
    while isinstance(x, dict) and x.get('k') == 'mem' and not x.get('arrow'):
        x = strip(x.get('b'))
    return isinstance(x, dict) and x.get('k') == 'var' and not x.get('g') and x.get('pi') is None and not x.get('p')


def teardown_helpers(P, D):
    """(f, i): every call site of f in the library sits in a function that also hands the object it passes as argument i to a destructor
    (or to another such helper, same argument): what f leaves dangling below that parameter goes away with the object."""
    callers = collections.defaultdict(list)
    for g in P.lib_funcs():
        for b, ev in P.events(g):
            t = ev['e']
            if t.get('k') == 'call' and t.get('fn') and ev.get('top', True):
                callers[t['fn']].append((g, t))
    helpers = set()
    changed = True
    while changed:
        changed = False
        for f in P.lib_funcs():
            if not callers.get(f['name']):
                continue
            for i, p in enumerate(f.get('params') or ()):
                if (f['name'], i) in helpers or not p.get('p'):
                    continue
                ok = True
                for g, t in callers[f['name']]:
                    a = (t.get('a') or [None] * (i + 1))[i] if len(t.get('a') or ()) > i else None
                    obj = ap(strip(a)) if isinstance(strip(a), dict) else None
                    freed = False
                    if obj:
                        for b, ev in P.events(g):
                            t2 = ev['e']
                            if t2.get('k') == 'call' and t2 is not t:
                                for j2, a2 in enumerate(t2.get('a') or ()):
                                    if isinstance(strip(a2), dict) and ap(strip(a2)) == obj and ((t2.get('fn'), j2) in D or (t2.get('fn'), j2) in helpers):
                                        freed = True
                    if not freed:
                        ok = False
                if ok:
                    helpers.add((f['name'], i))
                    changed = True
    return helpers


def run(run, P, only=None, report=True):
    run.rule('R-DANGLING-FIELD')
    D = destructors(P)
    n = 0
    found = []
    helpers = teardown_helpers(P, D)
    for f in sorted(P.lib_funcs(), key=lambda f: f['name']):
        if only and f['name'] not in only:
            continue
        sites = []
        for b, ev in P.events(f):
            t = ev['e']
            if t.get('k') == 'call' and ev.get('top', True):
                for i, a in enumerate(t.get('a') or ()):
                    p = ap(strip(a)) if isinstance(strip(a), dict) else None
                    if p and (t.get('fn'), i) in D and ('->' in p or '.' in p) and strip(a).get('k') == 'mem':
                        sites.append((ev, p, strip(a)))
        # declined: slots of counted arrays (`list[j].pdu`: the slot is dead once the count was lowered / the tail moved down, which this rule does
        # not model) and fields of a record that is itself a local variable of the function (it ends with the call)
        sites = [s for s in sites if '[' not in s[1] and not _local_record(s[2])]
        if not sites:
            continue
        name = f['name']
        hp = set('v%s' % p['id'] for i, p in enumerate(f.get('params') or ()) if (name, i) in helpers)
        for s_ in sites:
            if any(s_[1].startswith(o + '->') for o in hp):
                run.notes.append('R-DANGLING-FIELD: %s() is a teardown helper for that parameter (every caller releases the object it passes): %s not judged' % (name, short(s_[2])))
        sites = [s_ for s_ in sites if not any(s_[1].startswith(o + '->') for o in hp)]
        if not sites:
            continue
        # a destructor of the holder itself releases its fields on the way: the holder is gone afterwards
        own = set('v%s' % p['id'] for i, p in enumerate(f.get('params') or ()) if (name, i) in D)
        sites = [s for s in sites if not any(s[1].startswith(o + '->') or s[1].startswith(o + '.') for o in own)]
        if not sites:
            continue
        paths = set(s[1] for s in sites)
        bases = set(x for p in paths for x in _prefixes(p))

        def is_rule_event(ev):
            t = ev['e']
            if any(ev is s[0] for s in sites):
                return True
            if t.get('k') == 'asg' and ap(t['l']) and (ap(t['l']) in paths or ap(t['l']) in bases):
                return True
            if t.get('k') == 'call':
                for a in t.get('a') or ():
                    for x in walk(a):
                        if isinstance(x, dict) and ap(x) and (ap(x) in bases or ap(x) in paths):
                            return True
            return False
        keys, R = relevance(f, is_rule_event, paths | bases)
        R = set(R) | paths | bases
        rep = set()

        def pend(env):
            return env.ts.get('pend', frozenset())

        def on_event(ev, env, ctx):
            t = ev['e']
            k = t.get('k')
            for sev, p, node in sites:
                if ev is sev:
                    if env.nullf(p) == 'Z':
                        return None
                    e = apply_generic(ev, env, R).copy()
                    e.ts['pend'] = pend(env) | {(p, ev['loc'], short(node))}
                    return [e]
            if not pend(env):
                return None
            gone = set()
            if k == 'asg' and ap(t['l']):
                l = ap(t['l'])
                for it in pend(env):
                    if it[0] == l or l in _prefixes(it[0]):
                        gone.add(it)
            if k == 'call' and ev.get('top', True):
                for a in t.get('a') or ():
                    a0 = strip(a)
                    for it in pend(env):
                        # the holder (or something between it and the field) is handed to a callee that may release / reset it; or &field is handed on
                        if isinstance(a0, dict) and ap(a0) and ap(a0) in _prefixes(it[0]):
                            gone.add(it)
                        if isinstance(a0, dict) and a0.get('k') == 'un' and a0.get('op') == '&' and ap(a0.get('e')) and (ap(a0['e']) == it[0] or ap(a0['e']) in _prefixes(it[0])):
                            gone.add(it)
            if gone:
                e = apply_generic(ev, env, R).copy()
                e.ts['pend'] = pend(env) - gone
                return [e]
            return None

        def on_exit(env, ctx):
            for (p, loc, txt) in pend(env):
                run.oblige('R-DANGLING-FIELD', False, '%s:%s:reassigned-after-release' % (name, txt))
                if (loc, txt) not in rep:
                    rep.add((loc, txt))
                    found.append((name, loc, txt))
                    if report:
                        run.violation('R-DANGLING-FIELD', name, loc, 'field-left-dangling:%s' % txt.replace(' ', ''),
                                      '%s is released here and the function returns on a path that neither assigns the field again nor disposes of the object holding it: '
                                      'the object lives on with a pointer to freed memory, which its next user frees or reads again' % txt, ctx.path())
        for sev, p, node in sites:
            n += 1
            run.instance('R-DANGLING-FIELD', '%s: %s is assigned again (or its holder released) on every path after %s()' % (name, short(node), sev['e'].get('fn')))
        run.oblige('R-DANGLING-FIELD', True, '%s:sites' % name)
        solve(f, Env(), on_event, on_exit, keys, R, key_fn=lambda e: e.ts.get('pend'), max_envs=256)
    run.require_count(n >= 20 or run.fixture_mode or run.cfg != 'base' or only, 'R-DANGLING-FIELD: fewer than 20 releases of a record field found')
    return found
