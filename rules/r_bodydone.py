"""R-BODY-COMPLETE (C09, C10): the server-side reassembly of a block-wise request body.  A block whose More bit is set says that further
blocks follow.  The body is handed to the application from such a block (assignment of the request PDU's body_data / body_length from
the reassembly record) only on paths that KNOW the final block (More bit clear) was seen earlier -- the record's no_more_seen flag tested
set -- because only then "every block up to the highest seen is in" means "the body is complete".  Without a Size1 option the total
length is just what has arrived so far, so a completeness test against it is trivially true after every in-order block: the first
block of an upload would be delivered as the whole body (and answered twice).

Computed, not listed: the reassembly records are those with the fields no_more_seen and body_data; the functions are those that assign
`P->body_data` of a coap_pdu_t from such a record and test a block descriptor's `.m`.  Not decided: that the completeness arithmetic itself is right."""
from core.prog import strip, walk, ap, short, const_int
from core.psts import Env, solve, relevance, apply_generic

FLAG = 'no_more_seen'
DELIVER_FIELDS = ('body_data',)


def run(run, P):
    run.rule('R-BODY-COMPLETE')
    n = 0
    # reassembly records that have the flag: only their deliveries are judged (the client-side record has no such flag; it makes an
    # unknown total exceed what has arrived while the More bit is set, which is arithmetic this rule does not look at)
    flagrecs = set(r for r, fl in P.records.items() if any(x['n'] == FLAG for x in fl) and any(x['n'] == 'body_data' for x in fl))
    run.require(bool(flagrecs) or run.fixture_mode or run.cfg != 'base', 'R-BODY-COMPLETE: no reassembly record with the fields %s and body_data found' % FLAG)
    for f in sorted(P.lib_funcs(), key=lambda f: f['name']):
        delivers = []
        for b, ev in P.events(f):
            t = ev['e']
            if t.get('k') == 'asg' and t.get('op') == '=':
                l = strip(t['l'])
                if isinstance(l, dict) and l.get('k') == 'mem' and l.get('f') in DELIVER_FIELDS and l.get('rec') == 'coap_pdu_t' and \
                        any(isinstance(x, dict) and x.get('k') == 'mem' and x.get('f') == 'body_data' and x.get('rec') in flagrecs for x in walk(t['r'])):
                    delivers.append(ev)
        if not delivers:
            continue
        # block descriptors: locals of a record type with a field m that is tested
        mvars = set()
        for b in f['blocks']:
            c = (b.get('term') or {}).get('cond')
            if c is None:
                continue
            for x in walk(c):
                if isinstance(x, dict) and x.get('k') == 'mem' and x.get('f') == 'm' and not x.get('arrow') and ap(x):
                    mvars.add(ap(x))
        hasflag = any(isinstance(x, dict) and x.get('k') == 'mem' and x.get('f') == FLAG for b in f['blocks'] for x in walk((b.get('term') or {}).get('cond') or {}))
        if not mvars:
            continue
        name = f['name']
        qopt = None
        try:
            qopt = P.const_named('COAP_OPTION_Q_BLOCK1')
        except Exception:
            pass

        def is_rule_event(ev):
            return any(ev is d for d in delivers)
        keys, R = relevance(f, is_rule_event, mvars)
        R = set(R) | mvars
        keys = set(keys)
        optvars = set()
        for b in f['blocks']:
            c = (b.get('term') or {}).get('cond')
            if c is None:
                continue
            if any(isinstance(x, dict) and ((x.get('k') == 'mem' and x.get('f') in (FLAG, 'm')) or (x.get('k') == 'var' and x.get('n') == 'block_option')) for x in walk(c)):
                keys.add(b['id'])
            for x in walk(c):
                if isinstance(x, dict) and x.get('k') == 'var' and x.get('n') == 'block_option' and ap(x):
                    optvars.add(ap(x))
        R |= optvars

        def on_branch(b, s, env, ctx):
            c = strip((b.get('term') or {}).get('cond'))
            if c is None or len(b['succ']) != 2:
                return env
            truth = s == b['succ'][0]
            while isinstance(c, dict) and c.get('k') == 'un' and c.get('op') == '!':
                c = strip(c['e'])
                truth = not truth
            if isinstance(c, dict) and c.get('k') == 'mem' and c.get('f') == FLAG and truth:
                e = env.copy()
                e.ts['last_seen'] = 1
                return e
            return env

        def on_event(ev, env, ctx):
            if any(ev is d for d in delivers):
                more = None
                for mv in sorted(mvars):
                    lo, hi, ex = env.intf(mv)
                    if lo > 0 or hi < 0 or 0 in ex:
                        more = mv
                if more is None:
                    run.oblige('R-BODY-COMPLETE', True, '%s:deliver' % name)
                    return None
                variant = 'block1'
                for ov in optvars:
                    lo, hi, ex = env.intf(ov)
                    if qopt is not None and lo == hi == qopt:
                        variant = 'q-block1'
                    elif qopt is not None and not (qopt < lo or qopt > hi or qopt in ex):
                        variant = 'block1'      # the option is not known to be Q-Block1 on this path
                ok = bool(env.ts.get('last_seen'))
                run.oblige('R-BODY-COMPLETE', ok, '%s:deliver-with-more-bit:%s' % (name, variant))
                if not ok:
                    run.violation('R-BODY-COMPLETE', name, ev['loc'], 'body-delivered-from-more-block-without-last-seen:%s' % variant,
                                  'the reassembled body is handed to the application on a path on which the current block has its More bit set and the record\'s %s flag was '
                                  'never found set: without a Size1 option "all blocks up to the highest seen are in" is true after every in-order block, so the first block of '
                                  'an upload is delivered as the whole body (%s)' % (FLAG, variant), ctx.path())
            return None
        n += 1
        run.instance('R-BODY-COMPLETE', '%s: %d delivery statement(s), More bit in %d descriptor(s)%s' % (name, len(delivers), len(mvars), '' if hasflag else ' (no %s test at all)' % FLAG))
        solve(f, Env(), on_event, None, keys, R, key_fn=lambda e: (e.ts.get('last_seen'), tuple(e.intf(m)[:2] for m in sorted(mvars)), tuple(e.intf(o)[:2] for o in sorted(optvars))), on_branch=on_branch)
    run.require_count(n >= 1 or run.fixture_mode or run.cfg != 'base', 'R-BODY-COMPLETE: no function that hands a reassembled body to the application found')


def run_token_restore(run, P):
    """R-BODY-COMPLETE (application token): while a large transfer runs, the client's requests for further blocks carry tokens the library
    made up; the transfer record (lg_crcv) remembers the application's own token.  When a response handler expires that record and hands the
    response to the application (`coap_block_delete_lg_crcv()` followed by `return 0` = "call the application handler"), the path has put
    the application's token back into the RECEIVED PDU -- coap_update_token(rcvd, ..) -- or has compared rcvd's token with the record's
    app_token (and found nothing to do).  Otherwise the application's response handler sees a token it never chose."""
    run.rule('R-BODY-COMPLETE')
    n = 0
    for f in sorted(P.lib_funcs(), key=lambda f: f['name']):
        rc = [p for p in f['params'] if p.get('p') and not p.get('pc') and p.get('prec') == 'coap_pdu_t' and p.get('n') == 'rcvd']
        if not rc:
            continue
        rv = 'v%d' % rc[0]['id']
        expires = [ev for b, ev in P.events(f) if ev['e'].get('k') == 'call' and ev['e'].get('fn') == 'coap_block_delete_lg_crcv']
        rets0 = [ev for b, ev in P.events(f) if ev['e'].get('k') == 'ret' and ev['e'].get('e') is not None and const_int(ev['e']['e']) == 0]
        if not expires or not rets0:
            continue
        name = f['name']
        n += 1
        run.instance('R-BODY-COMPLETE', '%s: the application token is back in rcvd when the record is expired and the response handed up' % name)

        def restores(t):
            return t.get('k') == 'call' and t.get('fn') == 'coap_update_token' and t.get('a') and ap(t['a'][0]) == rv

        def compares(c):
            tok = any(isinstance(x, dict) and x.get('k') == 'mem' and x.get('f') == 'actual_token' and ap(x.get('b')) == rv for x in walk(c))
            app = any(isinstance(x, dict) and x.get('k') == 'mem' and x.get('f') == 'app_token' for x in walk(c))
            return tok and app

        def is_rule_event(ev):
            return restores(ev['e']) or any(ev is x for x in expires) or any(ev is r for r in rets0)
        keys, R = relevance(f, is_rule_event)
        keys = set(keys)
        for b in f['blocks']:
            c = (b.get('term') or {}).get('cond')
            if c is not None and compares(c):
                keys.add(b['id'])

        def on_branch(b, s, env, ctx):
            c = (b.get('term') or {}).get('cond')
            if c is not None and compares(c) and not env.ts.get('tok'):
                e = env.copy()
                e.ts['tok'] = 1
                return e
            return env

        def on_event(ev, env, ctx):
            t = ev['e']
            if restores(t) and not env.ts.get('tok'):
                e = apply_generic(ev, env, R).copy()
                e.ts['tok'] = 1
                return [e]
            if any(ev is x for x in expires):
                e = apply_generic(ev, env, R).copy()
                e.ts['expired'] = ev['loc']
                return [e]
            if any(ev is r for r in rets0) and env.ts.get('expired'):
                ok = bool(env.ts.get('tok'))
                run.oblige('R-BODY-COMPLETE', ok, '%s:token-restored-before-handing-up' % name)
                if not ok:
                    run.violation('R-BODY-COMPLETE', name, env.ts['expired'], 'record-expired-without-restoring-token',
                                  'the transfer record is expired and the response is handed to the application (return 0) on a path that neither put the application\'s token '
                                  'back into the received PDU nor compared the two tokens: the response handler sees the token the library made up for a later block', ctx.path())
            return None
        solve(f, Env(), on_event, None, keys, R, key_fn=lambda e: (e.ts.get('tok'), bool(e.ts.get('expired'))), on_branch=on_branch)
    run.require_count(n >= 1 or run.fixture_mode or run.cfg != 'base', 'R-BODY-COMPLETE(application token): no response handler that expires a transfer record found')


def run_crcv_complement(run, P, creator='coap_block_new_lg_crcv'):
    """R-BODY-COMPLETE (a receive record exists when the body starts): the client-side record that re-assembles a block-wise response
    (lg_crcv) is made either when the request is sent -- if a predicate over the request says it will be needed -- or, as an economy,
    later: when the request is acknowledged by an Empty ACK, i.e. the response will come separately and `sent` is about to be forgotten.
    The two sites split the requests between them with ONE predicate, so they test it with opposite polarity: computed are the library
    functions that call the creator under a condition that calls a predicate function (an int function of the library that takes the
    session); for each predicate that guards creator calls in two functions, both polarities occur.  With the same polarity at both
    sites the requests for which the predicate is false get no record at all: a separate block-wise response finds neither `sent` nor a
    record, is acknowledged and dropped -- the application gets no body, no error and no NACK."""
    from core.prog import transitive_control_deps
    run.rule('R-BODY-COMPLETE')
    uses = {}
    for f in sorted(P.lib_funcs(), key=lambda f: f['name']):
        B = f['B']
        for b in f['blocks']:
            for ev in b['elems']:
                found = [x for x in walk(ev['e']) if isinstance(x, dict) and x.get('k') == 'call' and x.get('fn') == creator]
                if not found or not ev.get('top', True):
                    continue
                for (c, idx) in transitive_control_deps(f, b['id']):
                    cond = strip((B[c].get('term') or {}).get('cond'))
                    pol = idx == 0
                    while isinstance(cond, dict) and cond.get('k') == 'un' and cond.get('op') == '!':
                        cond = strip(cond['e'])
                        pol = not pol
                    if isinstance(cond, dict) and cond.get('k') == 'call' and cond.get('fn') and P.has(cond['fn']) and cond['fn'] != creator and \
                       any(isinstance(strip(a), dict) and strip(a).get('prec') == 'coap_session_t' for a in cond.get('a') or ()):
                        uses.setdefault(cond['fn'], {}).setdefault(f['name'], set()).add((pol, ev['loc']))
    n = 0
    ncalls = {}
    for f in P.lib_funcs():
        for b in f['blocks']:
            nodes = [ev['e'] for ev in b['elems'] if ev.get('top', True)] + ([b['term']['cond']] if (b.get('term') or {}).get('cond') is not None else [])
            for t in nodes:
                for x in walk(t):
                    if isinstance(x, dict) and x.get('k') == 'call' and x.get('fn') in uses:
                        ncalls.setdefault(x['fn'], set()).add((f['name'], b['id'], short(x)))
    for pred, by_fn in sorted(uses.items()):
        if len(by_fn) < 2:
            continue
        # a predicate that exists for this decision: it is called nowhere but at the sites that guard the creation (general validity checks,
        # which hold at every site alike, are called all over the library)
        if len(set(fn for fn, _b, _s in ncalls.get(pred, ()))) != len(by_fn):
            continue
        n += 1
        pols = set(p for s_ in by_fn.values() for p, _l in s_)
        run.instance('R-BODY-COMPLETE', '%s() splits the creation of the receive record between %s with opposite polarity' % (pred, ' and '.join(sorted(by_fn))))
        ok = pols == {True, False}
        run.oblige('R-BODY-COMPLETE', ok, '%s:complementary-sites' % pred)
        if not ok:
            fn = sorted(by_fn)[-1]
            loc = sorted(by_fn[fn])[0][1]
            run.violation('R-BODY-COMPLETE', fn, loc, 'receive-record-sites-not-complementary:%s' % pred,
                          'every site that creates the receive record does so when %s() says %s: the requests for which it says %s get no record at send time and none when '
                          'the Empty ACK arrives -- their separate block-wise response is acknowledged and dropped' %
                          (pred, 'yes' if True in pols else 'no', 'no' if True in pols else 'yes'), [])
    run.require_count(n >= 1 or run.fixture_mode or run.cfg != 'base', 'R-BODY-COMPLETE(record exists): no predicate that guards %s() in two functions found' % creator)
