"""R-PARSE-GATE (C02, C03).

(1) coap_dispatch(.., X) is only reached on paths where every parser call on X that happened on the path
    (coap_pdu_parse, coap_pdu_parse_header, coap_pdu_parse_opt) is known to have returned non-zero, and at
    least one happened.
(2) reject arms of the decoder (frozen table of conditions, matched structurally on variable / field names and
    constants): every path that takes the rejecting direction of such a condition only reaches returns of 0.
    A condition of the table that no longer exists in its function is itself the violation (the malformed
    input is no longer recognised), provided the variables it speaks about still exist.
"""
from core.prog import strip, walk, ap, key, short, const_int
from core.psts import Env, solve, relevance, apply_generic, INF

PARSERS = {'coap_pdu_parse': 3, 'coap_pdu_parse_header': 0, 'coap_pdu_parse_opt': 0}
SWAP = {'<': '>', '<=': '>=', '>': '<', '>=': '<=', '==': '==', '!=': '!='}
NEG = {'==': '!=', '!=': '==', '<': '>=', '<=': '>', '>': '<=', '>=': '<'}

# function -> list of (id, lhs name, op, rhs name-or-int, meaning)
REJECT = {
    'coap_opt_parse': [
        ('delta15', 'delta', '==', 15, 'option delta nibble 15 is reserved (payload marker or error)'),
        ('length15', 'length', '==', 15, 'option length nibble 15 is reserved'),
        ('truncated', 'length', '<', 'length', 'declared option length exceeds the bytes that are left'),
    ],
    'coap_pdu_parse_header': [
        ('tkl15', 'e_token_length', '==', 15, 'token length nibble 15 is reserved'),
        ('token-too-long', 'e_token_length', '>', 'alloc_size', 'token longer than the buffer'),
    ],
    'coap_pdu_parse_opt': [
        ('token-exceeds-msg', 'e_token_length', '>', 'used_size', 'token longer than the message'),
        ('empty-not-empty', 'used_size', '!=', 0, 'Empty message (code 0.00) with content'),
        ('bad-option', 'optsize', '==', 0, 'malformed option'),
        ('marker-no-payload', 'length', '==', 0, 'payload marker without payload'),
    ],
    'next_option_safe': [
        ('optnum-overflow', '+', '>', 'MAXOPT', 'running option number above the 16-bit range'),
    ],
    'coap_pdu_parse': [
        ('zero-length', 'length', '==', 0, 'empty datagram'),
        ('runt', 'hdr_size', '>', 'length', 'datagram shorter than its header'),
    ],
}


def _name(x):
    x = strip(x)
    if not isinstance(x, dict):
        return None
    if x.get('k') == 'var':
        return x['n']
    if x.get('k') == 'mem':
        return x['f']
    if x.get('k') == 'un' and x.get('op') == '*':
        return _name(x['e'])
    if x.get('k') == 'bin' and x.get('op') == '+':
        return '+'
    return None


def _norm(cond):
    """(lhs name, op, rhs name|int) of a comparison / truthiness test, or None"""
    c = strip(cond)
    if not isinstance(c, dict):
        return None
    if c.get('k') == 'un' and c.get('op') == '!':
        n = _norm(c['e'])
        return None if n is None else (n[0], NEG[n[1]], n[2])
    if c.get('k') == 'bin' and c.get('op') in SWAP:
        l, r = strip(c['l']), strip(c['r'])
        # `A op K - B` is the sum test `A + B op K` written so that it cannot overflow
        if isinstance(r, dict) and r.get('k') == 'bin' and r.get('op') == '-' and const_int(r['l']) is not None and const_int(r) is None and _name(l) and _name(r['r']):
            return ('+', c['op'], const_int(r['l']))
        if isinstance(l, dict) and l.get('k') == 'bin' and l.get('op') == '-' and const_int(l['l']) is not None and const_int(l) is None and _name(r) and _name(l['r']):
            return ('+', SWAP[c['op']], const_int(l['l']))
        K = const_int(r)
        if K is not None and _name(l):
            return (_name(l), c['op'], K)
        K = const_int(l)
        if K is not None and _name(r):
            return (_name(r), SWAP[c['op']], K)
        if _name(l) and _name(r):
            return (_name(l), c['op'], _name(r))
        return None
    n = _name(c)
    if n:
        return (n, '!=', 0)
    return None


def _matches(norm, rec, truth, maxopt):
    """does taking the `truth` arm of a condition with normal form `norm` mean the reject condition rec holds?"""
    if norm is None:
        return False
    _id, lhs, op, rhs, _m = rec
    if rhs == 'MAXOPT':
        rhs_ok = isinstance(norm[2], int) and norm[2] >= 65534
    else:
        rhs_ok = norm[2] == rhs
    cands = [(norm[0], norm[1], norm[2])]
    if not isinstance(norm[2], int):
        cands.append((norm[2], SWAP[norm[1]], norm[0]))
    for (l, o, r) in cands:
        if rhs == 'MAXOPT':
            okr = isinstance(r, int) and r >= 65534
        else:
            okr = r == rhs
        if l != lhs or not okr:
            continue
        eff = o if truth else NEG[o]
        if eff == op:
            return True
    return False


def run_reject(run, P):
    run.rule('R-PARSE-GATE')
    for fname, recs in sorted(REJECT.items()):
        if not P.has(fname):
            if run.fixture_mode:
                continue
            run.require(False, 'anchor function %s() of R-PARSE-GATE not found' % fname)
        f = P.func(fname)
        names = set()
        for b, ev in P.events(f):
            for y in walk(ev['e']):
                n = _name(y) if isinstance(y, dict) and y.get('k') in ('var', 'mem') else None
                if n:
                    names.add(n)
        for b in f['blocks']:
            if b.get('term') and b['term'].get('cond') is not None:
                for y in walk(b['term']['cond']):
                    n = _name(y) if isinstance(y, dict) and y.get('k') in ('var', 'mem') else None
                    if n:
                        names.add(n)
        matched = set()
        retvars = set()
        for b, ev in P.events(f):
            t = ev['e']
            if t.get('k') == 'ret' and 'e' in t and ap(t['e']):
                retvars.add(ap(t['e']))

        def is_rule_event(ev):
            return ev['e'].get('k') == 'ret'
        keys, R = relevance(f, is_rule_event, retvars)
        R = R | retvars
        # every branch is relevant here: the reject conditions themselves must be interpreted
        keys = None

        NIBBLE = ('delta15', 'length15', 'tkl15')

        def lhs_is_nibble(cond, e):
            """the compared object holds a raw 4-bit field (its interval is inside [0,15]), not a decoded size of the same name"""
            c = strip(cond)
            cands = []
            if isinstance(c, dict) and c.get('k') == 'bin':
                cands = [c['l'], c['r']]
            elif isinstance(c, dict):
                cands = [c]
            for x in cands:
                a = ap(x)
                if a:
                    lo, hi, ex = e.intf(a)
                    if lo >= 0 and hi <= 15:
                        return True
            return False

        def on_branch(b, s, e, ctx):
            term = b.get('term') or {}
            cond = term.get('cond')
            if cond is None:
                return e
            if term.get('c') == 'SwitchStmt':
                lab = f['B'][s].get('label')
                n = _name(cond)
                if lab and lab.get('k') == 'case' and n:
                    norm = (n, '==', lab['lo'])
                    truth = True
                    term = dict(term)
                    term['loc'] = lab.get('loc') or term.get('loc')
                else:
                    return e
            else:
                norm = _norm(cond)
                truth = s == b['succ'][0]
            for rec in recs:
                if _matches(norm, rec, truth, None):
                    if rec[0] in NIBBLE and not lhs_is_nibble(cond, e):
                        continue
                    matched.add(rec[0])
                    e2 = e.copy()
                    e2.ts['rej'] = rec[0]
                    e2.ts['rejloc'] = term.get('loc')
                    return e2
            return e

        def on_event(ev, env, ctx):
            t = ev['e']
            if t.get('k') == 'ret' and env.ts.get('rej'):
                rid = env.ts['rej']
                rec = [r for r in recs if r[0] == rid][0]
                v = None
                if 'e' in t:
                    v = const_int(t['e'])
                    if v is None:
                        a = ap(t['e'])
                        if a:
                            iv = env.intf(a)
                            if iv[0] == iv[1]:
                                v = iv[0]
                ok = v == 0
                run.oblige('R-PARSE-GATE', ok, '%s:reject:%s' % (fname, rid))
                if not ok:
                    run.violation('R-PARSE-GATE', fname, env.ts.get('rejloc') or ev['loc'], 'reject-arm:%s' % rid,
                                  'a path on which "%s" was recognised (%s %s %s) reaches a return that is not 0 (%s): the malformed input is accepted'
                                  % (rec[4], rec[1], rec[2], rec[3], short(t)), ctx.path())
            return None

        def key_fn(e):
            return (e.ts.get('rej'),)
        ctx = solve(f, Env(), on_event, None, keys, None, key_fn=key_fn, on_branch=on_branch, max_envs=64)
        run.stats['parsegate_solver_steps'] += ctx.steps
        for rec in recs:
            run.instance('R-PARSE-GATE', '%s: reject arm "%s" (%s %s %s) %s' % (fname, rec[4], rec[1], rec[2], rec[3], 'present' if rec[0] in matched else 'MISSING'))
            if rec[0] not in matched:
                need = [rec[1]] + ([rec[3]] if isinstance(rec[3], str) and rec[3] != 'MAXOPT' else [])
                need = [n for n in need if n != '+']
                if all(n in names for n in need):
                    run.oblige('R-PARSE-GATE', False, '%s:present:%s' % (fname, rec[0]))
                    run.violation('R-PARSE-GATE', fname, f['loc'], 'missing-reject-arm:%s' % rec[0],
                                  '%s() no longer tests "%s" (%s %s %s): this malformed input is not recognised any more'
                                  % (fname, rec[4], rec[1], rec[2], rec[3]))
                else:
                    run.require(run.fixture_mode, 'R-PARSE-GATE: variables of reject condition %s/%s not found' % (fname, rec[0]))


def _is_nibble_expr(r):
    """x & 0x0f  or  (x & 0xf0) >> 4"""
    r = strip(r)
    if not isinstance(r, dict) or r.get('k') != 'bin':
        return False
    if r.get('op') == '&' and const_int(r['r']) == 15:
        return True
    if r.get('op') == '>>' and const_int(r['r']) == 4:
        l = strip(r['l'])
        return isinstance(l, dict) and l.get('k') == 'bin' and l.get('op') == '&' and const_int(l['r']) == 240
    return False


def run_nibble(run, P, funcs=('coap_opt_parse', 'coap_pdu_parse_header')):
    """accepted => no raw 4-bit field extracted from the wire had the reserved value 15: at every non-zero return each
    nibble variable assigned on the path has 15 excluded (or was overwritten after 15 had been excluded)"""
    run.rule('R-PARSE-GATE')
    for fname in funcs:
        if not P.has(fname):
            if run.fixture_mode:
                continue
            run.require(False, 'anchor function %s() not found' % fname)
        f = P.func(fname)
        n = [0]

        def excluded15(env, a):
            lo, hi, ex = env.intf(a)
            return hi < 15 or lo > 15 or 15 in ex

        def on_event(ev, env0, ctx):
            env = env0
            pend = [k[4:] for k in env.ts if k.startswith('nib:')]
            done = [a for a in pend if excluded15(env, a)]
            if done:
                env = env.copy()
                for a in done:
                    del env.ts['nib:' + a]
            t = ev['e']
            tgt = None
            rhs = None
            if t.get('k') == 'asg' and t.get('op') == '=':
                tgt, rhs = ap(t['l']), t['r']
            elif t.get('k') == 'decl':
                for d in t['d']:
                    if 'init' in d and _is_nibble_expr(d['init']):
                        tgt, rhs = 'v%d' % d['id'], d['init']
            if tgt and rhs is not None and _is_nibble_expr(rhs):
                n[0] += 1
                run.instance('R-PARSE-GATE', '%s: nibble %s' % (fname, short(t)[:50]))
                e = apply_generic(ev, env, None).copy()
                e.ts['nib:' + tgt] = ev['loc']
                return [e]
            if tgt and ('nib:' + tgt) in env.ts:
                # the variable is re-used for the decoded value while 15 was never excluded
                e = apply_generic(ev, env, None).copy()
                e.ts['lost:' + tgt] = e.ts.pop('nib:' + tgt)
                return [e]
            if t.get('k') == 'ret':
                v = const_int(t.get('e')) if 'e' in t else None
                if v != 0:
                    bad = [(k, loc) for k, loc in env.ts.items() if k.startswith('nib:') or k.startswith('lost:')]
                    run.oblige('R-PARSE-GATE', not bad, '%s:nibble15-excluded-at-accept' % fname)
                    for k, loc in bad[:1]:
                        run.violation('R-PARSE-GATE', fname, loc, 'nibble15-accepted',
                                      'the function can return success on a path where the 4-bit field extracted here was never tested against the reserved value 15 '
                                      '(a message with that nibble set to 15 is accepted)', ctx.path())
            if env is not env0:
                return [apply_generic(ev, env, None)]
            return None

        def key_fn(e):
            return tuple(sorted(k for k in e.ts if k.startswith('nib:') or k.startswith('lost:')))
        solve(f, Env(), on_event, None, None, None, key_fn=key_fn, max_envs=64)
        run.require(n[0] > 0 or run.fixture_mode, 'R-PARSE-GATE: no 4-bit field extraction found in %s()' % fname)


def run_gate(run, P):
    run.rule('R-PARSE-GATE')
    for f in sorted(P.lib_funcs(), key=lambda f: f['name']):
        name = f['name']
        sites = [ev for b, ev in P.events(f) if ev['e'].get('k') == 'call' and ev['e'].get('fn') == 'coap_dispatch']
        if not sites:
            continue

        def is_rule_event(ev):
            t = ev['e']
            return t.get('k') == 'call' and (t.get('fn') == 'coap_dispatch' or t.get('fn') in PARSERS)
        keys, R = relevance(f, is_rule_event)

        def on_event(ev, env, ctx):
            t = ev['e']
            if t.get('k') == 'call' and t.get('fn') in PARSERS:
                i = PARSERS[t['fn']]
                x = ap(t['a'][i]) if i < len(t['a']) else None
                if x:
                    e = env.copy()
                    ps = dict(env.ts.get('parsed', ()))
                    ps[key(t)] = (x, t['fn'])
                    e.ts['parsed'] = tuple(sorted(ps.items()))
                    return [apply_generic(ev, e, R)]
                return None
            if t.get('k') == 'call' and t.get('fn') == 'coap_dispatch':
                x = ap(t['a'][2]) if len(t['a']) > 2 else None
                run.instance('R-PARSE-GATE', '%s: coap_dispatch(.., %s)' % (name, short(t['a'][2]) if len(t['a']) > 2 else '?'))
                calls = [(k, v) for k, v in dict(env.ts.get('parsed', ())).items() if v[0] == x]
                ok = bool(calls)
                bad = None
                for k, v in calls:
                    rc = env.ret.get(k)
                    if not rc or not ((rc[0] == 'nz') or (rc[0] == 'ne' and rc[1] == 0) or (rc[0] == 'eq' and rc[1] != 0) or (rc[0] == 'rng' and rc[1][0] > 0)):
                        ok = False
                        bad = v[1]
                run.oblige('R-PARSE-GATE', ok, '%s:dispatch-after-parse' % name)
                if not ok:
                    run.violation('R-PARSE-GATE', name, ev['loc'], 'dispatch-ungated',
                                  'coap_dispatch() is reached on a path where %s: a message the parser rejected (or never saw) is handed to the protocol layer'
                                  % ('the result of %s() is not known to be success' % bad if bad else 'no parser call on this PDU happened'), ctx.path())
                return None
            if t.get('k') == 'asg' and env.ts.get('parsed'):
                a = ap(t['l'])
                if a:
                    ps = dict(env.ts['parsed'])
                    drop = [k for k, v in ps.items() if v[0] == a or v[0].startswith(a + '->')]
                    if drop:
                        e = apply_generic(ev, env, R).copy()
                        for k in drop:
                            del ps[k]
                        e.ts['parsed'] = tuple(sorted(ps.items()))
                        return [e]
            return None
        ctx = solve(f, Env(), on_event, None, keys, R)
        run.stats['parsegate_solver_steps'] += ctx.steps


def run(run, P):
    run_gate(run, P)
    run_reject(run, P)
    run_nibble(run, P)


# ---------------------------------------------------------------------------------------------------------------
PARSERS_OUT = ('coap_pdu_parse_header', 'coap_pdu_parse_opt')


def run_outputs(run, P):
    """R-PARSE-GATE (outputs): a parser may be handed a PDU object that was used before (coap_pdu_parse() into a re-used
    PDU is documented API use).  Whatever field of the PDU a parser function assigns on SOME accepting path is an output
    of that function, and an output must be assigned on EVERY accepting path -- otherwise an accepted message shows the
    value an earlier message left there (payload pointer of the previous datagram, ...)."""
    run.rule('R-PARSE-GATE')
    for fn in PARSERS_OUT:
        if not P.has(fn):
            if run.fixture_mode:
                continue
            run.require(False, 'anchor function %s() of R-PARSE-GATE(outputs) not found' % fn)
        f = P.func(fn)
        pv = None
        for p in f['params']:
            if p.get('prec') == 'coap_pdu_t' and not p.get('pc'):
                pv = 'v%d' % p['id']
        if pv is None:
            run.require(run.fixture_mode, 'R-PARSE-GATE(outputs): %s() has no non-const coap_pdu_t parameter' % fn)
            continue

        def out_field(t):
            l = None
            if t.get('k') == 'asg':
                l = strip(t['l'])
            elif t.get('k') == 'un' and t.get('op') in ('++', '--'):
                l = strip(t['e'])
            if isinstance(l, dict) and l.get('k') == 'mem' and l.get('arrow') and ap(l['b']) == pv:
                return l['f']
            return None
        W = set()
        for b, ev in P.events(f):
            o = out_field(ev['e'])
            if o and ev['e'].get('k') == 'asg' and ev['e'].get('op') == '=':
                W.add(o)
        # a field the function also reads is (partly) an input: the caller set it up; only pure outputs are judged
        reads = set()
        for b, ev in P.events(f):
            t = ev['e']
            if not ev.get('top'):
                continue          # sub-expression events repeat the l-value of the assignment that contains them
            skip = strip(t['l']) if t.get('k') == 'asg' and t.get('op') == '=' else None
            for x in walk(t):
                if isinstance(x, dict) and x.get('k') == 'mem' and x.get('arrow') and ap(x.get('b')) == pv and x is not skip:
                    reads.add(x['f'])
        for b in f['blocks']:
            c = (b.get('term') or {}).get('cond')
            if c is not None:
                for x in walk(c):
                    if isinstance(x, dict) and x.get('k') == 'mem' and x.get('arrow') and ap(x.get('b')) == pv:
                        reads.add(x['f'])
        W = sorted(W - reads)
        if not W:
            continue
        run.instance('R-PARSE-GATE', '%s: pure outputs %s' % (fn, ','.join(W)))

        def is_rule_event(ev):
            return ev['e'].get('k') == 'ret' or out_field(ev['e']) is not None
        keys, R = relevance(f, is_rule_event)

        def on_event(ev, env, ctx):
            t = ev['e']
            o = out_field(t)
            if o and t.get('k') == 'asg' and t.get('op') == '=':
                e = apply_generic(ev, env, R).copy()
                e.ts['w'] = env.ts['w'] | {o}
                return [e]
            if t.get('k') == 'ret' and 'e' in t:
                K = const_int(t['e'])
                if K == 0:
                    return None
                if K is None:
                    a = ap(t['e'])
                    lo, hi, ex = env.intf(a) if a else (None, None, None)
                    if a and lo == hi == 0:
                        return None
                miss = [x for x in W if x not in env.ts['w']]
                run.oblige('R-PARSE-GATE', not miss, '%s:outputs' % fn)
                if miss:
                    run.violation('R-PARSE-GATE', fn, ev['loc'], 'output-not-set:%s' % '+'.join(miss),
                                  '%s() accepts on a path that does not assign pdu->%s, which it assigns on other accepting paths: parsing into a PDU that was used before '
                                  'leaves the value of the earlier message (stale payload pointer, ...)' % (fn, ', pdu->'.join(miss)), ctx.path())
            return None
        solve(f, Env({'w': frozenset()}), on_event, None, keys, R, key_fn=lambda e: e.ts['w'], max_envs=512)


# ---------------------------------------------------------------------------------------------------------------
VERDICT_UNITS = ('coap_pdu.c', 'coap_option.c', 'coap_net.c')


def run_verdict(run, P, units=VERDICT_UNITS):
    """R-PARSE-GATE (verdict): a function of the decoding units that returns a local flag initialised to the accepting value 1 collects its
    verdict over several checks (over the options of a message, over the rows of a table).  Such a flag only ever goes down: on no path
    is it assigned anything but the constant 0 while it is already known to be 0 -- `good = check(next option)` inside the loop lets a later
    well-formed option wipe out the rejection of an earlier one.  (`ok = check(); if (!ok) break;` never reaches the assignment with the
    flag at 0 and is fine.)"""
    from core.prog import strip, walk, ap, short, const_int
    from core.psts import Env, solve, relevance, apply_generic
    run.rule('R-PARSE-GATE')
    nflags = 0
    for f in sorted(P.lib_funcs(), key=lambda f: f['name']):
        if units and f['unit'] not in units:
            continue
        inits = {}
        for b, ev in P.events(f):
            for d in ev['e'].get('d') or ():
                if d.get('init') is not None and const_int(d['init']) == 1:
                    inits['v%d' % d['id']] = d['n']
        flags = set()
        for b, ev in P.events(f):
            t = ev['e']
            if t.get('k') == 'ret' and t.get('e') is not None and ap(t['e']) in inits:
                flags.add(ap(t['e']))
        # flags that are ever assigned the constant 0: verdicts (a returned length that starts at 1 is not one)
        flags = set(v for v in flags if any(ev['e'].get('k') == 'asg' and ap(ev['e']['l']) == v and ev['e'].get('op') == '=' and const_int(ev['e']['r']) == 0
                                            for b, ev in P.events(f)))
        for v in sorted(flags):
            name = f['name']
            nflags += 1
            run.instance('R-PARSE-GATE', '%s: verdict flag `%s` only goes down' % (name, inits[v]))
            asgs = [ev for b, ev in P.events(f) if ev['e'].get('k') == 'asg' and ap(ev['e']['l']) == v]

            def is_rule_event(ev):
                return any(ev is a for a in asgs)
            keys, R = relevance(f, is_rule_event, {v})
            R = set(R) | {v}

            def on_event(ev, env, ctx, v=v, name=name):
                t = ev['e']
                if any(ev is a for a in asgs):
                    lo, hi, ex = env.intf(v)
                    lowered = (lo == hi == 0)
                    keeps = t.get('op') == '=' and const_int(t['r']) == 0
                    run.oblige('R-PARSE-GATE', not (lowered and not keeps), '%s:verdict-monotone' % name)
                    if lowered and not keeps:
                        run.violation('R-PARSE-GATE', name, ev['loc'], 'verdict-raised-again:%s' % inits[v],
                                      'the verdict flag `%s` is assigned %s on a path on which it is already 0: a later check overwrites the rejection an earlier one '
                                      'recorded, and a message with a malformed part followed by a well-formed one is accepted' % (inits[v], short(t['r'])[:50]), ctx.path())
                return None
            solve(f, Env(), on_event, None, keys, R, key_fn=lambda e, v=v: e.intf(v)[:2])
    run.require(nflags >= (3 if run.cfg == 'base' else 2) or run.fixture_mode, 'R-PARSE-GATE(verdict): fewer than 3 returned accept flags found in the decoding units')
