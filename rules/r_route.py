"""R-ROUTE (C19): application data only flows on an established (D)TLS session.

(1) coap_handle_dgram() is called only from coap_handle_dgram_for_proto() with session->proto == COAP_PROTO_UDP known,
    and from the TLS back end on a path inside `established` with a record-read result known > 0;
(2) the back end's `established` flag has a single kind of writer: = 1 on the arm where the result of
    gnutls_handshake() is GNUTLS_E_SUCCESS (0) (and = 0 resets);
(3) do_gnutls_handshake() returns 1 only on paths that passed that write;
(4) in the back end coap_session_connected() is called only where do_gnutls_handshake() returned 1;
(5) in coap_send_pdu() the transmission is reached only with session->state == COAP_SESSION_STATE_ESTABLISHED.
"""
from core.prog import strip, walk, ap, key, short, const_int, is_null_const
from core.psts import Env, solve, relevance, apply_generic, INF

BACKEND_UNITS = ('coap_gnutls.c',)
HANDSHAKE = 'gnutls_handshake'
DO_HS = 'do_gnutls_handshake'
RECV = ('gnutls_record_recv',)


def _assigned_from(P, f, fnname):
    """access paths of variables assigned from a call of fnname in f"""
    out = set()
    for b, ev in P.events(f):
        t = ev['e']
        if t.get('k') == 'asg' and t.get('op') == '=':
            r = strip(t['r'])
            if isinstance(r, dict) and r.get('k') == 'call' and r.get('fn') == fnname and ap(t['l']):
                out.add(ap(t['l']))
        elif t.get('k') == 'decl':
            for d in t['d']:
                r = strip(d.get('init'))
                if isinstance(r, dict) and r.get('k') == 'call' and r.get('fn') == fnname:
                    out.add('v%d' % d['id'])
    return out


def run(run, P):
    run.rule('R-ROUTE')
    UDP = P.const_named('COAP_PROTO_UDP')
    EST = P.const_named('COAP_SESSION_STATE_ESTABLISHED')
    # ---- (1) callers of coap_handle_dgram
    callers = [n for n in P.callers('coap_handle_dgram') if n in P.funcs]
    run.require(callers, 'R-ROUTE: coap_handle_dgram() has no caller')
    for n in callers:
        f = P.func(n)
        backend = f['unit'] in BACKEND_UNITS
        okcaller = n == 'coap_handle_dgram_for_proto' or backend
        run.instance('R-ROUTE', 'coap_handle_dgram called from %s' % n)
        run.oblige('R-ROUTE', okcaller, 'caller:%s' % n)
        if not okcaller:
            run.violation('R-ROUTE', n, f['loc'], 'foreign-caller',
                          'coap_handle_dgram() (cleartext CoAP datagram processing) is called from %s(), which is neither the protocol router nor a TLS back end receive path' % n)
            continue
        recv_vars = set()
        for r_ in RECV:
            recv_vars |= _assigned_from(P, f, r_)

        def is_rule_event(ev):
            t = ev['e']
            return t.get('k') == 'call' and t.get('fn') == 'coap_handle_dgram'
        keys, R = relevance(f, is_rule_event, recv_vars)
        R = R | recv_vars

        def on_event(ev, env, ctx):
            t = ev['e']
            if t.get('k') != 'call' or t.get('fn') != 'coap_handle_dgram':
                return None
            if not backend:
                sp = None
                for a, v in env.ints.items():
                    if a.endswith('->proto') and v[0] == v[1]:
                        sp = v[0]
                ok = sp == UDP
                run.oblige('R-ROUTE', ok, '%s:proto-udp' % n)
                if not ok:
                    run.violation('R-ROUTE', n, ev['loc'], 'dgram-not-udp',
                                  'coap_handle_dgram() is reached on a path where session->proto is not known to be COAP_PROTO_UDP (known value: %s): a datagram '
                                  'for a DTLS session can be processed as cleartext CoAP' % sp, ctx.path())
            else:
                est = any((a.endswith('->established') and (v[0] >= 1 or 0 in v[2])) for a, v in env.ints.items())
                got = any(env.intf(a)[0] >= 1 for a in recv_vars)
                ok = est and got
                run.oblige('R-ROUTE', ok, '%s:record-after-established' % n)
                if not ok:
                    run.violation('R-ROUTE', n, ev['loc'], 'dgram-before-established' if not est else 'dgram-without-record',
                                  'the back end hands data to coap_handle_dgram() on a path where %s' % (
                                      'the handshake is not known to be complete (established flag)' if not est else 'no record-read result > 0 is known'), ctx.path())
            return None
        solve(f, Env(), on_event, None, keys, R)
    # ---- (2)+(3) the established flag and the handshake result
    writers = []
    for f in P.lib_funcs():
        if f['unit'] not in BACKEND_UNITS:
            continue
        for b, ev in P.events(f):
            t = ev['e']
            if t.get('k') == 'asg':
                l = strip(t['l'])
                if isinstance(l, dict) and l.get('k') == 'mem' and l['f'] == 'established':
                    writers.append((f, ev))
    run.require(writers or run.fixture_mode, 'R-ROUTE: no writer of the established flag found in the back end')
    for f, ev0 in writers:
        hs_vars = _assigned_from(P, f, HANDSHAKE)
        K = const_int(ev0['e']['r'])
        run.instance('R-ROUTE', '%s: established = %s' % (f['name'], short(ev0['e']['r'])))
        if K == 0:
            run.oblige('R-ROUTE', True, '%s:reset' % f['name'])
            continue

        def is_rule_event(ev):
            return ev is ev0 or ev['e'].get('k') == 'ret'
        keys, R = relevance(f, is_rule_event, hs_vars)
        R = R | hs_vars

        def on_event(ev, env, ctx):
            t = ev['e']
            if ev is ev0:
                ok = bool(hs_vars) and any(env.intf(a)[:2] == (0, 0) for a in hs_vars)
                run.oblige('R-ROUTE', ok, '%s:established-on-success' % f['name'])
                if not ok:
                    run.violation('R-ROUTE', f['name'], ev['loc'], 'established-not-on-success',
                                  'the established flag is set on a path where the result of %s() is not known to be GNUTLS_E_SUCCESS (0): application data '
                                  'would flow although the peer was not authenticated' % HANDSHAKE, ctx.path())
                e = apply_generic(ev, env, R).copy()
                e.ts['succ'] = 1
                return [e]
            if t.get('k') == 'ret' and 'e' in t and f['name'] == DO_HS:
                v = const_int(t['e'])
                if v is None and ap(t['e']):
                    iv = env.intf(ap(t['e']))
                    v = iv[0] if iv[0] == iv[1] else None
                if v == 1 or v is None:
                    ok = bool(env.ts.get('succ'))
                    run.oblige('R-ROUTE', ok, '%s:returns-1-only-on-success' % DO_HS)
                    if not ok:
                        run.violation('R-ROUTE', DO_HS, ev['loc'], 'handshake-success-without-success',
                                      '%s() can return %s (taken as "established" by its callers) on a path that did not pass the GNUTLS_E_SUCCESS arm' % (DO_HS, '1' if v == 1 else 'an unknown value'), ctx.path())
            return None
        solve(f, Env(), on_event, None, keys, R, key_fn=lambda e: (e.ts.get('succ'), tuple(sorted((a, e.intf(a)[:2]) for a in hs_vars))))
    # ---- (4) coap_session_connected in the back end
    for f in sorted(P.lib_funcs(), key=lambda f: f['name']):
        if f['unit'] not in BACKEND_UNITS:
            continue
        sites = [ev for b, ev in P.events(f) if ev['e'].get('k') == 'call' and ev['e'].get('fn') == 'coap_session_connected']
        if not sites:
            continue
        hv = _assigned_from(P, f, DO_HS)

        def is_rule_event(ev):
            return ev['e'].get('k') == 'call' and ev['e'].get('fn') == 'coap_session_connected'
        keys, R = relevance(f, is_rule_event, hv)
        R = R | hv

        def on_event(ev, env, ctx):
            t = ev['e']
            if t.get('k') == 'call' and t.get('fn') == 'coap_session_connected':
                run.instance('R-ROUTE', '%s: coap_session_connected()' % f['name'])
                ok = any(env.intf(a)[:2] == (1, 1) for a in hv)
                run.oblige('R-ROUTE', ok, '%s:connected-after-handshake' % f['name'])
                if not ok:
                    run.violation('R-ROUTE', f['name'], ev['loc'], 'connected-without-handshake',
                                  'coap_session_connected() (which flushes the queued application messages) is reached on a path where %s() is not known to have '
                                  'returned 1' % DO_HS, ctx.path())
            return None
        solve(f, Env(), on_event, None, keys, R)
    # ---- (4b) application records are only read / written inside `established`
    for f in sorted(P.lib_funcs(), key=lambda f: f['name']):
        if f['unit'] not in BACKEND_UNITS:
            continue
        if not any(ev['e'].get('k') == 'call' and ev['e'].get('fn') in ('gnutls_record_recv', 'gnutls_record_send') for b, ev in P.events(f)):
            continue

        def is_rule_event(ev):
            return ev['e'].get('k') == 'call' and ev['e'].get('fn') in ('gnutls_record_recv', 'gnutls_record_send')
        keys, R = relevance(f, is_rule_event)

        def on_event(ev, env, ctx):
            t = ev['e']
            if t.get('k') == 'call' and t.get('fn') in ('gnutls_record_recv', 'gnutls_record_send'):
                run.instance('R-ROUTE', '%s: %s()' % (f['name'], t['fn']))
                est = any((a.endswith('->established') and (v[0] >= 1 or 0 in v[2])) for a, v in env.ints.items())
                run.oblige('R-ROUTE', est, '%s:%s-inside-established' % (f['name'], t['fn']))
                if not est:
                    run.violation('R-ROUTE', f['name'], ev['loc'], 'record-io-before-established:%s' % t['fn'],
                                  '%s() is reached on a path where the established flag is not known to be set: application records are exchanged before the '
                                  'handshake completed' % t['fn'], ctx.path())
            return None
        solve(f, Env(), on_event, None, keys, R)
    # ---- (5) transmission only when established
    if P.has('coap_send_pdu'):
        f = P.func('coap_send_pdu')

        def is_rule_event(ev):
            return ev['e'].get('k') == 'call' and ev['e'].get('fn') == 'coap_session_send_pdu'
        keys, R = relevance(f, is_rule_event)
        seen = [0]

        def on_event(ev, env, ctx):
            t = ev['e']
            if t.get('k') == 'call' and t.get('fn') == 'coap_session_send_pdu':
                seen[0] += 1
                st = None
                for a, v in env.ints.items():
                    if a.endswith('->state') and v[0] == v[1]:
                        st = v[0]
                ok = st == EST
                run.instance('R-ROUTE', 'coap_send_pdu: transmission with session->state known %s' % st)
                run.oblige('R-ROUTE', ok, 'send-only-established')
                if not ok:
                    run.violation('R-ROUTE', 'coap_send_pdu', ev['loc'], 'send-before-established',
                                  'the PDU is written to the transport on a path where session->state is not known to be ESTABLISHED: a message queued during the '
                                  'handshake could leave in clear', ctx.path())
            return None
        solve(f, Env(), on_event, None, keys, R)
        run.require(seen[0] > 0, 'R-ROUTE: coap_send_pdu no longer transmits through coap_session_send_pdu()')
    elif not run.fixture_mode:
        run.require(False, 'anchor function coap_send_pdu() not found')


# ---------------------------------------------------------------------------------------------------------------
VERDICT_FIELDS = ('validate_id_call_back', 'validate_ih_call_back', 'validate_sni_call_back')


# callbacks that are asked for every handshake (the SNI callback is not: names it accepted once are cached with their credentials)
MUST_CONSULT = ('validate_ih_call_back', 'validate_id_call_back')


def run_psk(run, P):
    """R-PSK-VERDICT (C19): "an identity the server does not know, or a hint the client rejects -> the session never becomes
    established".  The application says so by returning NULL from its identity / hint validation callback.  In every
    back-end function that invokes such a callback:
      - the variable that receives the verdict is not assigned again on the path after the callback (a later fall-back to
        the session's or context's default key silently accepts what the application rejected);
      - a non-negative (success) return is reached only with the verdict known non-NULL;
      - where the identity / hint callback is known to be installed (true arm of a test of the callback field) a success return is
        reached only after it was called: no second condition decides that the application need not be asked."""
    from core.prog import callee_field
    run.rule('R-PSK-VERDICT')
    n = 0
    for f in P.lib_funcs():
        sites = []
        for b, ev in P.events(f):
            t = ev['e']
            if t.get('k') == 'asg' and t.get('op') == '=':
                r = strip(t['r'])
                if isinstance(r, dict) and r.get('k') == 'call' and callee_field(r) in VERDICT_FIELDS and ap(t['l']):
                    sites.append((ev, ap(t['l']), callee_field(r)))
        if not sites:
            continue
        name = f['name']
        retaps0 = set(ap(ev2['e']['e']) for b2, ev2 in P.events(f) if ev2['e'].get('k') == 'ret' and 'e' in ev2['e'] and ap(ev2['e']['e']))
        vvars = {v for _e, v, _f in sites}
        for _e, v, fld in sites:
            n += 1
            run.instance('R-PSK-VERDICT', '%s: verdict of %s' % (name, fld))

        def is_rule_event(ev):
            t = ev['e']
            if t.get('k') == 'ret':
                return True
            if t.get('k') == 'asg' and (ap(t['l']) in vvars or ap(t['l']) in retaps0):
                return True
            return False
        retaps = set(ap(ev2['e']['e']) for b2, ev2 in P.events(f) if ev2['e'].get('k') == 'ret' and 'e' in ev2['e'] and ap(ev2['e']['e']))
        keys, R = relevance(f, is_rule_event, vvars | retaps)
        R = set(R) | vvars | retaps
        keys = set(keys)
        for b in f['blocks']:
            c = (b.get('term') or {}).get('cond')
            if c is not None and any(isinstance(x, dict) and x.get('k') == 'mem' and x.get('f') in VERDICT_FIELDS for x in walk(c)):
                keys.add(b['id'])

        def on_branch(b, s, env, ctx):
            # "installed": the true arm of a test of the callback field itself
            c = strip((b.get('term') or {}).get('cond'))
            if c is None or len(b['succ']) != 2:
                return env
            truth = s == b['succ'][0]
            while isinstance(c, dict) and c.get('k') == 'un' and c.get('op') == '!':
                c = strip(c['e'])
                truth = not truth
            if isinstance(c, dict) and c.get('k') == 'bin' and c.get('op') in ('!=', '==') and is_null_const(c['r']):
                truth = truth if c['op'] == '!=' else not truth
                c = strip(c['l'])
            if isinstance(c, dict) and c.get('k') == 'mem' and c.get('f') in MUST_CONSULT and truth:
                e = env.copy()
                e.ts['inst'] = c['f']
                return e
            return env

        def on_event(ev, env, ctx):
            t = ev['e']
            if t.get('k') == 'asg' and ap(t['l']) in vvars:
                v = ap(t['l'])
                r = strip(t['r'])
                iscb = isinstance(r, dict) and r.get('k') == 'call' and callee_field(r) in VERDICT_FIELDS
                e = env.copy()
                if iscb:
                    e.ts['cb'] = tuple(sorted(set(env.ts.get('cb', ())) | {v}))
                    e.ts['called'] = 1
                elif v in env.ts.get('cb', ()):
                    run.oblige('R-PSK-VERDICT', False, '%s:overwrite' % name)
                    run.violation('R-PSK-VERDICT', name, ev['loc'], 'verdict-overwritten',
                                  'the result of the application\'s identity/hint validation callback is replaced (%s) before it is acted on: an identity or hint the '
                                  'application rejected (NULL) falls back to another key and the handshake can complete' % short(t)[:70], ctx.path())
                    e.ts['cb'] = tuple(x for x in env.ts.get('cb', ()) if x != v)
                return [apply_generic(ev, e, R)]
            if t.get('k') == 'ret' and 'e' in t:
                K = const_int(t['e'])
                if K is not None and K < 0:
                    return None
                if K is None and ap(t['e']):
                    lo, hi, ex = env.intf(ap(t['e']))
                    if hi < 0:
                        return None          # a variable known negative: rejection
                    if not (lo >= 0):
                        # value unknown: only the case "verdict known NULL" is judged (a NULL verdict must not be able to return success)
                        for v in env.ts.get('cb', ()):
                            if env.nullf(v) == 'Z':
                                run.oblige('R-PSK-VERDICT', False, '%s:null-verdict-return' % name)
                                run.violation('R-PSK-VERDICT', name, ev['loc'], 'null-verdict-may-succeed',
                                              'the validation callback returned NULL on this path, but the value returned (%s) is not known to be an error code: a rejected '
                                              'identity / hint / server name does not abort the handshake' % short(t['e']), ctx.path())
                        return None
                if env.ts.get('inst') and not env.ts.get('cb') and not env.ts.get('called'):
                    run.oblige('R-PSK-VERDICT', False, '%s:installed-consulted' % name)
                    run.violation('R-PSK-VERDICT', name, ev['loc'], 'installed-callback-not-consulted:%s' % env.ts['inst'],
                                  'a success return is reached on a path on which the application\'s %s is known to be installed but was never called: whatever the '
                                  'application would have rejected is accepted with the default credentials' % env.ts['inst'], ctx.path())
                elif env.ts.get('inst'):
                    run.oblige('R-PSK-VERDICT', True, '%s:installed-consulted' % name)
                for v in env.ts.get('cb', ()):
                    ok = env.nullf(v) == 'N'
                    run.oblige('R-PSK-VERDICT', ok, '%s:success-return' % name)
                    if not ok:
                        run.violation('R-PSK-VERDICT', name, ev['loc'], 'accept-with-null-verdict',
                                      'a success return is reached on a path where the validation callback was called and its result is not known to be non-NULL: '
                                      'a rejected identity/hint does not abort the handshake', ctx.path())
            return None
        ctx = solve(f, Env({'cb': ()}), on_event, None, keys, R, on_branch=on_branch, key_fn=lambda e: (e.ts.get('cb'), e.ts.get('inst'), e.ts.get('called'), tuple(e.nullf(v) for v in sorted(vvars)), tuple((e.intf(a)[0] >= 0, e.intf(a)[1] < 0) for a in sorted(retaps0))))
        run.stats['psk_solver_steps'] += ctx.steps
    run.require_count(n >= 2 or run.fixture_mode, 'R-PSK-VERDICT: fewer than 2 identity/hint validation call sites found in the TLS back end')


def run_event_reset(run, P, units=('coap_gnutls.c',)):
    """R-ROUTE (stale event): the TLS back end reports what happened during a call in session->dtls_event; the call's epilogue acts on it
    (raises the event, disconnects the session on ERROR / CLOSED).  Other functions set the field too (the ClientHello stage records a
    refusal there) and nobody else clears it.  So every function that ACTS on the field -- tests it in a condition -- has assigned the idle
    value (a negative constant) to it earlier on every path of the same invocation: what it acts on is what happened in this call, not what
    an earlier, unrelated one left behind (a session whose first handshake was refused at the hello stage would otherwise be torn down at
    the first record of its next, valid handshake)."""
    run.rule('R-ROUTE')
    FIELD = 'dtls_event'
    n = 0
    for f in sorted(P.lib_funcs(), key=lambda f: f['name']):
        if f['unit'] not in units:
            continue
        readers = [b['id'] for b in f['blocks'] if (b.get('term') or {}).get('cond') is not None and
                   any(isinstance(y, dict) and y.get('k') == 'mem' and y.get('f') == FIELD for y in walk(b['term']['cond']))]
        if not readers:
            continue
        name = f['name']
        n += 1
        run.instance('R-ROUTE', '%s: acts on %s only after resetting it in the same call' % (name, FIELD))

        def is_reset(t):
            if t.get('k') == 'asg' and t.get('op') == '=':
                l = strip(t['l'])
                K = const_int(t['r'])
                return isinstance(l, dict) and l.get('k') == 'mem' and l.get('f') == FIELD and K is not None and K < 0
            return False

        def is_rule_event(ev):
            return is_reset(ev['e'])
        keys, R = relevance(f, is_rule_event)
        keys = set(keys) | set(readers)
        reported = set()

        def on_event(ev, env, ctx):
            if is_reset(ev['e']) and not env.ts.get('reset'):
                e = apply_generic(ev, env, R).copy()
                e.ts['reset'] = 1
                return [e]
            return None

        def on_branch(b, s, env, ctx):
            if b['id'] in readers:
                ok = bool(env.ts.get('reset'))
                run.oblige('R-ROUTE', ok, '%s:event-reset-before-use' % name)
                if not ok and b['id'] not in reported:
                    reported.add(b['id'])
                    run.violation('R-ROUTE', name, b['term'].get('loc'), 'stale-event-acted-on',
                                  'session->%s is tested on a path of this call that has not assigned the idle value to it before: the function acts on whatever an earlier '
                                  'call (for instance a ClientHello that was refused) left in the field' % FIELD, ctx.path())
            return env
        solve(f, Env(), on_event, None, keys, R, key_fn=lambda e: e.ts.get('reset'), on_branch=on_branch)
    run.require_count(n >= (4 if run.cfg == 'base' else 0) or run.fixture_mode, 'R-ROUTE(stale event): fewer than 4 functions that act on dtls_event found')


def run_sni_cache(run, P, field='sni'):
    """R-PSK-VERDICT (the cache stands for the name that was accepted): the back end asks the application about a server name once and
    keeps the credentials it returned under that name; a later ClientHello with a cached name is not shown to the application again.  A
    cache hit therefore means EQUAL names: every comparison against an entry's `sni` string is a whole-string comparison (strcmp /
    strcasecmp), never a bounded one (strncmp / strncasecmp / memcmp): bounded by the length of the name the client sent, "tenant" --
    or no name at all, length 0 -- hits the entry of "tenant.example" and a client the application would have refused gets that
    tenant's credentials, completes the handshake and is served."""
    run.rule('R-PSK-VERDICT')
    WHOLE = ('strcmp', 'strcasecmp')
    BOUNDED = ('strncmp', 'strncasecmp', 'memcmp')
    n = 0
    for f in sorted(P.lib_funcs(), key=lambda f: f['name']):
        nodes = [(ev['loc'], ev['e']) for b, ev in P.events(f) if ev.get('top', True)]
        for b in f['blocks']:
            c = (b.get('term') or {}).get('cond')
            if c is not None:
                nodes.append(((b['term'].get('loc') or f['loc']), c))
        seen = set()
        for loc, t in nodes:
            for x in walk(t):
                if not (isinstance(x, dict) and x.get('k') == 'call' and x.get('fn') in WHOLE + BOUNDED):
                    continue
                if not any(isinstance(y, dict) and y.get('k') == 'mem' and y.get('f') == field for a in (x.get('a') or [])[:2] for y in walk(a)):
                    continue
                if (loc, short(x)) in seen:
                    continue
                seen.add((loc, short(x)))
                n += 1
                ok = x['fn'] in WHOLE
                run.instance('R-PSK-VERDICT', '%s: cached server name compared with %s()' % (f['name'], x['fn']))
                run.oblige('R-PSK-VERDICT', ok, '%s:sni-cache-hit-means-equal' % f['name'])
                if not ok:
                    run.violation('R-PSK-VERDICT', f['name'], loc, 'sni-cache-prefix-match',
                                  '`%s` compares a cached server name over a bounded number of bytes: a name that is a prefix of a cached one (or an absent name, length 0) '
                                  'counts as cached, the application\'s SNI validation is skipped and the other name\'s credentials are used' % short(x)[:70], [])
    run.require_count(n >= (2 if run.cfg == 'base' else 0) or run.fixture_mode, 'R-PSK-VERDICT(sni cache): fewer than 2 comparisons against a cached server name found')


CONNECTED = 'coap_session_connected'
ESTABLISH_EXCEPTIONS = {
    'coap_session_establish': 'end of the layer establish chain: a layer calls the next layer\'s establish slot only once it is established itself '
                              '(the TLS layer\'s own gate is R-ROUTE\'s handshake clause); it promotes datagram sessions only (COAP_PROTO_NOT_RELIABLE tested)',
}


def run_establishers(run, P, backend_units=('coap_gnutls.c', 'coap_openssl.c', 'coap_mbedtls.c', 'coap_tinydtls.c', 'coap_wolfssl.c', 'coap_notls.c')):
    """R-ROUTE (who may establish): coap_session_connected() is the only place that sets `state = ESTABLISHED`, after which coap_send_pdu()
    transmits instead of queueing.  Outside the (D)TLS back end (whose calls are gated on the handshake result by the clause above) it is called
    only on paths that know the session already ESTABLISHED (the flush after an exchange completed) or in state CSM (reached only through the
    layer chain after the transport - and TLS - came up), or for a multicast node (UDP only: no handshake).  A call decided by anything else -
    the protocol class, a timer - promotes a session that is still CONNECTING or in the middle of the handshake: what was queued goes out or
    is dropped without the handshake having completed."""
    from core.facts import AnalysisBroken
    run.rule('R-ROUTE')
    csm = P.const_named('COAP_SESSION_STATE_CSM')
    est = P.const_named('COAP_SESSION_STATE_ESTABLISHED')
    if not (csm < est):
        raise AnalysisBroken('R-ROUTE (who may establish): state constants are not ordered CSM < ESTABLISHED')
    n = 0
    for f in sorted(P.lib_funcs(), key=lambda f: f['name']):
        if f['unit'] in backend_units or f['name'] == CONNECTED:
            continue
        sites = [ev for b, ev in P.events(f) if ev['e'].get('k') == 'call' and ev['e'].get('fn') == CONNECTED and ev.get('top') and ev['e'].get('a')]
        if not sites:
            continue
        name = f['name']
        for ev in sites:
            n += 1
            run.instance('R-ROUTE', '%s: %s' % (name, short(ev['e'])))
        if name in ESTABLISH_EXCEPTIONS:
            run.notes.append('R-ROUTE (who may establish) exception %s: %s' % (name, ESTABLISH_EXCEPTIONS[name]))
            continue
        states = set()
        for ev in sites:
            a = ap(ev['e']['a'][0])
            if a:
                states.add(a + '->state')
        rep = set()

        def on_event(ev, env, ctx):
            if not any(ev is s for s in sites):
                return None
            a = ap(ev['e']['a'][0])
            lo, hi, ex = env.intf(a + '->state') if a else (-INF, INF, frozenset())
            ok = lo >= csm and hi <= est
            if not ok and a:
                # multicast node: `if (node->is_mcast)` with the session taken from that node
                for k, v in env.ints.items():
                    if k.endswith('->is_mcast') and a.startswith(k[:-len('->is_mcast')]) and (v[0] >= 1 or 0 in v[2]):
                        ok = True
            run.oblige('R-ROUTE', ok, '%s:establish-known-state' % name)
            if not ok and ev['loc'] not in rep:
                rep.add(ev['loc'])
                run.violation('R-ROUTE', name, ev['loc'], 'established-without-known-state',
                              'coap_session_connected() is reached on a path that knows neither state == ESTABLISHED nor state == CSM for that session (state %s here): '
                              'a session that is still connecting or in the middle of the (D)TLS handshake is promoted to ESTABLISHED, and what the application queued is '
                              'then transmitted or dropped although no handshake completed' % ('in [%s, %s]' % (lo, hi)), ctx.path())
            return None
        solve(f, Env(), on_event, None, None, None, key_fn=lambda e: tuple(sorted((k, e.intf(k)) for k in states)) + tuple(sorted((k, v[0] >= 1 or 0 in v[2]) for k, v in e.ints.items() if k.endswith('->is_mcast'))), max_envs=512)
    run.require_count(n >= (8 if run.cfg == 'base' else 1) or run.fixture_mode, 'R-ROUTE (who may establish): fewer than 8 calls of coap_session_connected() outside the TLS back end')
