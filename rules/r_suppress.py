"""R-SUPPRESS-TAB (C10, clause "what the handler sets is what is sent, subject to the No-Response and multicast
suppression rules"): the decision table in no_response() agrees with itself and with RFC 7967.

 (a) every test of a per-resource multicast flag whose public name says which replies it governs
     (COAP_RESOURCE_FLAGS_LIB_{ENA,DIS}_MCAST_SUPPRESS_<c>_{XX|nn}) is conjoined, on the arm where suppression applies
     (ENA: flag set, DIS: flag clear), with a test of the response for exactly that class c (or code c.nn), and that
     conjunction leads to RESPONSE_DROP.  A flag paired with another class silently swaps two rows of the table: a 5.xx
     reply is dropped although the application disabled 5.xx suppression, and sent although it did not.
 (b) the flag constants are distinct single bits.
 (c) the No-Response bitmap test selects bit (class - 1) (RFC 7967 Table 2: 2 -> 2.xx, 8 -> 4.xx, 16 -> 5.xx).
The flag -> class table is read from the macro names at the point of use, it is not a copy of the source."""
import re
from core.prog import strip, walk, const_int, short

FUNC = 'no_response'
NAME = re.compile(r'_(ENA|DIS)_MCAST_SUPPRESS_(\d)_(XX|\d\d)$')


def _flag_test(cond):
    """(macro name, value, truth-of-cond-when-flag-set) for `x & F`, `(x & F) != 0`, `(x & F) == 0`, `!(x & F)`"""
    c = strip(cond)
    neg = False
    while isinstance(c, dict) and c.get('k') == 'un' and c.get('op') == '!':
        c = strip(c['e'])
        neg = not neg
    if isinstance(c, dict) and c.get('k') == 'bin' and c.get('op') in ('==', '!=') and const_int(c['r']) == 0:
        if c['op'] == '==':
            neg = not neg
        c = strip(c['l'])
    if isinstance(c, dict) and c.get('k') == 'bin' and c.get('op') == '&':
        for x in (c['r'], c['l']):
            x = strip(x)
            if isinstance(x, dict) and x.get('k') == 'int' and x.get('mn') and NAME.search(x['mn']):
                return x['mn'], x['v'], not neg
    return None


def _class_test(cond):
    """('class', c) for ((code >> 5) & 7) == c ; ('code', v) for code == v ; else None"""
    c = strip(cond)
    if not (isinstance(c, dict) and c.get('k') == 'bin' and c.get('op') == '=='):
        return None
    K = const_int(c['r'])
    l = strip(c['l'])
    if K is None or not isinstance(l, dict):
        return None
    if l.get('k') == 'mem' and l.get('f') == 'code':
        return ('code', K)
    if l.get('k') == 'bin' and l.get('op') == '&' and const_int(l['r']) is not None and const_int(l['r']) & 7 == 7:
        s = strip(l['l'])
        if isinstance(s, dict) and s.get('k') == 'bin' and s.get('op') == '>>' and const_int(s['r']) == 5:
            m = strip(s['l'])
            if isinstance(m, dict) and m.get('k') == 'mem' and m.get('f') == 'code':
                return ('class', K)
    return None


def _drops(f, bid, depth=3):
    """does block bid return RESPONSE_DROP, directly or behind at most `depth` further conditions on the true arm"""
    b = f['B'][bid]
    for ev in b['elems']:
        t = ev['e']
        if t.get('k') == 'ret':
            e = strip(t.get('e'))
            return isinstance(e, dict) and e.get('en') == 'RESPONSE_DROP'
    if depth and b.get('term') and b['term'].get('cond') is not None and b['succ'] and b['succ'][0] is not None:
        return _drops(f, b['succ'][0], depth - 1)
    return False


def run(run, P):
    run.rule('R-SUPPRESS-TAB')
    if not P.has(FUNC):
        if run.fixture_mode:
            return
        run.require(False, 'anchor %s() of R-SUPPRESS-TAB not found' % FUNC)
    f = P.func(FUNC)
    flags = {}
    n = 0
    for b in f['blocks']:
        cond = (b.get('term') or {}).get('cond')
        if cond is None or len(b['succ']) != 2:
            continue
        ft = _flag_test(cond)
        if not ft:
            continue
        mn, val, true_when_set = ft
        m = NAME.search(mn)
        pol, cls, sub = m.group(1), int(m.group(2)), m.group(3)
        flags[mn] = val
        n += 1
        inst = '%s: flag %s' % (FUNC, mn)
        run.instance('R-SUPPRESS-TAB', inst)
        # arm on which suppression applies
        want_set = pol == 'ENA'
        arm = 0 if true_when_set == want_set else 1
        nxt = b['succ'][arm]
        want = ('class', cls) if sub == 'XX' else ('code', (cls << 5) | int(sub))
        got = None
        leads = False
        where = b['term']['loc']
        if nxt is not None:
            nb = f['B'][nxt]
            c2 = (nb.get('term') or {}).get('cond')
            if c2 is not None:
                got = _class_test(c2)
                where = nb['term']['loc']
                leads = got is not None and nb['succ'][0] is not None and _drops(f, nb['succ'][0])
        if got is None:
            # the other order: class test first, flag second -> look at the predecessor whose true arm is this block
            for pb in f['blocks']:
                c0 = (pb.get('term') or {}).get('cond')
                if c0 is not None and pb['succ'] and pb['succ'][0] == b['id'] and _class_test(c0):
                    got = _class_test(c0)
                    leads = nxt is not None and _drops(f, nxt)
        ok = got == want and leads
        run.oblige('R-SUPPRESS-TAB', ok, '%s:%s' % (FUNC, mn))
        if not ok:
            if got is None:
                msg = 'is not conjoined with a test of the response class/code on the arm where suppression applies'
            elif got != want:
                msg = 'is paired with a test for %s %s instead of %s %s' % (got[0], got[1] if got[0] == 'class' else '%d.%02d' % (got[1] >> 5, got[1] & 31),
                                                                          want[0], want[1] if want[0] == 'class' else '%d.%02d' % (want[1] >> 5, want[1] & 31))
            else:
                msg = 'and its class test do not lead to RESPONSE_DROP'
            run.violation('R-SUPPRESS-TAB', FUNC, where, 'flag-class-mismatch:%s' % m.group(0).lstrip('_'),
                          'the per-resource multicast flag %s %s: two rows of the suppression table are swapped' % (mn, msg), [])
    run.require_count(n >= 3 or run.fixture_mode, 'R-SUPPRESS-TAB: fewer than 3 per-resource suppression flags tested in %s()' % FUNC)
    # (b)
    vals = list(flags.values())
    distinct = len(set(vals)) == len(vals) and all(v > 0 and v & (v - 1) == 0 for v in vals)
    run.instance('R-SUPPRESS-TAB', '%s: %d flag constants distinct single bits' % (FUNC, len(vals)))
    run.oblige('R-SUPPRESS-TAB', distinct, 'flag-bits')
    if not distinct and vals:
        run.violation('R-SUPPRESS-TAB', FUNC, f['loc'], 'flag-bits-overlap', 'the suppression flag constants %s are not distinct single bits: setting one flag changes another row' % flags, [])
    # (c)
    nb = 0
    for b in f['blocks']:
        cond = (b.get('term') or {}).get('cond')
        if cond is None:
            continue
        for x in walk(cond):
            if isinstance(x, dict) and x.get('k') == 'bin' and x.get('op') == '<<' and const_int(x['l']) == 1:
                r = strip(x['r'])
                if isinstance(r, dict) and r.get('k') == 'bin' and r.get('op') in ('-', '+') and any(isinstance(y, dict) and y.get('k') == 'mem' and y.get('f') == 'code' for y in walk(r)):
                    nb += 1
                    K = const_int(r['r'])
                    ok = r['op'] == '-' and K == 1
                    run.instance('R-SUPPRESS-TAB', '%s: No-Response bit for class c' % FUNC)
                    run.oblige('R-SUPPRESS-TAB', ok, 'nores-bit')
                    if not ok:
                        run.violation('R-SUPPRESS-TAB', FUNC, b['term']['loc'], 'nores-bit', 'the No-Response bitmap is tested with bit (class %s %s) instead of bit (class - 1) (RFC 7967: 2 = 2.xx, 8 = 4.xx, 16 = 5.xx)' % (r['op'], K), [])
    run.require(nb >= 1 or run.fixture_mode, 'R-SUPPRESS-TAB: the No-Response bitmap test was not found in %s()' % FUNC)
