"""R-HOLDER-LEAK (C18): objects parked in a fresh holder are not lost when the holder is freed raw.

A constructor typically allocates a record H (coap_malloc_type / malloc in this function), fills its fields with objects
it creates (strings, binaries, keys: the creators computed by R-OWN-LOCAL) and, when a later step fails, jumps to an error
label.  If that label releases H with the raw allocator counterpart (coap_free_type(.., H) / free(H)) instead of H's
destructor, every created object already stored in a field of H is lost -- a leak that exists only on allocation-failure
paths.

Typestate per path: the set of (holder variable, field) pairs that hold a created object.
  H->f = creator(..)              adds (H, f)        (a later test that finds H->f NULL removes it: nothing was created)
  any call that receives H->f     removes (H, f)     (destructor or hand-over)
  H->f = something else           removes (H, f)
  H stored into a field of another fresh holder: stays tracked (still this function's responsibility)
  H returned / stored elsewhere / passed to any function other than the raw free: all (H, *) are dropped (ownership moved)
  raw free of H with (H, f) pending and H->f not known NULL:  violation."""
from core.prog import strip, walk, ap, short, is_null_const
from core.psts import Env, solve, relevance, apply_generic

RAW_ALLOC = {'coap_malloc_type', 'malloc', 'calloc', 'coap_malloc'}
RAW_FREE = {'coap_free_type': 1, 'free': 0, 'coap_free': 0}


def run(run, P, creators):
    run.rule('R-HOLDER-LEAK')
    creators = set(creators) - RAW_ALLOC
    from rules.r_shallow import frees_summary
    FS = frees_summary(P)
    DTOR = ('coap_delete_pdu', 'coap_delete_string', 'coap_delete_binary', 'coap_delete_bin_const', 'coap_delete_str_const', 'coap_delete_optlist',
            'coap_delete_cache_key', 'coap_free_type', 'free', 'coap_delete_node_lkd')

    def consumes(fn, i):
        """does the callee take the object over (free it / may keep it)?  library callees that neither free the parameter nor
        store it are borrowers; anything outside the library may keep it"""
        if fn in DTOR:
            return True
        if fn is None or not P.has(fn):
            return fn not in ('memcpy', 'memset', 'memcmp', 'memmove', 'strlen')
        if '' in FS.get((fn, i), ()):
            return True
        g = P.func(fn)
        if i >= len(g['params']):
            return True
        pv = 'v%d' % g['params'][i]['id']
        for b, ev in P.events(g):
            t = ev['e']
            if t.get('k') == 'asg' and t.get('op') == '=' and ap(t['r']) == pv and ap(t['l']) and ('>' in ap(t['l']) or '.' in ap(t['l'])):
                return True      # stored somewhere
            if t.get('k') == 'ret' and 'e' in t and ap(t['e']) == pv:
                return True
            if t.get('k') == 'call' and t.get('fn') != fn:
                for j, x in enumerate(t.get('a', [])):
                    if ap(x) == pv and consumes.depth < 3:
                        consumes.depth += 1
                        try:
                            if consumes(t.get('fn'), j):
                                return True
                        finally:
                            consumes.depth -= 1
        return False
    consumes.depth = 0
    nh = 0
    for f in sorted(P.lib_funcs(), key=lambda f: f['name']):
        name = f['name']
        # fresh holders: locals assigned from a raw allocator
        fresh = set()
        for b, ev in P.events(f):
            t = ev['e']
            if t.get('k') == 'asg' and t.get('op') == '=':
                r = strip(t['r'])
                a = ap(t['l'])
                if a and '.' not in a and '>' not in a and isinstance(r, dict) and r.get('k') == 'call' and r.get('fn') in RAW_ALLOC:
                    fresh.add(a)
            elif t.get('k') == 'decl':
                for d in t['d']:
                    r = strip(d.get('init'))
                    if isinstance(r, dict) and r.get('k') == 'call' and r.get('fn') in RAW_ALLOC:
                        fresh.add('v%d' % d['id'])
        if not fresh:
            continue
        # stores of created objects into their fields
        stores = []
        for b, ev in P.events(f):
            t = ev['e']
            if t.get('k') == 'asg' and t.get('op') == '=':
                l = strip(t['l'])
                r = strip(t['r'])
                if isinstance(l, dict) and l.get('k') == 'mem' and l.get('arrow') and ap(l['b']) in fresh and \
                        isinstance(r, dict) and r.get('k') == 'call' and r.get('fn') in creators:
                    stores.append(ev)
        if not stores:
            continue
        nh += 1
        run.instance('R-HOLDER-LEAK', '%s: %d created objects stored into fresh holder(s)' % (name, len(stores)))

        def holder_of(a):
            if not a:
                return None
            for h in fresh:
                if a.startswith(h + '->'):
                    return h
            return None

        def is_rule_event(ev):
            t = ev['e']
            if any(ev is s for s in stores):
                return True
            if t.get('k') == 'call':
                return any((ap(x) in fresh) or holder_of(ap(x)) for x in t.get('a', []))
            if t.get('k') == 'ret':
                return True
            if t.get('k') == 'asg':
                return holder_of(ap(t['l'])) is not None or ap(t['r']) in fresh
            return False
        aps = set()
        for s in stores:
            aps.add(ap(s['e']['l']))
        keys, R = relevance(f, is_rule_event, aps)
        R = set(R) | aps | fresh

        def drop_holder(e, h):
            e.ts['own'] = frozenset(x for x in e.ts['own'] if x[0] != h)

        def on_event(ev, env, ctx):
            t = ev['e']
            own = env.ts['own']
            if t.get('k') == 'asg' and t.get('op') == '=':
                la = ap(t['l'])
                h = holder_of(la)
                r = strip(t['r'])
                if h and isinstance(r, dict) and r.get('k') == 'call' and r.get('fn') in creators and any(ev is s for s in stores):
                    e = apply_generic(ev, env, R).copy()
                    e.ts['own'] = own | {(h, la)}
                    return [e]
                if h and (h, la) in own:
                    e = apply_generic(ev, env, R).copy()
                    e.ts['own'] = own - {(h, la)}
                    return [e]
                ra = ap(t['r'])
                if ra in fresh:
                    # the holder itself is stored: into another fresh holder's field it stays ours, anywhere else it moved
                    if holder_of(la) is None:
                        e = apply_generic(ev, env, R).copy()
                        drop_holder(e, ra)
                        return [e]
                return None
            if t.get('k') == 'ret' and 'e' in t:
                ra = ap(t['e'])
                if ra in fresh:
                    e = env.copy()
                    drop_holder(e, ra)
                    # holders stored inside the returned one move with it
                    e.ts['own'] = frozenset()
                    return [e]
                return None
            if t.get('k') == 'call':
                fn = t.get('fn')
                e = None
                for i, x in enumerate(t.get('a', [])):
                    a = ap(x)
                    if a in fresh:
                        if fn in RAW_FREE and RAW_FREE[fn] == i:
                            pend = sorted(p for (h, p) in own if h == a and env.nullf(p) != 'Z')
                            run.oblige('R-HOLDER-LEAK', not pend, '%s:raw-free:%s' % (name, a))
                            if pend and env.nullf(a) != 'Z':
                                flds = ', '.join(p.split('->', 1)[1] for p in pend)
                                run.violation('R-HOLDER-LEAK', name, ev['loc'], 'raw-free-with-owned-fields:%s' % flds.replace(', ', '+'),
                                              '%s() releases the record with the raw allocator call while its field(s) %s still hold objects created earlier on this path: '
                                              'they are leaked (only on the failure path that jumps here)' % (fn, flds), ctx.path())
                            e = e or env.copy()
                            drop_holder(e, a)
                        elif fn not in ('memset', 'memcpy', 'memcmp', 'coap_log_impl'):
                            e = e or env.copy()
                            drop_holder(e, a)
                    elif holder_of(a) and (holder_of(a), a) in own and consumes(fn, i):
                        e = e or env.copy()
                        e.ts['own'] = e.ts['own'] - {(holder_of(a), a)}
                if e is not None:
                    return [apply_generic(ev, e, R)]
            return None
        ctx = solve(f, Env({'own': frozenset()}), on_event, None, keys, R, key_fn=lambda e: (e.ts['own'], tuple(e.nullf(a) for a in sorted(aps | fresh))), max_envs=512)
        run.stats['holder_solver_steps'] += ctx.steps
    run.require(nh >= (3 if run.cfg == 'base' else 1) or run.fixture_mode, 'R-HOLDER-LEAK: fewer than 3 functions store created objects into a fresh holder')
