"""R-SIZE-FILL (C02, C16): two-pass string builders measure first, allocate, then fill.  The measuring pass and the filling pass walk the
same bytes; whatever the first counts for a byte the second must store for it, or the fill runs over the end of the allocation (counts
less) or leaves the tail unset (counts more).

Decided exactly, by constant evaluation over all 256 byte values (the evaluator of R-URI-CLASS: pure single-expression predicates are
folded through their bodies, so refactoring a predicate does not matter):
  * loops are computed (natural loops of the CFG, innermost only) and classified: a MEASURE loop adds constants to a local under
    conditions on the current element X[i]; a FILL loop stores through a post-incremented cursor under conditions on X[i];
  * one iteration of each is executed abstractly for every value c of X[i]: bytes counted m(c), bytes stored s(c);
  * in a function that has both kinds (paired in order of appearance) m(c) == s(c) for every c.
A condition inside such a loop that cannot be folded for a given byte makes the analysis give up (exit 2), never pass."""
import collections
from core.prog import strip, walk, ap, short, const_int, dominators, succs
from core.facts import AnalysisBroken
from rules.r_uriclass import _eval, Unfold


def natural_loops(f):
    dom = dominators(f)
    B = f['B']
    loops = {}
    for u in dom:
        for h in succs(B[u]):
            if h in dom.get(u, ()):
                body = {h}
                work = [u]
                while work:
                    n = work.pop()
                    if n in body:
                        continue
                    body.add(n)
                    for p in [b['id'] for b in f['blocks'] if n in succs(b) and b['id'] in dom]:
                        work.append(p)
                loops.setdefault(h, set()).update(body)
    return loops


def _subst(t, elemkey, c):
    """copy of the expression with every load of the current element replaced by the constant c"""
    if isinstance(t, dict):
        t0 = t
        if t0.get('k') in ('idx', 'sub') and (ap(t0.get('b')), ap(t0.get('i'))) == elemkey:
            return {'k': 'int', 'v': c, 't': 'int'}
        return dict((k, _subst(v, elemkey, c)) for k, v in t.items())
    if isinstance(t, list):
        return [_subst(v, elemkey, c) for v in t]
    return t


def _cursor_store(t):
    """variable that is post-incremented as the target of a store: *s++ = v"""
    if t.get('k') != 'asg' or t.get('op') != '=':
        return None
    l = strip(t['l'])
    if isinstance(l, dict) and l.get('k') == 'un' and l.get('op') == '*':
        e = strip(l.get('e'))
        if isinstance(e, dict) and e.get('k') == 'un' and e.get('op') in ('post++', '++') and ap(e.get('e')):
            return ap(e['e'])
    return None


def _const_add(t):
    """(variable, K) for L += K / L++ / L = L + K"""
    if t.get('k') == 'asg' and t.get('op') == '+=' and ap(t['l']) and const_int(t['r']) is not None:
        return ap(t['l']), const_int(t['r'])
    if t.get('k') == 'un' and t.get('op') in ('++', 'post++') and ap(t.get('e')):
        return ap(t['e']), 1
    if t.get('k') == 'asg' and t.get('op') == '=' and ap(t['l']):
        r = strip(t['r'])
        if isinstance(r, dict) and r.get('k') == 'bin' and r.get('op') == '+':
            for a, b in ((r['l'], r['r']), (r['r'], r['l'])):
                if ap(a) == ap(t['l']) and const_int(b) is not None:
                    return ap(t['l']), const_int(b)
    return None


def classify(P, f):
    """[(header, kind, elemkey, counter/cursor)] for the innermost loops of f that look at an element X[i]"""
    B = f['B']
    loops = natural_loops(f)
    out = []
    for h, body in sorted(loops.items()):
        if any(h2 != h and h2 in body for h2 in loops):
            continue                       # not innermost
        elems = collections.Counter()
        for bid in body:
            c = (B[bid].get('term') or {}).get('cond')
            if c is None or bid == h:
                continue
            for n in walk(c):
                if isinstance(n, dict) and n.get('k') in ('idx', 'sub') and ap(n.get('b')) and ap(n.get('i')) and '[' not in ap(n['i']):
                    elems[(ap(n['b']), ap(n['i']))] += 1
        if not elems:
            continue
        elemkey = elems.most_common(1)[0][0]
        adds, stores = collections.Counter(), collections.Counter()
        for bid in body:
            for ev in B[bid]['elems']:
                if not ev.get('top', True):
                    continue
                t = ev['e']
                s = _cursor_store(t)
                if s:
                    stores[s] += 1
                a = _const_add(t)
                if a and a[0] != elemkey[1]:
                    adds[a[0]] += 1
        if stores:
            out.append((h, 'fill', elemkey, stores.most_common(1)[0][0], body))
        elif adds:
            out.append((h, 'measure', elemkey, adds.most_common(1)[0][0], body))
    return out


def iterate(P, f, loop, c):
    """bytes counted / stored by one iteration for element value c"""
    h, kind, elemkey, var, body = loop
    B = f['B']
    cur = B[h]['succ'][0] if len(B[h]['succ']) == 2 else (succs(B[h]) or [None])[0]
    total = 0
    steps = 0
    while cur is not None and cur != h and cur in body:
        steps += 1
        if steps > 200:
            raise Unfold('iteration of the loop at block %s does not come back to its header' % h)
        b = B[cur]
        for ev in b['elems']:
            if not ev.get('top', True):
                continue
            t = ev['e']
            if kind == 'fill' and _cursor_store(t) == var:
                total += 1
            if kind == 'measure':
                a = _const_add(t)
                if a and a[0] == var:
                    total += a[1]
        term = b.get('term') or {}
        if term.get('cond') is not None and len(b['succ']) == 2:
            v = _eval(P, _subst(term['cond'], elemkey, c), {})
            cur = b['succ'][0] if v else b['succ'][1]
        else:
            ss = succs(b)
            cur = ss[0] if ss else None
    return total


def run(run, P, units=None):
    run.rule('R-SIZE-FILL')
    npairs = 0
    for f in sorted(P.lib_funcs(), key=lambda f: f['name']):
        if units and f['unit'] not in units:
            continue
        try:
            ls = classify(P, f)
        except KeyError:
            continue
        ms = [l for l in ls if l[1] == 'measure']
        fs = [l for l in ls if l[1] == 'fill']
        if not ms or not fs or len(ms) != len(fs):
            continue
        name = f['name']
        for m, fl in zip(ms, fs):
            try:
                mt = [iterate(P, f, m, c) for c in range(256)]
                ft = [iterate(P, f, fl, c) for c in range(256)]
            except Unfold as e:
                if run.fixture_mode:
                    raise
                raise AnalysisBroken('R-SIZE-FILL: %s(): %s' % (name, e))
            if len(set(mt)) < 2 and len(set(ft)) < 2:
                continue              # neither depends on the element: not the measure/fill idiom
            npairs += 1
            run.instance('R-SIZE-FILL', '%s: measuring loop and filling loop agree for all 256 byte values (counts %s)' % (name, sorted(set(mt))))
            bad = [c for c in range(256) if mt[c] != ft[c]]
            run.oblige('R-SIZE-FILL', not bad, '%s:measure-equals-fill' % name)
            if bad:
                c = bad[0]
                hb = f['B'][fl[0]]
                loc = (hb.get('term') or {}).get('loc') or (hb['elems'][0]['loc'] if hb['elems'] else f['loc'])
                run.violation('R-SIZE-FILL', name, loc, 'measure-fill-disagree:%s' % ','.join('0x%02x' % x for x in bad[:4]),
                              'for byte 0x%02x%s the measuring loop counts %d byte(s) but the filling loop stores %d (%d byte values differ): the string is allocated from the '
                              'count, so the fill %s' % (c, " ('%s')" % chr(c) if 32 <= c < 127 else '', mt[c], ft[c], len(bad),
                                                      'writes behind the allocation' if ft[c] > mt[c] else 'leaves the tail of the string unset'), [])
    run.require_count(npairs >= (2 if not units else 1) or run.fixture_mode, 'R-SIZE-FILL: fewer than 2 measure/fill loop pairs found (expected coap_get_query, coap_get_uri_path)')


def run_separator(run, P, units=None):
    """R-SIZE-FILL (separators): the measuring pass counts one separator between any two segments, whatever their lengths.  In the filling
    pass the store of a separator (a constant stored through the output cursor in the OUTER loop of a fill loop) is therefore decided by
    how many segments have been written, never by where the cursor stands: its controlling condition does not read the cursor.  `if (s !=
    start) *s++ = '&'` writes no separator after an EMPTY first segment -- the string comes out one byte shorter than measured, with an
    uninitialised byte at its end and the first separator missing."""
    from core.prog import control_deps
    run.rule('R-SIZE-FILL')
    n = 0
    for f in sorted(P.lib_funcs(), key=lambda f: f['name']):
        if units and f['unit'] not in units:
            continue
        try:
            ls = classify(P, f)
        except KeyError:
            continue
        fills = [l for l in ls if l[1] == 'fill']
        if not fills or not [l for l in ls if l[1] == 'measure']:
            continue
        B = f['B']
        loops = natural_loops(f)
        cd = control_deps(f)
        for (h, kind, elemkey, cur, body) in fills:
            outer = [bd for hh, bd in loops.items() if hh != h and h in bd]
            if not outer:
                continue
            ob = min(outer, key=len)
            for bid in sorted(ob - body):
                for ev in B[bid]['elems']:
                    t = ev['e']
                    if _cursor_store(t) == cur and const_int(t['r']) is not None:
                        n += 1
                        reads = []
                        for (bb, idx) in cd.get(bid, ()):
                            c = (B[bb].get('term') or {}).get('cond')
                            if c is not None and bb in ob and any(isinstance(x, dict) and ap(x) == cur for x in walk(c)):
                                reads.append(short(c)[:40])
                        ok = not reads
                        run.instance('R-SIZE-FILL', '%s: separator \'%s\' decided without reading the cursor' % (f['name'], chr(const_int(t['r'])) if 32 <= const_int(t['r']) < 127 else const_int(t['r'])))
                        run.oblige('R-SIZE-FILL', ok, '%s:separator-by-count' % f['name'])
                        if not ok:
                            run.violation('R-SIZE-FILL', f['name'], ev['loc'], 'separator-decided-by-cursor-position',
                                          'the separator is written under the condition %s, which reads the output cursor: after an empty first segment the cursor has not moved, '
                                          'no separator is written although the measuring pass counted one, and the string ends in an uninitialised byte' % reads[0], [])
    run.require_count(n >= (2 if not units else 1) or run.fixture_mode, 'R-SIZE-FILL(separators): fewer than 2 separator stores in the outer loop of a fill loop found')
