"""R-LOST-STORE (C01): a field that was just given a meaningful value is not handed to a function that resets it.  Resetters are computed:
(g, i, f) such that g assigns a constant to `param_i->f` and never reads that field (coap_add_token() starts the option area: max_opt = 0,
data = NULL ...).  In any library function, after `X->f = E` with E not a constant, no path reaches a call g(.., X, ..) with (g, i, f) a
resetter before X->f has been read: the value would be gone before anybody saw it.  coap_pdu_duplicate_lkd() copies max_opt of the
original after the options were block-copied; carrying it across "with the other per-PDU state" in front of coap_add_token() leaves the
duplicate with options up to N and max_opt 0 -- every option added afterwards is delta-encoded against 0."""
import collections
from core.prog import strip, walk, ap, short, const_int, is_null_const
from core.psts import Env, solve, relevance, apply_generic


def resetters(P):
    out = collections.defaultdict(set)
    for g in P.lib_funcs():
        for i, p in enumerate(g.get('params') or ()):
            if not p.get('p') or p.get('pc'):
                continue
            pv = 'v%s' % p['id']
            writes, reads = set(), set()
            for b, ev in P.events(g):
                t = ev['e']
                if not (ev.get('top') or t.get('k') == 'decl'):
                    continue
                lw = None
                if t.get('k') == 'asg':
                    l = strip(t['l'])
                    if isinstance(l, dict) and l.get('k') == 'mem' and l.get('arrow') and ap(l.get('b')) == pv:
                        lw = l
                        if t.get('op') == '=' and (const_int(t['r']) is not None or is_null_const(t['r'])):
                            writes.add(l['f'])
                        else:
                            reads.add(l['f'])          # computed from something: not a plain reset
                seen_l = False
                for x in walk(t):
                    if isinstance(x, dict) and x.get('k') == 'mem' and x.get('arrow') and ap(x.get('b')) == pv:
                        if lw is not None and not seen_l and x.get('f') == lw.get('f'):
                            seen_l = True                # the assigned lvalue itself (first occurrence in walk order)
                            continue
                        reads.add(x['f'])
            for b in g['blocks']:
                c = (b.get('term') or {}).get('cond')
                if c is not None:
                    for x in walk(c):
                        if isinstance(x, dict) and x.get('k') == 'mem' and x.get('arrow') and ap(x.get('b')) == pv:
                            reads.add(x['f'])
            for f_ in writes - reads:
                out[(g['name'], i)].add(f_)
    return out


def run(run, P, units=None):
    run.rule('R-LOST-STORE')
    RS = resetters(P)
    n = 0
    for f in sorted(P.lib_funcs(), key=lambda f: f['name']):
        if units and f['unit'] not in units:
            continue
        stores = []
        calls = []
        for b, ev in P.events(f):
            t = ev['e']
            if not (ev.get('top') or t.get('k') == 'decl'):
                continue
            if t.get('k') == 'asg' and t.get('op') == '=':
                l = strip(t['l'])
                if isinstance(l, dict) and l.get('k') == 'mem' and l.get('arrow') and ap(l) and ap(l.get('b')) and const_int(t['r']) is None and not is_null_const(t['r']):
                    stores.append((ev, ap(l), ap(l['b']), l['f']))
            if t.get('k') == 'call' and t.get('fn'):
                for i, a in enumerate(t.get('a') or ()):
                    if (t['fn'], i) in RS and isinstance(strip(a), dict) and ap(strip(a)):
                        calls.append((ev, ap(strip(a)), RS[(t['fn'], i)], t['fn']))
        hits = [(s_, c) for s_ in stores for c in calls if c[1] == s_[2] and s_[3] in c[2]]
        if not hits:
            continue
        name = f['name']
        fields = set(s_[1] for s_, c in hits)

        def reads(t, skip=None):
            part = t['r'] if t.get('k') == 'asg' and t.get('op') == '=' else t
            return set(ap(x) for x in walk(part) if isinstance(x, dict) and x.get('k') == 'mem' and ap(x) in fields)

        def is_rule_event(ev):
            return bool(ev.get('top') or ev['e'].get('k') == 'decl') and (any(ev is s_[0] for s_, c in hits) or any(ev is c[0] for s_, c in hits) or bool(reads(ev['e'])))
        keys, R = relevance(f, is_rule_event)
        keys = set(keys)
        for b in f['blocks']:
            c = (b.get('term') or {}).get('cond')
            if c is not None and any(isinstance(x, dict) and x.get('k') == 'mem' and ap(x) in fields for x in walk(c)):
                keys.add(b['id'])
        rep = set()

        def on_event(ev, env, ctx):
            t = ev['e']
            if not (ev.get('top') or t.get('k') == 'decl'):
                return None
            fresh = env.ts.get('fresh', frozenset())
            out = None
            rd = reads(t)
            if fresh and rd:
                fresh = frozenset(x for x in fresh if x[0] not in rd)
                out = True
            for s_, c in hits:
                if ev is c[0]:
                    for x in fresh:
                        if x[0] == s_[1] and (x[1], ev['loc']) not in rep:
                            rep.add((x[1], ev['loc']))
                            run.oblige('R-LOST-STORE', False, '%s:%s:store-survives' % (name, s_[3]))
                            run.violation('R-LOST-STORE', name, x[1], 'store-reset-by-callee:%s:%s' % (s_[3], c[3]),
                                          '%s is assigned here and, before anything read it, the object is handed to %s() (%s), which resets that field: the value is lost'
                                          % (short(s_[0]['e']['l']), c[3], ev['loc'].rsplit('/', 1)[-1]), ctx.path())
                    fresh = frozenset(x for x in fresh if x[0] != s_[1])
                    out = True
            for s_, c in hits:
                if ev is s_[0]:
                    fresh = frozenset(set(fresh) | {(s_[1], ev['loc'])})
                    out = True
            if out:
                e = apply_generic(ev, env, R).copy()
                e.ts['fresh'] = fresh
                return [e]
            return None

        def on_branch(b, s, env, ctx):
            c = (b.get('term') or {}).get('cond')
            fresh = env.ts.get('fresh', frozenset())
            if c is not None and fresh:
                rd = set(ap(x) for x in walk(c) if isinstance(x, dict) and x.get('k') == 'mem' and ap(x) in fields)
                if rd:
                    e = env.copy()
                    e.ts['fresh'] = frozenset(x for x in fresh if x[0] not in rd)
                    return e
            return env
        for s_, c in hits:
            n += 1
            run.instance('R-LOST-STORE', '%s: %s is not reset by %s() before it was read' % (name, short(s_[0]['e']['l']), c[3]))
        run.oblige('R-LOST-STORE', True, '%s:sites' % name)
        solve(f, Env(), on_event, None, keys, R, key_fn=lambda e: e.ts.get('fresh'), on_branch=on_branch)
    return n


def maintainers(P):
    """(g, i) -> fields f such that g assigns `param_i->f` a computed (non-constant) value: g keeps f up to date with the object's content"""
    out = collections.defaultdict(set)
    for g in P.lib_funcs():
        for i, p in enumerate(g.get('params') or ()):
            if not p.get('p') or p.get('pc'):
                continue
            pv = 'v%s' % p['id']
            for b, ev in P.events(g):
                t = ev['e']
                if ev.get('top') and t.get('k') == 'asg':
                    l = strip(t['l'])
                    if isinstance(l, dict) and l.get('k') == 'mem' and l.get('arrow') and ap(l.get('b')) == pv and \
                            not (t.get('op') == '=' and (const_int(t['r']) is not None or is_null_const(t['r']))):
                        out[(g['name'], i)].add(l['f'])
    return out


def run_maintained(run, P, units=None):
    """R-LOST-STORE (maintained field): the mirror image.  Once a function that keeps `X->f` up to date with X's content (a maintainer, computed:
    assigns a computed value to the field of its parameter - coap_add_option_internal() and max_opt) has been called on X, the caller does not
    overwrite `X->f` with the same field of ANOTHER object (`X->f = Y->f`): X's bookkeeping then describes Y's content, not X's own.
    coap_pdu_duplicate_lkd() copies max_opt only in the arm that block-copied every option; after the filtered copy the value the adding
    function left is the right one."""
    run.rule('R-LOST-STORE')
    from core.prog import succs
    MT = maintainers(P)
    n = 0
    for f in sorted(P.lib_funcs(), key=lambda f: f['name']):
        if units and f['unit'] not in units:
            continue
        copies, calls = [], []
        order = {}
        for b, ev in P.events(f):
            order[id(ev)] = (b['id'], len(order))
            t = ev['e']
            if not ev.get('top'):
                continue
            if t.get('k') == 'asg' and t.get('op') == '=':
                l, r = strip(t['l']), strip(t['r'])
                while isinstance(r, dict) and r.get('k') == 'cast':
                    r = strip(r.get('e'))
                if isinstance(l, dict) and l.get('k') == 'mem' and l.get('arrow') and isinstance(r, dict) and r.get('k') == 'mem' and r.get('f') == l['f'] \
                        and r.get('rec') == l.get('rec') and ap(l.get('b')) and ap(r.get('b')) and ap(l['b']) != ap(r['b']):
                    copies.append((ev, b['id'], ap(l['b']), l['f']))
            for c in walk(t):
                if isinstance(c, dict) and c.get('k') == 'call' and c.get('fn'):
                    for i, a in enumerate(c.get('a') or ()):
                        if (c['fn'], i) in MT and isinstance(strip(a), dict) and ap(strip(a)):
                            calls.append((ev, b['id'], ap(strip(a)), MT[(c['fn'], i)], c['fn']))
        # conditions hold calls too (`if (!coap_add_option_internal(..)) goto fail;`)
        for b in f['blocks']:
            c = (b.get('term') or {}).get('cond')
            if c is None:
                continue
            for x in walk(c):
                if isinstance(x, dict) and x.get('k') == 'call' and x.get('fn'):
                    for i, a in enumerate(x.get('a') or ()):
                        if (x['fn'], i) in MT and isinstance(strip(a), dict) and ap(strip(a)):
                            calls.append((None, b['id'], ap(strip(a)), MT[(x['fn'], i)], x['fn']))
        if not copies:
            continue
        name = f['name']
        B = f['B']

        def reach(frm):
            seen, work = set(), list(succs(B[frm]))
            while work:
                i = work.pop()
                if i in seen:
                    continue
                seen.add(i)
                if not B[i].get('noret'):
                    work.extend(succs(B[i]))
            return seen
        for cev, cb, cx, cf in copies:
            n += 1
            run.instance('R-LOST-STORE', '%s: %s copies the field of another object' % (name, short(cev['e'])))
            bad = None
            for mev, mb, mx, mfs, mfn in calls:
                if mx != cx or cf not in mfs:
                    continue
                if cb in reach(mb) or (mb == cb and mev is not None and order[id(mev)][1] < order[id(cev)][1]):
                    bad = mfn
                    break
            run.oblige('R-LOST-STORE', bad is None, '%s:%s:maintained-field-kept' % (name, cf))
            if bad:
                run.violation('R-LOST-STORE', name, cev['loc'], 'maintained-field-overwritten:%s:%s' % (cf, bad),
                              '%s replaces the field with another object\'s although %s(), which keeps that field up to date with what THIS object holds, has already run on it '
                              'on some path to here: the bookkeeping no longer describes the object (an option added next is delta-encoded against the wrong number)'
                              % (short(cev['e']), bad))
    return n
